//! Shared plumbing for every /verif harness binary: deterministic PRNG, command
//! line, verdict accounting against KNOWN_FINDINGS.json, evidence + replay files.
//!
//! Verdicts are three-valued (DESIGN §0): exit 0 = held on what was observed
//! (KNOWN-FINDING lines allowed), exit 1 = VIOLATION with an unlisted signature,
//! exit 2 = INCONCLUSIVE (harness problem, watchdog, too few non-trivial cases).

use serde_json::{json, Map, Value as J};
use std::collections::{BTreeMap, BTreeSet};
use std::hash::{Hash, Hasher};
use std::path::PathBuf;
use std::time::Instant;

// ---------------------------------------------------------------------------
// PRNG (splitmix64) — everything random derives from VERIF_SEED through this.
// ---------------------------------------------------------------------------
#[derive(Clone, Debug)]
pub struct Rng(pub u64);

impl Rng {
    pub fn new(seed: u64) -> Self {
        Rng(seed ^ 0x9E37_79B9_7F4A_7C15)
    }
    /// Independent stream derived from this seed and a label.
    pub fn fork(&self, label: u64) -> Rng {
        let mut r = Rng(self.0 ^ label.wrapping_mul(0xD6E8_FEB8_6659_FD93));
        r.next_u64();
        r.next_u64();
        r
    }
    pub fn next_u64(&mut self) -> u64 {
        self.0 = self.0.wrapping_add(0x9E37_79B9_7F4A_7C15);
        let mut z = self.0;
        z = (z ^ (z >> 30)).wrapping_mul(0xBF58_476D_1CE4_E5B9);
        z = (z ^ (z >> 27)).wrapping_mul(0x94D0_49BB_1331_11EB);
        z ^ (z >> 31)
    }
    /// Uniform in 0..n (n>0).
    pub fn below(&mut self, n: usize) -> usize {
        (self.next_u64() % (n as u64)) as usize
    }
    /// Uniform in lo..=hi.
    pub fn range(&mut self, lo: i64, hi: i64) -> i64 {
        lo + (self.next_u64() % ((hi - lo + 1) as u64)) as i64
    }
    pub fn chance(&mut self, num: u32, den: u32) -> bool {
        (self.next_u64() % den as u64) < num as u64
    }
    pub fn pick<'a, T>(&mut self, xs: &'a [T]) -> &'a T {
        &xs[self.below(xs.len())]
    }
    pub fn f64_unit(&mut self) -> f64 {
        (self.next_u64() >> 11) as f64 / (1u64 << 53) as f64
    }
    pub fn shuffle<T>(&mut self, xs: &mut [T]) {
        for i in (1..xs.len()).rev() {
            let j = self.below(i + 1);
            xs.swap(i, j);
        }
    }
}

pub fn hash64<T: Hash>(t: &T) -> u64 {
    let mut h = std::collections::hash_map::DefaultHasher::new();
    t.hash(&mut h);
    h.finish()
}

// ---------------------------------------------------------------------------
// Command line
// ---------------------------------------------------------------------------
#[derive(Clone, Debug)]
pub struct Args {
    pub tier: String,
    pub seed: u64,
    pub verif_dir: PathBuf,
    pub replay: Option<PathBuf>,
    pub extra: Vec<String>,
}

impl Args {
    pub fn parse() -> Args {
        let mut tier = std::env::var("VERIF_TIER").unwrap_or_else(|_| "quick".into());
        let mut seed: u64 = std::env::var("VERIF_SEED")
            .ok()
            .and_then(|s| s.trim().parse::<i64>().ok())
            .map(|v| v as u64)
            .unwrap_or(1);
        let mut verif_dir = PathBuf::from(
            std::env::var("VERIF_DIR").unwrap_or_else(|_| "/verif".into()),
        );
        let mut replay = None;
        let mut extra = vec![];
        let mut it = std::env::args().skip(1);
        while let Some(a) = it.next() {
            match a.as_str() {
                "--tier" => tier = it.next().expect("--tier value"),
                "--seed" => seed = it.next().expect("--seed value").parse::<i64>().expect("seed int") as u64,
                "--verif-dir" => verif_dir = PathBuf::from(it.next().expect("--verif-dir value")),
                "--replay" => replay = Some(PathBuf::from(it.next().expect("--replay value"))),
                _ => extra.push(a),
            }
        }
        if tier != "quick" && tier != "thorough" {
            tier = "quick".into();
        }
        Args { tier, seed, verif_dir, replay, extra }
    }
    pub fn thorough(&self) -> bool {
        self.tier == "thorough"
    }
    /// quick/thorough selector
    pub fn pick<T>(&self, quick: T, thorough: T) -> T {
        if self.thorough() { thorough } else { quick }
    }
    pub fn has_flag(&self, f: &str) -> bool {
        self.extra.iter().any(|x| x == f)
    }
    pub fn opt(&self, name: &str) -> Option<String> {
        let mut it = self.extra.iter();
        while let Some(a) = it.next() {
            if a == name {
                return it.next().cloned();
            }
        }
        None
    }
}

// ---------------------------------------------------------------------------
// Known findings
// ---------------------------------------------------------------------------
#[derive(Clone, Debug, Default)]
pub struct Known {
    /// signature -> what
    pub listed: BTreeMap<String, String>,
}

impl Known {
    pub fn load(verif_dir: &PathBuf, property: &str) -> Known {
        let p = verif_dir.join("KNOWN_FINDINGS.json");
        let mut k = Known::default();
        if let Ok(txt) = std::fs::read_to_string(&p) {
            if let Ok(v) = serde_json::from_str::<J>(&txt) {
                if let Some(arr) = v.get("findings").and_then(|a| a.as_array()) {
                    for f in arr {
                        if f.get("property").and_then(|x| x.as_str()) == Some(property) {
                            if let Some(sig) = f.get("signature").and_then(|x| x.as_str()) {
                                k.listed.insert(
                                    sig.to_string(),
                                    f.get("what").and_then(|x| x.as_str()).unwrap_or("").to_string(),
                                );
                            }
                        }
                    }
                }
            }
        }
        k
    }
}

// ---------------------------------------------------------------------------
// Report: collects observations, violations, evidence; decides exit code.
// ---------------------------------------------------------------------------
pub struct Violation {
    pub signature: String,
    pub what: String,
    pub witness: J,
}

pub struct Report {
    pub property: String,
    pub level: String,
    pub args: Args,
    pub start: Instant,
    pub known: Known,
    pub evaluations: u64,
    nontrivial: BTreeSet<u64>,
    pub rule: String,
    pub samples: Vec<J>,
    pub max_samples: usize,
    pub extra: Map<String, J>,
    pub assumptions: Vec<String>,
    pub violations: Vec<Violation>,
    /// count per signature (all occurrences, also those beyond the stored witnesses)
    pub sig_counts: BTreeMap<String, u64>,
    pub inconclusive: Vec<String>,
    pub min_nontrivial: u64,
    pub exhaustive: Option<bool>,
}

impl Report {
    pub fn new(property: &str, level: &str, args: &Args) -> Report {
        Report {
            property: property.to_string(),
            level: level.to_string(),
            args: args.clone(),
            start: Instant::now(),
            known: Known::load(&args.verif_dir, property),
            evaluations: 0,
            nontrivial: BTreeSet::new(),
            rule: String::new(),
            samples: vec![],
            max_samples: 5,
            extra: Map::new(),
            assumptions: vec![],
            violations: vec![],
            sig_counts: BTreeMap::new(),
            inconclusive: vec![],
            min_nontrivial: 2,
            exhaustive: None,
        }
    }
    pub fn eval(&mut self) {
        self.evaluations += 1;
    }
    /// Record a distinct non-trivial case (by hash of the case).
    pub fn nontrivial<T: Hash>(&mut self, case: &T) {
        self.nontrivial.insert(hash64(case));
    }
    pub fn nontrivial_count(&self) -> u64 {
        self.nontrivial.len() as u64
    }
    pub fn sample(&mut self, s: J) {
        if self.samples.len() < self.max_samples {
            self.samples.push(s);
        }
    }
    pub fn set(&mut self, k: &str, v: J) {
        self.extra.insert(k.to_string(), v);
    }
    pub fn add(&mut self, k: &str, n: u64) {
        let cur = self.extra.get(k).and_then(|v| v.as_u64()).unwrap_or(0);
        self.extra.insert(k.to_string(), json!(cur + n));
    }
    pub fn assume(&mut self, s: &str) {
        self.assumptions.push(s.to_string());
    }
    /// Record a violation. Only the first 3 witnesses per signature are stored.
    pub fn violation(&mut self, signature: &str, what: &str, witness: J) {
        let c = self.sig_counts.entry(signature.to_string()).or_insert(0);
        *c += 1;
        if *c <= 3 {
            self.violations.push(Violation {
                signature: signature.to_string(),
                what: what.to_string(),
                witness,
            });
        }
    }
    pub fn inconclusive(&mut self, why: &str) {
        if self.inconclusive.len() < 20 {
            self.inconclusive.push(why.to_string());
        }
    }
    pub fn unlisted_violation_count(&self) -> u64 {
        self.sig_counts
            .iter()
            .filter(|(s, _)| !self.known.listed.contains_key(*s))
            .map(|(_, c)| *c)
            .sum()
    }

    /// Write evidence + replays, print verdict lines, return the exit code.
    pub fn finish(mut self) -> i32 {
        let wall = self.start.elapsed().as_secs_f64();
        let replay_dir = self.args.verif_dir.join("replays").join(&self.property);
        let _ = std::fs::create_dir_all(&replay_dir);
        let mut exit = 0;
        let mut printed_known: BTreeSet<String> = BTreeSet::new();
        let mut unlisted = 0u64;
        let mut n = 0usize;
        let mut first_unlisted_per_sig: BTreeSet<String> = BTreeSet::new();
        for v in &self.violations {
            if let Some(what) = self.known.listed.get(&v.signature) {
                if printed_known.insert(v.signature.clone()) {
                    println!(
                        "KNOWN-FINDING: property={} signature={} occurrences={} {}",
                        self.property,
                        v.signature,
                        self.sig_counts.get(&v.signature).copied().unwrap_or(0),
                        what
                    );
                }
            } else {
                unlisted += 1;
                exit = 1;
                n += 1;
                let path = replay_dir.join(format!(
                    "{}-seed{}-{}.json",
                    self.args.tier, self.args.seed, n
                ));
                let doc = json!({
                    "property": self.property,
                    "signature": v.signature,
                    "what": v.what,
                    "tier": self.args.tier,
                    "seed": self.args.seed,
                    "witness": v.witness,
                });
                let _ = std::fs::write(&path, serde_json::to_string_pretty(&doc).unwrap());
                if first_unlisted_per_sig.insert(v.signature.clone()) {
                    println!(
                        "VIOLATION property={} replay={} signature={} occurrences={} :: {}",
                        self.property,
                        path.display(),
                        v.signature,
                        self.sig_counts.get(&v.signature).copied().unwrap_or(0),
                        v.what
                    );
                }
            }
        }
        let nontrivial = self.nontrivial.len() as u64;
        if exit == 0 {
            if nontrivial < self.min_nontrivial {
                self.inconclusive.push(format!(
                    "only {} distinct non-trivial cases observed (floor {})",
                    nontrivial, self.min_nontrivial
                ));
            }
            if !self.inconclusive.is_empty() {
                exit = 2;
                for w in &self.inconclusive {
                    println!("INCONCLUSIVE property={} reason={}", self.property, w);
                }
            }
        }
        // Evidence
        let mut cov = Map::new();
        cov.insert("evaluations".into(), json!(self.evaluations));
        cov.insert("distinct_nontrivial".into(), json!(nontrivial));
        cov.insert("rule".into(), json!(self.rule));
        if self.samples.is_empty() {
            self.samples.push(json!("no sample recorded"));
        }
        cov.insert("samples".into(), J::Array(self.samples.clone()));
        if let Some(e) = self.exhaustive {
            cov.insert("exhaustive".into(), json!(e));
        }
        let sigs: Map<String, J> = self
            .sig_counts
            .iter()
            .map(|(k, v)| (k.clone(), json!(v)))
            .collect();
        cov.insert("violation_signatures".into(), J::Object(sigs));
        cov.insert(
            "known_findings_reported".into(),
            json!(printed_known.iter().cloned().collect::<Vec<_>>()),
        );
        cov.insert("inconclusive_reasons".into(), json!(self.inconclusive));
        for (k, v) in self.extra.iter() {
            cov.insert(k.clone(), v.clone());
        }
        let ev = json!({
            "property_id": self.property,
            "tier": self.args.tier,
            "seed": self.args.seed as i64,
            "level": self.level,
            "coverage": J::Object(cov),
            "assumptions": self.assumptions,
            "wall_s": wall,
            "violations": unlisted as i64,
            "verdict": match exit { 0 => "held-on-observed", 1 => "violated", _ => "inconclusive" },
        });
        let evdir = self.args.verif_dir.join("evidence");
        let _ = std::fs::create_dir_all(&evdir);
        let evpath = evdir.join(format!("{}.json", self.property));
        if self.args.replay.is_none() {
            if let Err(e) = std::fs::write(&evpath, serde_json::to_string_pretty(&ev).unwrap()) {
                println!("INCONCLUSIVE property={} reason=cannot write evidence: {}", self.property, e);
                if exit == 0 {
                    exit = 2;
                }
            }
        }
        println!(
            "{} tier={} seed={} evaluations={} distinct_nontrivial={} unlisted_violations={} known_signatures={} wall_s={:.1} verdict={}",
            self.property,
            self.args.tier,
            self.args.seed,
            self.evaluations,
            nontrivial,
            unlisted,
            printed_known.len(),
            wall,
            match exit { 0 => "held-on-observed", 1 => "VIOLATED", _ => "INCONCLUSIVE" }
        );
        exit
    }
}

/// Per-thread accumulator merged into a `Report` with `Report::merge`.
#[derive(Default)]
pub struct Partial {
    pub evaluations: u64,
    pub nontrivial: BTreeSet<u64>,
    pub samples: Vec<J>,
    pub violations: Vec<(String, String, J)>,
    pub counters: BTreeMap<String, u64>,
    pub inconclusive: Vec<String>,
}

impl Partial {
    pub fn eval(&mut self) {
        self.evaluations += 1;
    }
    pub fn nontrivial<T: Hash>(&mut self, case: &T) {
        self.nontrivial.insert(hash64(case));
    }
    pub fn sample(&mut self, s: J) {
        if self.samples.len() < 3 {
            self.samples.push(s);
        }
    }
    pub fn add(&mut self, k: &str, n: u64) {
        *self.counters.entry(k.to_string()).or_insert(0) += n;
    }
    pub fn violation(&mut self, signature: &str, what: &str, witness: J) {
        let n = self.violations.iter().filter(|v| v.0 == signature).count();
        if n < 3 {
            self.violations.push((signature.to_string(), what.to_string(), witness));
        } else {
            *self.counters.entry(format!("__sig:{}", signature)).or_insert(0) += 1;
        }
    }
    pub fn inconclusive(&mut self, why: &str) {
        if self.inconclusive.len() < 5 {
            self.inconclusive.push(why.to_string());
        }
    }
}

impl Report {
    pub fn merge(&mut self, p: Partial) {
        self.evaluations += p.evaluations;
        for h in p.nontrivial {
            self.nontrivial.insert(h);
        }
        for s in p.samples {
            self.sample(s);
        }
        for (sig, what, w) in p.violations {
            self.violation(&sig, &what, w);
        }
        for (k, n) in p.counters {
            if let Some(sig) = k.strip_prefix("__sig:") {
                *self.sig_counts.entry(sig.to_string()).or_insert(0) += n;
            } else {
                self.add(&k, n);
            }
        }
        for w in p.inconclusive {
            self.inconclusive(&w);
        }
    }
}

/// Run `f` catching panics; returns Err(message) on panic. The default panic
/// hook is silenced while `f` runs (per-thread flag) so expected panics from the
/// code under test do not flood stderr.
pub fn catch<R>(f: impl FnOnce() -> R + std::panic::UnwindSafe) -> Result<R, String> {
    QUIET.with(|q| q.set(q.get() + 1));
    let r = std::panic::catch_unwind(f);
    QUIET.with(|q| q.set(q.get() - 1));
    r.map_err(|e| {
        if let Some(s) = e.downcast_ref::<&str>() {
            s.to_string()
        } else if let Some(s) = e.downcast_ref::<String>() {
            s.clone()
        } else {
            "non-string panic".to_string()
        }
    })
}

thread_local! {
    static QUIET: std::cell::Cell<u32> = const { std::cell::Cell::new(0) };
}

/// Install a panic hook that stays silent inside `catch` and records the
/// location of the last panic (readable through `last_panic_location`).
pub fn install_quiet_panic_hook() {
    let default = std::panic::take_hook();
    std::panic::set_hook(Box::new(move |info| {
        let loc = info
            .location()
            .map(|l| format!("{}:{}", l.file(), l.line()))
            .unwrap_or_default();
        LAST_LOC.with(|l| *l.borrow_mut() = loc);
        if QUIET.with(|q| q.get()) == 0 {
            default(info);
        }
    }));
}

thread_local! {
    static LAST_LOC: std::cell::RefCell<String> = const { std::cell::RefCell::new(String::new()) };
}

pub fn last_panic_location() -> String {
    LAST_LOC.with(|l| l.borrow().clone())
}

/// Strip the path prefix up to `crates/` and the line number, so that a panic
/// site makes a stable signature component.
pub fn panic_site(loc: &str) -> String {
    let s = match loc.find("crates/") {
        Some(i) => &loc[i..],
        None => loc,
    };
    s.to_string()
}

/// Generous wall-clock watchdog: if the process is still alive after `secs`,
/// print INCONCLUSIVE and exit 2 (never a violation).
pub fn watchdog(property: &'static str, secs: u64) {
    std::thread::spawn(move || {
        std::thread::sleep(std::time::Duration::from_secs(secs));
        println!("INCONCLUSIVE property={} reason=watchdog fired after {}s", property, secs);
        std::process::exit(2);
    });
}

/// Split `total` work items over `threads` OS threads; each gets (index, Rng).
pub fn parallel<T: Send + 'static>(
    threads: usize,
    seed: u64,
    f: impl Fn(usize, Rng) -> T + Send + Sync + 'static,
) -> Vec<T> {
    let f = std::sync::Arc::new(f);
    let mut hs = vec![];
    for i in 0..threads {
        let f = f.clone();
        let rng = Rng::new(seed).fork(i as u64 + 1);
        hs.push(
            std::thread::Builder::new()
                .stack_size(64 << 20)
                .spawn(move || f(i, rng))
                .expect("spawn"),
        );
    }
    hs.into_iter().map(|h| h.join().expect("worker thread panicked")).collect()
}

pub fn ncpu() -> usize {
    std::thread::available_parallelism().map(|n| n.get()).unwrap_or(4).min(16)
}
