//! Shared driver for C26/C27: generate multi-context programs, run them on the real
//! ContextOrchestrator (OS threads) under hook H7 (trace + seeded perturbation), collect the
//! trace and the outputs.
#![allow(dead_code)]
use serde_json::{json, Value as J};
use std::sync::Arc;
use std::time::{Duration, Instant};
use tokio::sync::mpsc;
use varpulis_core::Value;
use varpulis_runtime::context::ContextOrchestrator;
use varpulis_runtime::engine::Engine;
use varpulis_runtime::event::Event;
use vh::eng::*;
use vh::Rng;

#[derive(Clone, Debug, Hash, PartialEq, Eq)]
pub struct CStream {
    pub name: String,
    pub src: String,
    pub ctx: usize,
    pub min_x: Option<i64>,
    /// Some(n): count window of n with uid fingerprints instead of a pass-through
    pub window: Option<usize>,
    /// target context of the emit (None = plain emit)
    pub emit_to: Option<usize>,
    /// plain emit although the consumer lives in another context: the event has to reach it
    /// through the orchestrator's routing table (consumer's source names this stream)
    pub implicit: bool,
    /// consumer form `SRC as a -> SRC as b` (aliased pattern source) instead of a bare source
    pub seq: bool,
}

#[derive(Clone, Debug, Hash, PartialEq, Eq)]
pub struct CProg {
    pub nctx: usize,
    pub streams: Vec<CStream>,
}

impl CProg {
    pub fn vpl(&self, with_contexts: bool) -> String {
        let mut s = String::new();
        if with_contexts {
            for c in 0..self.nctx {
                s.push_str(&format!("context c{}\n", c));
            }
            s.push('\n');
        }
        for st in &self.streams {
            if st.seq {
                s.push_str(&format!("stream {} = {} as a -> {} as b\n", st.name, st.src, st.src));
            } else {
                s.push_str(&format!("stream {} = {}\n", st.name, st.src));
            }
            if with_contexts {
                s.push_str(&format!("    .context(c{})\n", st.ctx));
            }
            if st.seq {
                s.push_str("    .emit(u0: a.uid, u1: b.uid)\n\n");
                continue;
            }
            if let Some(c) = st.min_x {
                s.push_str(&format!("    .where(x >= {})\n", c));
            }
            let tgt = match (with_contexts, st.emit_to) {
                // a consumer in the producer's own context is fed by a plain emit
                (true, Some(t)) if t != st.ctx && !st.implicit => format!("context: c{}, ", t),
                _ => String::new(),
            };
            match st.window {
                Some(n) => {
                    s.push_str(&format!("    .window({})\n    .aggregate(n: count(), s: sum(uid), f: first(uid), l: last(uid))\n", n));
                    s.push_str(&format!("    .emit({}n: n, s: s, f: f, l: l)\n", tgt));
                }
                None => s.push_str(&format!("    .emit({}uid: uid, x: x)\n", tgt)),
            }
            s.push('\n');
        }
        s
    }
    pub fn json(&self) -> J {
        json!({"vpl": self.vpl(true)})
    }
    /// every stream has a single upstream producer (true for this grammar: one source each)
    pub fn cross_edges(&self) -> Vec<(String, usize, usize)> {
        // (producer stream name, producer ctx, consumer ctx) for derived streams in another context
        let mut v = vec![];
        for st in &self.streams {
            if let Some(p) = self.streams.iter().find(|p| p.name == st.src) {
                if p.ctx != st.ctx {
                    v.push((p.name.clone(), p.ctx, st.ctx));
                }
            }
        }
        v
    }
}

/// Chains across 2-3 contexts using the documented cross-context form
/// (`.context(a)` .. `.emit(context: b, ..)` feeding a derived stream in `b`).
pub fn gen_cprog(rng: &mut Rng) -> CProg {
    let nctx = 2 + rng.below(2);
    let mut streams: Vec<CStream> = vec![];
    let nchains = 1 + rng.below(2);
    let mut idx = 0;
    for ch in 0..nchains {
        let base = ["A", "B"][ch % 2];
        let len = 2 + rng.below(2); // streams in this chain
        let mut prev_name = base.to_string();
        let mut ctx = rng.below(nctx);
        for j in 0..len {
            idx += 1;
            let name = format!("S{}", idx);
            let last = j == len - 1;
            let next_ctx = if last { None } else if rng.chance(1, 4) { Some(ctx) } else { Some((ctx + 1 + rng.below(nctx - 1)) % nctx) };
            let window = if last && rng.chance(1, 2) { Some(2 + rng.below(3)) } else { None };
            // a derived last stream may read its producer through an aliased pattern source
            let seq = last && j > 0 && window.is_none() && rng.chance(1, 2);
            streams.push(CStream {
                name: name.clone(),
                src: prev_name.clone(),
                ctx,
                min_x: if rng.chance(1, 2) { Some(rng.range(0, 2)) } else { None },
                window,
                emit_to: next_ctx,
                implicit: rng.chance(1, 3),
                seq,
            });
            prev_name = name;
            if let Some(n) = next_ctx {
                ctx = n;
            }
        }
    }
    CProg { nctx, streams }
}

pub fn gen_events(rng: &mut Rng, n: usize) -> Vec<Event> {
    (0..n)
        .map(|i| ev(["A", "B"][rng.below(2)], ts_ms(i as i64), &[("uid", Value::Int(i as i64 + 1)), ("x", Value::Int(rng.range(0, 3)))]))
        .collect()
}

pub struct RunOut {
    pub outputs: Vec<Event>,
    pub trace: Vec<varpulis_runtime::verif::CtxEntry>,
    pub completed_checkpoints: Vec<u64>,
    /// checkpoints found in the store after the run: id -> context -> events_processed of that context's snapshot
    pub stored: std::collections::BTreeMap<u64, std::collections::BTreeMap<String, u64>>,
    pub quiesced: bool,
    pub build_error: Option<String>,
}

pub struct RunCfg {
    pub capacity: usize,
    pub perturb_permille: u64,
    pub perturb_max_us: u64,
    pub seed: u64,
    /// trigger a coordinated checkpoint after these input indices (C27)
    pub checkpoints_at: Vec<usize>,
    /// the run counts as quiescent when the trace has not grown for this long
    pub stable_ms: u64,
    /// acknowledgements are drained (try_complete_checkpoint) right after a trigger and otherwise
    /// only at every n-th input, like a periodic `checkpoint_tick` (1 = after every input)
    pub drain_every: usize,
}

/// H7 state is process-global: callers serialise runs with this lock.
pub static RUN_LOCK: std::sync::Mutex<()> = std::sync::Mutex::new(());

pub fn run_contexts(p: &CProg, events: &[Event], cfg: &RunCfg) -> RunOut {
    let _g = RUN_LOCK.lock().unwrap_or_else(|e| e.into_inner());
    let src = p.vpl(true);
    let program = match varpulis_parser::parse(&src) {
        Ok(p) => p,
        Err(e) => return RunOut { outputs: vec![], trace: vec![], completed_checkpoints: vec![], stored: Default::default(), quiesced: true, build_error: Some(format!("parse: {}", e)) },
    };
    let (tmp_tx, _tmp_rx) = mpsc::channel::<Event>(16);
    let mut tmp_engine = Engine::new(tmp_tx);
    if let Err(e) = tmp_engine.load(&program) {
        return RunOut { outputs: vec![], trace: vec![], completed_checkpoints: vec![], stored: Default::default(), quiesced: true, build_error: Some(format!("load: {}", e)) };
    }
    let (out_tx, mut out_rx) = mpsc::channel::<Event>(200_000);
    varpulis_runtime::verif::ctx_trace_start(cfg.perturb_permille, cfg.perturb_max_us, cfg.seed);
    let store: Arc<dyn varpulis_runtime::persistence::StateStore> = Arc::new(varpulis_runtime::persistence::MemoryStore::new());
    let ckcfg = varpulis_runtime::persistence::CheckpointConfig { interval: Duration::from_secs(3600), max_checkpoints: 50, checkpoint_on_shutdown: false, key_prefix: "c27".into() };
    let store_view = store.clone();
    let orch = if cfg.checkpoints_at.is_empty() {
        ContextOrchestrator::build(tmp_engine.context_map(), &program, out_tx, cfg.capacity)
    } else {
        ContextOrchestrator::build_with_checkpoint(tmp_engine.context_map(), &program, out_tx, cfg.capacity, Some((ckcfg, store)), None)
    };
    let mut orch = match orch {
        Ok(o) => o,
        Err(e) => {
            let _ = varpulis_runtime::verif::ctx_trace_take();
            return RunOut { outputs: vec![], trace: vec![], completed_checkpoints: vec![], stored: Default::default(), quiesced: true, build_error: Some(format!("build: {}", e)) };
        }
    };
    let rt = rt();
    let mut completed = vec![];
    let mut triggered = 0u64;
    for (i, e) in events.iter().enumerate() {
        let _ = rt.block_on(async { tokio::time::timeout(Duration::from_secs(5), orch.process(Arc::new(e.clone()))).await });
        if cfg.checkpoints_at.contains(&i) {
            orch.trigger_checkpoint();
            triggered += 1;
        }
        if triggered > completed.len() as u64 && (cfg.checkpoints_at.contains(&i) || i % cfg.drain_every.max(1) == 0) {
            if let Ok(true) = orch.try_complete_checkpoint() {
                completed.push(completed.len() as u64 + 1);
            }
        }
    }
    // every input whose type some stream consumes is routed to exactly one context and logged there by H7 ("recv")
    let must_receive = events.iter().filter(|e| p.streams.iter().any(|st| st.src.as_str() == &*e.event_type)).count();
    // quiescence: the trace stops growing (generous, bounded; a firing bound is inconclusive, never a violation)
    let mut outputs = vec![];
    let start = Instant::now();
    let mut last_len = usize::MAX;
    let mut stable_since = Instant::now();
    let mut quiesced = false;
    while start.elapsed() < Duration::from_millis(20_000 + 4 * cfg.stable_ms) {
        while let Ok(o) = out_rx.try_recv() {
            outputs.push(o);
        }
        if triggered > completed.len() as u64 {
            if let Ok(true) = orch.try_complete_checkpoint() {
                completed.push(completed.len() as u64 + 1);
            }
        }
        let len = trace_len();
        if len < must_receive {
            // not every dispatched input has been taken from its context's queue yet: a quiet trace only
            // means that the context threads are not being scheduled
            last_len = len;
            stable_since = Instant::now();
        } else if len != last_len {
            last_len = len;
            stable_since = Instant::now();
        } else if stable_since.elapsed() > Duration::from_millis(cfg.stable_ms) {
            quiesced = true;
            break;
        }
        std::thread::sleep(Duration::from_millis(2));
    }
    while let Ok(o) = out_rx.try_recv() {
        outputs.push(o);
    }
    let trace = varpulis_runtime::verif::ctx_trace_take();
    orch.shutdown();
    let mut stored = std::collections::BTreeMap::new();
    if let Ok(ids) = store_view.list_checkpoints() {
        for id in ids {
            if let Ok(Some(cp)) = store_view.load_checkpoint(id) {
                stored.insert(id, cp.context_states.iter().map(|(k, v)| (k.clone(), v.events_processed)).collect());
            }
        }
    }
    RunOut { outputs, trace, completed_checkpoints: completed, stored, quiesced, build_error: None }
}

fn trace_len() -> usize {
    // ctx_trace_take would stop recording; peek by taking and restoring is not offered, so the
    // harness keeps its own counter of the last seen seq through a cheap re-read:
    varpulis_runtime::verif::ctx_trace_len()
}

/// The same program without contexts, on the plain engine (reference for the output clause).
pub fn run_plain(p: &CProg, events: &[Event]) -> Result<Vec<Event>, String> {
    let rt = rt();
    run_flat(&rt, &p.vpl(false), events)
}

pub fn canon(e: &Event) -> String {
    let mut m: std::collections::BTreeMap<String, J> = std::collections::BTreeMap::new();
    for (k, v) in e.data.iter() {
        m.insert(k.to_string(), val_json(v));
    }
    format!("{}:{}", e.event_type, serde_json::to_string(&m).unwrap())
}
