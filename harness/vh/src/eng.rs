//! Helpers to drive the real engine: parse -> load -> process, collecting outputs.
use chrono::{DateTime, TimeZone, Utc};
use serde_json::{json, Value as J};
use std::sync::Arc;
use tokio::sync::mpsc;
use varpulis_core::Value;
use varpulis_runtime::engine::Engine;
use varpulis_runtime::event::Event;

pub fn rt() -> tokio::runtime::Runtime {
    tokio::runtime::Builder::new_current_thread()
        .enable_all()
        .build()
        .expect("tokio runtime")
}

/// Base instant for generated timestamps (2024-01-01T00:00:00Z) + ms offset.
pub fn ts_ms(ms: i64) -> DateTime<Utc> {
    Utc.timestamp_millis_opt(1_704_067_200_000 + ms).single().expect("ts")
}

pub fn ts_ns(ns: i64) -> DateTime<Utc> {
    Utc.timestamp_nanos(1_704_067_200_000_000_000 + ns)
}

/// Build an event with explicit timestamp and fields.
pub fn ev(ty: &str, ts: DateTime<Utc>, fields: &[(&str, Value)]) -> Event {
    let mut e = Event::new_at(ty, ts);
    for (k, v) in fields {
        e.data.insert((*k).into(), v.clone());
    }
    e
}

pub fn val_json(v: &Value) -> J {
    match v {
        Value::Null => J::Null,
        Value::Bool(b) => json!(b),
        Value::Int(i) => json!(i),
        Value::Float(f) => {
            if f.is_finite() { json!(f) } else { json!(format!("{}", f)) }
        }
        Value::Str(s) => json!(s.to_string()),
        other => json!(format!("{:?}", other)),
    }
}

pub fn event_json(e: &Event) -> J {
    let mut m = serde_json::Map::new();
    for (k, v) in e.data.iter() {
        m.insert(k.to_string(), val_json(v));
    }
    json!({"type": e.event_type.to_string(), "ts_ms": e.timestamp.timestamp_millis() - 1_704_067_200_000, "data": J::Object(m)})
}

pub fn events_json(es: &[Event]) -> J {
    J::Array(es.iter().map(event_json).collect())
}

pub struct Loaded {
    pub engine: Engine,
    pub rx: mpsc::Receiver<Event>,
}

pub fn load(src: &str) -> Result<Loaded, String> {
    let program = varpulis_parser::parse(src).map_err(|e| format!("parse: {}", e))?;
    let (tx, rx) = mpsc::channel::<Event>(100_000);
    let mut engine = Engine::new(tx);
    engine.load(&program).map_err(|e| format!("load: {}", e))?;
    Ok(Loaded { engine, rx })
}

impl Loaded {
    pub fn drain(&mut self) -> Vec<Event> {
        let mut out = vec![];
        while let Ok(e) = self.rx.try_recv() {
            out.push(e);
        }
        out
    }
}

/// Run `src` over `events` one by one through `Engine::process`; returns, per input
/// event index, the outputs emitted while processing it.
pub fn run_per_event(rt: &tokio::runtime::Runtime, src: &str, events: &[Event]) -> Result<Vec<Vec<Event>>, String> {
    let mut l = load(src)?;
    let mut outs = Vec::with_capacity(events.len());
    for e in events {
        rt.block_on(l.engine.process(e.clone())).map_err(|e| format!("process: {}", e))?;
        outs.push(l.drain());
    }
    Ok(outs)
}

pub fn run_flat(rt: &tokio::runtime::Runtime, src: &str, events: &[Event]) -> Result<Vec<Event>, String> {
    Ok(run_per_event(rt, src, events)?.into_iter().flatten().collect())
}

pub fn get_i(e: &Event, k: &str) -> Option<i64> {
    match e.data.get(k) {
        Some(Value::Int(i)) => Some(*i),
        Some(Value::Float(f)) if f.fract() == 0.0 => Some(*f as i64),
        _ => None,
    }
}

pub fn shared(e: &Event) -> Arc<Event> {
    Arc::new(e.clone())
}
