//! Program / input generator for the state-continuity checks C19 (checkpoint + restore) and C23
//! (hot reload). Extended copy of proggen.rs: every window kind (plain, partitioned, with a
//! filter before and after the window, with declared watermarks), 2-3 step sequences incl. `all`
//! (last / middle, constant, earlier-alias and self-referencing filters), `.not`, named SASE
//! patterns (SEQ with NOT, AND), joins, distinct, limit, merge sources, derived chains;
//! timestamps with sub-millisecond components; input steps that are events, external watermark
//! advances or variable assignments.
#![allow(dead_code)]
use serde_json::{json, Value as J};
use varpulis_core::Value;
use varpulis_runtime::event::Event;
use vh::eng::*;
use vh::Rng;

pub const BASE_TYPES: [&str; 4] = ["A", "B", "C", "N"];

#[derive(Clone, Debug, PartialEq, Eq, Hash)]
pub enum WK {
    Count(usize),
    SlidingCount(usize, usize),
    Tumbling(i64),
    Sliding(i64, i64),
    Session(i64),
}

impl WK {
    pub fn spec(&self) -> String {
        match self {
            WK::Count(n) => format!("{}", n),
            WK::SlidingCount(n, s) => format!("{}, sliding: {}", n, s),
            WK::Tumbling(ms) => format!("{}ms", ms),
            WK::Sliding(ms, s) => format!("{}ms, sliding: {}ms", ms, s),
            WK::Session(ms) => format!("session: {}ms", ms),
        }
    }
    pub fn name(&self) -> &'static str {
        match self {
            WK::Count(_) => "count",
            WK::SlidingCount(..) => "sliding-count",
            WK::Tumbling(_) => "tumbling",
            WK::Sliding(..) => "sliding",
            WK::Session(_) => "session",
        }
    }
    pub fn is_time(&self) -> bool {
        matches!(self, WK::Tumbling(_) | WK::Sliding(..) | WK::Session(_))
    }
}

#[derive(Clone, Debug, PartialEq, Eq, Hash)]
pub enum SFilt {
    /// `x CMP c`
    Const(&'static str, i64),
    /// `x CMP s0.x`
    RefFirst(&'static str),
    /// `x CMP <own alias>.x` (only meaningful on an `all` step: postponed predicate)
    SelfRef(&'static str),
}

#[derive(Clone, Debug, PartialEq, Eq, Hash)]
pub struct SeqStep {
    pub ty: String,
    pub all: bool,
    pub filt: Option<SFilt>,
}

#[derive(Clone, Debug, PartialEq, Eq, Hash)]
pub enum Kind {
    /// `Src [.where(x >= c)] [.emit(uid: uid, x: x, k: k)]`
    Filter { src: String, min_x: Option<i64>, emit: bool },
    /// `merge(stream L = A .where(x >= c), B)`
    Merge { left: String, left_min_x: Option<i64>, right: String, emit: bool },
    /// `Src [.watermark(..)] [.allowed_lateness(..)] [.where(x >= c)] [.partition_by(k)] .window(spec) .aggregate(..) [.where(n >= h)] .emit(..)`
    Window { src: String, wk: WK, partitioned: bool, pre_min_x: Option<i64>, post_min_n: Option<i64>, watermark: Option<(i64, Option<i64>)> },
    /// `T0 as s0 -> [all] T1 [where ..] as s1 [-> ..] [.partition_by(k)] [.not(N [where x CMP s0.x])] .emit(u0: s0.uid, ..)`
    Seq { steps: Vec<SeqStep>, partitioned: bool, not: Option<Option<&'static str>> },
    /// `pattern P<name> = <expr>` + `stream <name> = P<name> .emit(..)`; `shape` is a finite label
    Pattern { expr: String, aliases: Vec<String>, shape: &'static str },
    /// `join(L, R).on(L.k == R.k).window(Nms).emit(l: L.uid, r: R.uid)`
    Join { left: String, right: String, window_ms: i64 },
    Distinct { src: String },
    Limit { src: String, n: usize },
    /// `fn sh<name>(v: int) -> int: v + add` + `Src .where(sh<name>(x) >= min) .emit(uid: uid, x: x, k: k)`
    FnFilter { src: String, add: i64, min: i64 },
}

#[derive(Clone, Debug, PartialEq, Eq, Hash)]
pub struct StreamDef {
    pub name: String,
    pub kind: Kind,
}

#[derive(Clone, Debug, PartialEq, Eq, Hash)]
pub struct Prog {
    pub streams: Vec<StreamDef>,
}

fn sfilt_txt(f: &SFilt, own_alias: &str) -> String {
    match f {
        SFilt::Const(c, v) => format!(" where x {} {}", c, v),
        SFilt::RefFirst(c) => format!(" where x {} s0.x", c),
        SFilt::SelfRef(c) => format!(" where x {} {}.x", c, own_alias),
    }
}

impl StreamDef {
    /// Declarations that must precede the stream (named patterns).
    pub fn decl(&self) -> Option<String> {
        match &self.kind {
            Kind::Pattern { expr, .. } => Some(format!("pattern P{} = {}\n", self.name, expr)),
            Kind::FnFilter { add, .. } => Some(format!("fn sh{}(v: int) -> int:\n    v + {}\n", self.name, add)),
            _ => None,
        }
    }
    pub fn vpl(&self) -> String {
        let n = &self.name;
        match &self.kind {
            Kind::Filter { src, min_x, emit } => {
                let mut s = format!("stream {} = {}\n", n, src);
                if let Some(c) = min_x {
                    s.push_str(&format!("    .where(x >= {})\n", c));
                }
                if *emit {
                    s.push_str("    .emit(uid: uid, x: x, k: k)\n");
                }
                s
            }
            Kind::Merge { left, left_min_x, right, emit } => {
                let l = match left_min_x {
                    Some(c) => format!("stream {}L = {} .where(x >= {})", n, left, c),
                    None => left.clone(),
                };
                let mut s = format!("stream {} = merge({}, {})\n", n, l, right);
                if *emit {
                    s.push_str("    .emit(uid: uid, x: x, k: k)\n");
                }
                s
            }
            Kind::Window { src, wk, partitioned, pre_min_x, post_min_n, watermark } => {
                let mut s = format!("stream {} = {}\n", n, src);
                if let Some((ooo, late)) = watermark {
                    s.push_str(&format!("    .watermark(out_of_order: {}ms)\n", ooo));
                    if let Some(l) = late {
                        s.push_str(&format!("    .allowed_lateness({}ms)\n", l));
                    }
                }
                if let Some(c) = pre_min_x {
                    s.push_str(&format!("    .where(x >= {})\n", c));
                }
                if *partitioned {
                    s.push_str("    .partition_by(k)\n");
                }
                s.push_str(&format!("    .window({})\n", wk.spec()));
                s.push_str("    .aggregate(n: count(), s: sum(uid), f: first(uid), l: last(uid))\n");
                if let Some(h) = post_min_n {
                    s.push_str(&format!("    .where(n >= {})\n", h));
                }
                s.push_str("    .emit(n: n, s: s, f: f, l: l)\n");
                s
            }
            Kind::Seq { steps, partitioned, not } => {
                let mut s = String::new();
                for (i, st) in steps.iter().enumerate() {
                    let al = format!("s{}", i);
                    if i == 0 {
                        s.push_str(&format!("stream {} = {} as {}", n, st.ty, al));
                    } else {
                        let f = st.filt.as_ref().map(|f| sfilt_txt(f, &al)).unwrap_or_default();
                        s.push_str(&format!("\n    -> {}{}{} as {}", if st.all { "all " } else { "" }, st.ty, f, al));
                    }
                }
                s.push('\n');
                if *partitioned {
                    s.push_str("    .partition_by(k)\n");
                }
                if let Some(nf) = not {
                    match nf {
                        Some(c) => s.push_str(&format!("    .not(N where x {} s0.x)\n", c)),
                        None => s.push_str("    .not(N)\n"),
                    }
                }
                let fields: Vec<String> = (0..steps.len()).map(|i| format!("u{}: s{}.uid", i, i)).collect();
                s.push_str(&format!("    .emit({})\n", fields.join(", ")));
                s
            }
            Kind::Pattern { aliases, .. } => {
                let fields: Vec<String> = aliases.iter().enumerate().map(|(i, a)| format!("u{}: {}.uid", i, a)).collect();
                format!("stream {} = P{}\n    .emit({})\n", n, n, fields.join(", "))
            }
            Kind::Join { left, right, window_ms } => format!(
                "stream {} = join({}, {})\n    .on({}.k == {}.k)\n    .window({}ms)\n    .emit(l: {}.uid, r: {}.uid)\n",
                n, left, right, left, right, window_ms, left, right
            ),
            Kind::Distinct { src } => format!("stream {} = {}\n    .distinct(x)\n    .emit(uid: uid, x: x, k: k)\n", n, src),
            Kind::Limit { src, n: lim } => format!("stream {} = {}\n    .limit({})\n    .emit(uid: uid, x: x, k: k)\n", n, src, lim),
            Kind::FnFilter { src, min, .. } => format!("stream {} = {}\n    .where(sh{}(x) >= {})\n    .emit(uid: uid, x: x, k: k)\n", n, src, n, min),
        }
    }
    /// Finite label of the stream's operator family (signature component).
    pub fn kind_name(&self) -> String {
        match &self.kind {
            Kind::Filter { emit: true, .. } => "filter-emit".into(),
            Kind::Filter { emit: false, .. } => "filter-noemit".into(),
            Kind::Merge { .. } => "merge".into(),
            Kind::Window { wk, partitioned, watermark, .. } => {
                format!("window-{}{}{}", wk.name(), if *partitioned { "-partitioned" } else { "" }, if watermark.is_some() { "-watermark" } else { "" })
            }
            Kind::Seq { steps, not, .. } => {
                let n = steps.len();
                let base = match steps.iter().position(|s| s.all) {
                    None => "sequence".to_string(),
                    Some(i) => {
                        let pos = if i + 1 == n { "last" } else { "middle" };
                        let f = match &steps[i].filt {
                            Some(SFilt::SelfRef(_)) => "-selfref",
                            _ => "",
                        };
                        format!("sequence-all-{}{}", pos, f)
                    }
                };
                let _ = not; // `.not` is engine configuration, not run state: no label of its own
                base
            }
            Kind::Pattern { shape, .. } => format!("pattern-{}", shape),
            Kind::Join { .. } => "join".into(),
            Kind::Distinct { .. } => "distinct".into(),
            Kind::Limit { .. } => "limit".into(),
            Kind::FnFilter { .. } => "fn-filter".into(),
        }
    }
    pub fn is_stateful(&self) -> bool {
        !matches!(&self.kind, Kind::Filter { .. } | Kind::Merge { .. } | Kind::FnFilter { .. })
    }
    /// Output events keep uid/x/k (so they can feed another pass-through stream)?
    pub fn passes_fields(&self) -> bool {
        matches!(&self.kind, Kind::Filter { .. } | Kind::Merge { .. } | Kind::Distinct { .. } | Kind::Limit { .. } | Kind::FnFilter { .. })
    }
    /// Stream / event-type names this definition refers to.
    pub fn refs_mut(&mut self) -> Vec<&mut String> {
        match &mut self.kind {
            Kind::Filter { src, .. } | Kind::Window { src, .. } | Kind::Distinct { src } | Kind::Limit { src, .. } | Kind::FnFilter { src, .. } => vec![src],
            Kind::Merge { left, right, .. } | Kind::Join { left, right, .. } => vec![left, right],
            Kind::Seq { steps, .. } => steps.iter_mut().map(|s| &mut s.ty).collect(),
            Kind::Pattern { .. } => vec![],
        }
    }
}

impl Prog {
    pub fn vpl(&self) -> String {
        let mut out: Vec<String> = self.streams.iter().filter_map(|s| s.decl()).collect();
        out.extend(self.streams.iter().map(|s| s.vpl()));
        out.join("\n")
    }
    pub fn kinds(&self) -> Vec<String> {
        self.streams.iter().map(|s| s.kind_name()).collect()
    }
    pub fn json(&self) -> J {
        json!({"vpl": self.vpl(), "kinds": self.kinds()})
    }
    pub fn stream(&self, name: &str) -> Option<&StreamDef> {
        self.streams.iter().find(|s| s.name == name)
    }
}

pub struct POpts {
    pub max_streams: usize,
    /// declared watermarks on window streams
    pub watermarks: bool,
    /// named SASE patterns (SEQ with NOT, AND)
    pub patterns: bool,
    pub merges: bool,
    /// filters that call a user function
    pub functions: bool,
}

const CMPS: [&str; 4] = [">=", ">", "<=", "=="];

pub fn gen_wk(rng: &mut Rng) -> WK {
    match rng.below(5) {
        0 => WK::Count(1 + rng.below(4)),
        1 => {
            let n = 2 + rng.below(3);
            WK::SlidingCount(n, 1 + rng.below(3))
        }
        2 => WK::Tumbling(2 + rng.below(5) as i64),
        3 => {
            let size = 3 + rng.below(5) as i64;
            WK::Sliding(size, 1 + rng.below(size as usize - 1) as i64)
        }
        _ => WK::Session(1 + rng.below(4) as i64),
    }
}

fn seq_type(rng: &mut Rng, srcs: &[String]) -> String {
    // mostly base types A/B/C, sometimes a derived pass-through stream
    if srcs.len() > 4 && rng.chance(1, 4) {
        srcs[4 + rng.below(srcs.len() - 4)].clone()
    } else {
        BASE_TYPES[rng.below(3)].to_string()
    }
}

pub fn gen_seq(rng: &mut Rng, srcs: &[String]) -> Kind {
    let n = if rng.chance(2, 5) { 3 } else { 2 };
    let all_at = if rng.chance(1, 2) { Some(1 + rng.below(n - 1)) } else { None };
    let mut steps = vec![];
    for i in 0..n {
        let all = all_at == Some(i);
        let filt = if i == 0 {
            None
        } else if all && rng.chance(1, 2) {
            Some(SFilt::SelfRef(*rng.pick(&CMPS)))
        } else if rng.chance(3, 5) {
            if rng.chance(1, 2) { Some(SFilt::RefFirst(*rng.pick(&CMPS))) } else { Some(SFilt::Const(*rng.pick(&CMPS), rng.range(0, 3))) }
        } else {
            None
        };
        steps.push(SeqStep { ty: seq_type(rng, srcs), all, filt });
    }
    let not = if rng.chance(1, 4) { Some(if rng.chance(1, 2) { Some(*rng.pick(&CMPS)) } else { None }) } else { None };
    Kind::Seq { steps, partitioned: rng.chance(1, 3), not }
}

pub fn gen_pattern(rng: &mut Rng) -> Kind {
    // (SEQ with NOT completes only through a wall-clock deadline: kept rare, it never emits here)
    match rng.below(9) / 2 {
        4 => Kind::Pattern { expr: "SEQ(A as a, NOT N, B as b)".into(), aliases: vec!["a".into(), "b".into()], shape: "seq-not" },
        1 => Kind::Pattern { expr: "A as a AND B as b".into(), aliases: vec!["a".into(), "b".into()], shape: "and" },
        2 => Kind::Pattern { expr: "SEQ(C as c, A as a) AND B as b".into(), aliases: vec!["c".into(), "a".into(), "b".into()], shape: "and" },
        3 => Kind::Pattern { expr: "SEQ(A as a, B+ as b, C as c)".into(), aliases: vec!["a".into(), "b".into(), "c".into()], shape: "seq-kleene" },
        0 => Kind::Pattern { expr: "SEQ(A as a, B as b, C as c)".into(), aliases: vec!["a".into(), "b".into(), "c".into()], shape: "seq" },
        _ => unreachable!(),
    }
}

pub fn gen_prog(rng: &mut Rng, o: &POpts) -> Prog {
    let n = 1 + rng.below(o.max_streams);
    let mut streams: Vec<StreamDef> = vec![];
    for i in 0..n {
        let name = format!("S{}", i + 1);
        // candidate sources: base types + earlier streams that pass uid/x/k through
        let mut srcs: Vec<String> = BASE_TYPES.iter().map(|s| s.to_string()).collect();
        for s in &streams {
            if s.passes_fields() {
                srcs.push(s.name.clone());
            }
        }
        let pick_src = |rng: &mut Rng| -> String {
            if srcs.len() > 4 && rng.chance(1, 2) {
                srcs[4 + rng.below(srcs.len() - 4)].clone()
            } else {
                BASE_TYPES[rng.below(2)].to_string()
            }
        };
        let src = pick_src(rng);
        let r = rng.below(100);
        let kind = if r < 30 {
            let wk = gen_wk(rng);
            let watermark = if o.watermarks && wk.is_time() && BASE_TYPES.contains(&src.as_str()) && rng.chance(1, 2) {
                Some((rng.range(0, 3), if rng.chance(2, 3) { Some(rng.range(0, 2)) } else { None }))
            } else {
                None
            };
            Kind::Window {
                src,
                wk,
                partitioned: rng.chance(2, 5),
                pre_min_x: if rng.chance(1, 4) { Some(rng.range(1, 2)) } else { None },
                post_min_n: if rng.chance(1, 4) { Some(rng.range(1, 3)) } else { None },
                watermark,
            }
        } else if r < 52 {
            gen_seq(rng, &srcs)
        } else if o.patterns && r < 60 {
            gen_pattern(rng)
        } else if r < 72 {
            let left = pick_src(rng);
            let mut right = pick_src(rng);
            if right == left {
                right = srcs.iter().find(|s| **s != left).cloned().unwrap_or(right);
            }
            Kind::Join { left, right, window_ms: 2 + rng.below(6) as i64 }
        } else if r < 84 {
            if rng.chance(1, 2) { Kind::Distinct { src } } else { Kind::Limit { src, n: 1 + rng.below(5) } }
        } else if o.merges && r < 89 {
            let left = pick_src(rng);
            let mut right = pick_src(rng);
            if right == left {
                right = srcs.iter().find(|s| **s != left).cloned().unwrap_or(right);
            }
            Kind::Merge { left, left_min_x: if rng.chance(1, 2) { Some(rng.range(0, 3)) } else { None }, right, emit: rng.chance(2, 3) }
        } else if o.functions && r < 94 {
            Kind::FnFilter { src, add: rng.range(0, 2), min: rng.range(1, 4) }
        } else {
            Kind::Filter { src, min_x: if rng.chance(2, 3) { Some(rng.range(0, 3)) } else { None }, emit: rng.chance(2, 3) }
        };
        streams.push(StreamDef { name, kind });
    }
    Prog { streams }
}

// ---------------------------------------------------------------------------------------------
// Inputs
// ---------------------------------------------------------------------------------------------

#[derive(Clone, Debug, PartialEq, Eq, Hash)]
pub struct In {
    pub uid: i64,
    pub ty: String,
    pub x: i64,
    pub k: i64,
    /// microseconds after the base instant
    pub ts_us: i64,
}

impl In {
    pub fn event(&self) -> Event {
        ev(&self.ty, ts_ns(self.ts_us * 1000), &[("uid", Value::Int(self.uid)), ("x", Value::Int(self.x)), ("k", Value::Int(self.k))])
    }
}

#[derive(Clone, Debug, PartialEq, Eq, Hash)]
pub enum Step {
    Ev(In),
    /// `Engine::advance_external_watermark(source, base + ms)`
    Wm { source: String, ms: i64 },
    /// `Engine::set_variable(name, Int(value))`
    Var { name: String, value: i64 },
}

impl Step {
    pub fn json(&self) -> J {
        match self {
            Step::Ev(i) => json!({"ev": {"uid": i.uid, "type": i.ty, "x": i.x, "k": i.k, "ts_us": i.ts_us}}),
            Step::Wm { source, ms } => json!({"wm": {"source": source, "ms": ms}}),
            Step::Var { name, value } => json!({"var": {"name": name, "value": value}}),
        }
    }
    pub fn from_json(j: &J) -> Option<Step> {
        if let Some(e) = j.get("ev") {
            return Some(Step::Ev(In {
                uid: e.get("uid")?.as_i64()?,
                ty: e.get("type")?.as_str()?.to_string(),
                x: e.get("x")?.as_i64()?,
                k: e.get("k")?.as_i64()?,
                ts_us: e.get("ts_us")?.as_i64()?,
            }));
        }
        if let Some(w) = j.get("wm") {
            return Some(Step::Wm { source: w.get("source")?.as_str()?.to_string(), ms: w.get("ms")?.as_i64()? });
        }
        if let Some(v) = j.get("var") {
            return Some(Step::Var { name: v.get("name")?.as_str()?.to_string(), value: v.get("value")?.as_i64()? });
        }
        None
    }
    /// The same step with the timestamp floored to whole milliseconds.
    pub fn floor_ms(&self) -> Step {
        match self {
            Step::Ev(i) => Step::Ev(In { ts_us: i.ts_us.div_euclid(1000) * 1000, ..i.clone() }),
            o => o.clone(),
        }
    }
    pub fn has_submillis(&self) -> bool {
        matches!(self, Step::Ev(i) if i.ts_us.rem_euclid(1000) != 0)
    }
}

pub struct IOpts {
    pub submillis: bool,
    /// probability (percent) that an event is older than its predecessor
    pub out_of_order_pct: u32,
    /// watermark sources to advance now and then (empty: no Wm steps)
    pub wm_sources: Vec<String>,
    pub vars: bool,
    /// events of this type run behind the others by this many milliseconds (a lagging source)
    pub lag: Option<(String, i64)>,
}

pub fn gen_steps(rng: &mut Rng, len: usize, o: &IOpts) -> Vec<Step> {
    let mut ts = 0i64; // us
    let mut max_ts = 0i64;
    let mut out = vec![];
    let mut uid = 0;
    while out.len() < len {
        if !o.wm_sources.is_empty() && rng.chance(1, 5) {
            let src = rng.pick(&o.wm_sources).clone();
            // around the largest timestamp seen
            let ms = (max_ts / 1000 + rng.range(-3, 2)).max(0);
            out.push(Step::Wm { source: src, ms });
            continue;
        }
        if o.vars && rng.chance(1, 8) {
            out.push(Step::Var { name: format!("v{}", rng.below(2)), value: rng.range(0, 9) });
            continue;
        }
        if o.submillis {
            ts += rng.range(0, 10) * 250;
        } else {
            ts += rng.range(0, 3) * 1000;
        }
        let mut t = ts;
        if o.out_of_order_pct > 0 && rng.chance(o.out_of_order_pct, 100) {
            t = (ts - rng.range(1, 5) * 1000).max(0);
        }
        max_ts = max_ts.max(t);
        uid += 1;
        let ty = match rng.below(20) {
            0..=6 => "A",
            7..=13 => "B",
            14..=17 => "C",
            _ => "N",
        };
        if let Some((lt, ms)) = &o.lag {
            if lt == ty {
                t = (t - ms * 1000).max(0);
            }
        }
        out.push(Step::Ev(In { uid, ty: ty.to_string(), x: rng.range(0, 4), k: rng.range(1, 3), ts_us: t }));
    }
    out
}

/// Canonical text of an output event (stream name + sorted data fields; wall-clock excluded).
pub fn canon(e: &Event) -> String {
    let mut m: std::collections::BTreeMap<String, J> = std::collections::BTreeMap::new();
    for (k, v) in e.data.iter() {
        m.insert(k.to_string(), val_json(v));
    }
    format!("{}:{}", e.event_type, serde_json::to_string(&m).unwrap())
}

pub fn stream_of(canon_line: &str) -> &str {
    canon_line.split(':').next().unwrap_or("")
}

/// Number of state items held by a checkpoint: buffered / captured events, distinct keys,
/// non-zero limit counters, watermark sources with a watermark.
pub fn state_items(j: &J) -> u64 {
    fn events(j: &J) -> u64 {
        match j {
            J::Object(m) => {
                if m.contains_key("event_type") && m.contains_key("timestamp_ms") {
                    1
                } else {
                    m.values().map(events).sum()
                }
            }
            J::Array(a) => a.iter().map(events).sum(),
            _ => 0,
        }
    }
    let mut n = events(j);
    if let Some(d) = j.get("distinct_states").and_then(|d| d.as_object()) {
        n += d.values().map(|s| s.get("keys").and_then(|k| k.as_array()).map_or(0, |k| k.len() as u64)).sum::<u64>();
    }
    if let Some(d) = j.get("limit_states").and_then(|d| d.as_object()) {
        n += d.values().filter(|s| s.get("count").and_then(|k| k.as_u64()).unwrap_or(0) > 0).count() as u64;
    }
    if let Some(w) = j.get("watermark_state").and_then(|w| w.get("sources")).and_then(|d| d.as_object()) {
        n += w.values().filter(|s| s.get("watermark_ms").map_or(false, |x| !x.is_null())).count() as u64;
    }
    n
}

