//! Helpers shared by the REST-API harness bins (C22, C28, C44): the real warp
//! filters of `varpulis_cli::api` over a real `TenantManager`, driven with
//! `warp::test`, plus read-only observation of tenant state through the public
//! `TenantManager` API.
#![allow(dead_code)]
use serde_json::{json, Value as J};
use varpulis_cli::api;
use varpulis_runtime::tenant::{SharedTenantManager, TenantId};
use warp::Filter;

pub type Routes = warp::filters::BoxedFilter<(warp::reply::Response,)>;

/// The complete REST route tree (`api_routes` includes `tenant_admin_routes`).
pub fn routes(mgr: SharedTenantManager, admin_key: Option<String>) -> Routes {
    api::api_routes(mgr, admin_key)
        .map(|r| warp::Reply::into_response(r))
        .boxed()
}

pub fn rt() -> tokio::runtime::Runtime {
    tokio::runtime::Builder::new_current_thread()
        .enable_all()
        .build()
        .expect("tokio runtime")
}

#[derive(Clone, Debug)]
pub struct Resp {
    /// HTTP status; 0 = the filter rejected the request before any handler replied
    /// (only reported by `call_head`; `call` converts rejections like a server would).
    pub status: u16,
    pub content_type: String,
    pub body: Vec<u8>,
    /// Body was not read (server-sent-event stream).
    pub streaming: bool,
}

impl Resp {
    pub fn is_2xx(&self) -> bool {
        (200..300).contains(&self.status)
    }
    pub fn json(&self) -> Option<J> {
        serde_json::from_slice(&self.body).ok()
    }
    pub fn text(&self) -> String {
        String::from_utf8_lossy(&self.body).to_string()
    }
    pub fn brief(&self) -> J {
        let t = self.text();
        let t: String = t.chars().take(400).collect();
        json!({"status": self.status, "streaming": self.streaming, "body": t})
    }
}

fn builder(method: &str, path: &str, headers: &[(&str, &str)], body: Option<&[u8]>) -> warp::test::RequestBuilder {
    let mut rb = warp::test::request().method(method).path(path);
    for (k, v) in headers {
        rb = rb.header(*k, *v);
    }
    if let Some(b) = body {
        rb = rb.header("content-type", "application/json").body(b.to_vec());
    }
    rb
}

/// Full request/response (rejections are converted to their HTTP status as the server does).
pub async fn call(routes: &Routes, method: &str, path: &str, headers: &[(&str, &str)], body: Option<&[u8]>) -> Resp {
    let r = builder(method, path, headers, body).reply(routes).await;
    Resp {
        status: r.status().as_u16(),
        content_type: r
            .headers()
            .get("content-type")
            .and_then(|v| v.to_str().ok())
            .unwrap_or("")
            .to_string(),
        body: r.body().to_vec(),
        streaming: false,
    }
}

/// Like `call` but does not read an event-stream body (which never ends).
pub async fn call_head(routes: &Routes, method: &str, path: &str, headers: &[(&str, &str)], body: Option<&[u8]>) -> Resp {
    match builder(method, path, headers, body).filter(routes).await {
        Ok(resp) => {
            let status = resp.status().as_u16();
            let ct = resp
                .headers()
                .get("content-type")
                .and_then(|v| v.to_str().ok())
                .unwrap_or("")
                .to_string();
            if ct.starts_with("text/event-stream") {
                Resp { status, content_type: ct, body: vec![], streaming: true }
            } else {
                let bytes = warp::hyper::body::to_bytes(resp.into_body()).await.map(|b| b.to_vec()).unwrap_or_default();
                Resp { status, content_type: ct, body: bytes, streaming: false }
            }
        }
        Err(_) => Resp { status: 0, content_type: String::new(), body: vec![], streaming: false },
    }
}

/// Everything observable about one tenant through the public `TenantManager`
/// API, as canonical JSON (maps sorted). `deep` adds each engine's checkpoint.
pub async fn tenant_snapshot(mgr: &SharedTenantManager, id: &TenantId, deep: bool) -> J {
    let m = mgr.read().await;
    let t = match m.get_tenant(id) {
        Some(t) => t,
        None => return J::Null,
    };
    let mut pls = serde_json::Map::new();
    let mut ids: Vec<&String> = t.pipelines.keys().collect();
    ids.sort();
    for pid in ids {
        let p = &t.pipelines[pid];
        let eng = p.engine.lock().await;
        let (ein, eout) = eng.event_counters();
        let mut streams: Vec<String> = eng.stream_names().iter().map(|s| s.to_string()).collect();
        streams.sort();
        let mut o = json!({
            "map_key": pid,
            "id": p.id,
            "name": p.name,
            "source": p.source,
            "status": p.status.to_string(),
            "engine_events_in": ein,
            "engine_events_out": eout,
            "engine_streams": streams,
            "pending_outputs": p.output_rx.len(),
            "log_subscribers": p.log_broadcast.receiver_count(),
        });
        if deep {
            o["checkpoint"] = serde_json::to_value(eng.create_checkpoint()).unwrap_or(J::Null);
        }
        pls.insert(pid.clone(), o);
    }
    json!({
        "id": t.id.as_str(),
        "name": t.name,
        "api_key": t.api_key,
        "key_index_points_here": m.get_tenant_by_api_key(&t.api_key).map(|x| x == id).unwrap_or(false),
        "quota": {"max_pipelines": t.quota.max_pipelines, "max_events_per_second": t.quota.max_events_per_second, "max_streams_per_pipeline": t.quota.max_streams_per_pipeline},
        "usage": {
            "events_processed": t.usage.events_processed,
            "events_in_window": t.usage.events_in_window,
            "output_events_emitted": t.usage.output_events_emitted,
            "active_pipelines": t.usage.active_pipelines,
        },
        "pipelines": J::Object(pls),
    })
}

/// First differing JSON path between two values (for witnesses / signatures).
pub fn first_diff(a: &J, b: &J, path: &str) -> Option<String> {
    match (a, b) {
        (J::Object(x), J::Object(y)) => {
            let mut keys: Vec<&String> = x.keys().chain(y.keys()).collect();
            keys.sort();
            keys.dedup();
            for k in keys {
                match (x.get(k), y.get(k)) {
                    (Some(p), Some(q)) => {
                        if let Some(d) = first_diff(p, q, &format!("{}/{}", path, k)) {
                            return Some(d);
                        }
                    }
                    _ => return Some(format!("{}/{}", path, k)),
                }
            }
            None
        }
        (J::Array(x), J::Array(y)) => {
            if x.len() != y.len() {
                return Some(format!("{}/len", path));
            }
            for (i, (p, q)) in x.iter().zip(y.iter()).enumerate() {
                if let Some(d) = first_diff(p, q, &format!("{}/{}", path, i)) {
                    return Some(d);
                }
            }
            None
        }
        _ => {
            if a == b {
                None
            } else {
                Some(path.to_string())
            }
        }
    }
}
