//! In-process mock worker HTTP servers (loopback, warp) for the cluster checks C33/C34.
//! A mock worker answers the worker REST API the coordinator calls and records every call.
//! Included with `#[path = "../clustermock.rs"] mod clustermock;`.
#![allow(dead_code)]

use serde_json::{json, Value as J};
use std::sync::atomic::{AtomicU64, Ordering};
use std::sync::{Arc, Mutex};
use warp::Filter;

#[derive(Clone, Debug)]
pub struct MockCall {
    /// "deploy" | "events-batch" | "events" | "checkpoint" | "restore" | "delete"
    pub kind: &'static str,
    /// pipeline id from the URL ("" for deploy)
    pub pid: String,
    pub body: J,
}

#[derive(Clone)]
pub struct MockWorker {
    pub address: String,
    pub calls: Arc<Mutex<Vec<MockCall>>>,
    pub tag: String,
}

static PID: AtomicU64 = AtomicU64::new(1);

impl MockWorker {
    /// Remove and return all recorded calls whose pid (or, for deploys, body.name) satisfies `f`.
    pub fn drain(&self, f: impl Fn(&MockCall) -> bool) -> Vec<MockCall> {
        let mut g = self.calls.lock().unwrap();
        let mut keep = vec![];
        let mut out = vec![];
        for c in g.drain(..) {
            if f(&c) {
                out.push(c)
            } else {
                keep.push(c)
            }
        }
        *g = keep;
        out
    }
}

/// Start a mock worker on 127.0.0.1:<ephemeral>. Must be called inside the runtime `rt`
/// that keeps serving it (the server task is spawned on it).
pub fn spawn_mock_worker(rt: &tokio::runtime::Runtime, tag: &str) -> Result<MockWorker, String> {
    let calls: Arc<Mutex<Vec<MockCall>>> = Arc::new(Mutex::new(vec![]));
    let tagc = tag.to_string();

    let c1 = calls.clone();
    let t1 = tagc.clone();
    let deploy = warp::post()
        .and(warp::path!("api" / "v1" / "pipelines"))
        .and(warp::body::json())
        .map(move |body: J| {
            let id = format!("{}-{}", t1, PID.fetch_add(1, Ordering::Relaxed));
            let name = body.get("name").and_then(|n| n.as_str()).unwrap_or("").to_string();
            c1.lock().unwrap().push(MockCall { kind: "deploy", pid: id.clone(), body });
            warp::reply::json(&json!({"id": id, "name": name, "status": "running"}))
        });

    let c2 = calls.clone();
    let batch = warp::post()
        .and(warp::path!("api" / "v1" / "pipelines" / String / "events-batch"))
        .and(warp::body::json())
        .map(move |pid: String, body: J| {
            let n = body.get("events").and_then(|e| e.as_array()).map(|a| a.len()).unwrap_or(0);
            c2.lock().unwrap().push(MockCall { kind: "events-batch", pid, body });
            warp::reply::json(&json!({"accepted": n, "output_events": []}))
        });

    let c3 = calls.clone();
    let single = warp::post()
        .and(warp::path!("api" / "v1" / "pipelines" / String / "events"))
        .and(warp::body::json())
        .map(move |pid: String, body: J| {
            c3.lock().unwrap().push(MockCall { kind: "events", pid, body });
            warp::reply::json(&json!({"accepted": true, "output_events": []}))
        });

    let c4 = calls.clone();
    let checkpoint = warp::post()
        .and(warp::path!("api" / "v1" / "pipelines" / String / "checkpoint"))
        .map(move |pid: String| {
            c4.lock().unwrap().push(MockCall { kind: "checkpoint", pid, body: J::Null });
            // best-effort step of a migration: "no checkpoint available"
            warp::reply::with_status(warp::reply::json(&json!({"error": "no checkpoint"})), warp::http::StatusCode::NOT_FOUND)
        });

    let c5 = calls.clone();
    let restore = warp::post()
        .and(warp::path!("api" / "v1" / "pipelines" / String / "restore"))
        .and(warp::body::json())
        .map(move |pid: String, body: J| {
            c5.lock().unwrap().push(MockCall { kind: "restore", pid, body });
            warp::reply::json(&json!({"restored": true}))
        });

    let c6 = calls.clone();
    let delete = warp::delete()
        .and(warp::path!("api" / "v1" / "pipelines" / String))
        .map(move |pid: String| {
            c6.lock().unwrap().push(MockCall { kind: "delete", pid, body: J::Null });
            warp::reply::json(&json!({"deleted": true}))
        });

    let routes = deploy.or(batch).or(single).or(checkpoint).or(restore).or(delete);
    let _guard = rt.enter();
    let (addr, fut) = warp::serve(routes)
        .try_bind_ephemeral(([127, 0, 0, 1], 0))
        .map_err(|e| format!("cannot bind mock worker: {e}"))?;
    rt.spawn(fut);
    Ok(MockWorker { address: format!("http://{}", addr), calls, tag: tagc })
}
