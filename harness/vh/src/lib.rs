//! Helpers shared by the harness binaries (one binary per property: src/bin/cNN.rs).
pub use vh_common::*;
pub mod zddmodel;
pub mod eng;
pub mod seqgen;
