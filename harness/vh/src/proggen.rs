//! Generator of multi-stream programs (filters, emits, windows+aggregates, sequences, joins,
//! merge sources, derived chains, streams without emit) + matching event streams.
//! Included by path from the C16/C17/C19/C23 bins.
#![allow(dead_code)]
use serde_json::{json, Value as J};
use varpulis_core::Value;
use varpulis_runtime::event::Event;
use vh::eng::*;
use vh::Rng;

#[derive(Clone, Debug, PartialEq, Eq, Hash)]
pub enum Kind {
    /// `Src [.where(x >= c)] [.emit(uid: uid, x: x, k: k)]` — pass-through / projection
    Filter { src: String, min_x: Option<i64>, emit: bool },
    /// `merge(stream L = A .where(x >= c), B)`
    Merge { left: String, left_min_x: Option<i64>, right: String, emit: bool },
    /// `Src .window(spec) .aggregate(..) .emit(..)`
    Window { src: String, spec: String, partitioned: bool },
    /// `T0 as a -> T1 where x >= a.x as b [.partition_by(k)] .emit(u0: a.uid, u1: b.uid)`
    Seq { t0: String, t1: String, cmp: &'static str, partitioned: bool, all: bool },
    /// `join(L, R).on(L.k == R.k).window(Nms).emit(l: L.uid, r: R.uid)`
    Join { left: String, right: String, window_ms: i64 },
    /// `Src .distinct(x)` / `.limit(n)` pass-through with state
    Distinct { src: String },
    Limit { src: String, n: usize },
}

#[derive(Clone, Debug, PartialEq, Eq, Hash)]
pub struct StreamDef {
    pub name: String,
    pub kind: Kind,
}

#[derive(Clone, Debug, PartialEq, Eq, Hash)]
pub struct Prog {
    pub streams: Vec<StreamDef>,
}

pub const BASE_TYPES: [&str; 2] = ["A", "B"];

impl StreamDef {
    pub fn vpl(&self) -> String {
        let n = &self.name;
        match &self.kind {
            Kind::Filter { src, min_x, emit } => {
                let mut s = format!("stream {} = {}\n", n, src);
                if let Some(c) = min_x {
                    s.push_str(&format!("    .where(x >= {})\n", c));
                }
                if *emit {
                    s.push_str("    .emit(uid: uid, x: x, k: k)\n");
                }
                s
            }
            Kind::Merge { left, left_min_x, right, emit } => {
                let l = match left_min_x {
                    Some(c) => format!("stream {}L = {} .where(x >= {})", n, left, c),
                    None => left.clone(),
                };
                let mut s = format!("stream {} = merge({}, {})\n", n, l, right);
                if *emit {
                    s.push_str("    .emit(uid: uid, x: x, k: k)\n");
                }
                s
            }
            Kind::Window { src, spec, partitioned } => format!(
                "stream {} = {}\n{}    .window({})\n    .aggregate(n: count(), s: sum(uid), f: first(uid), l: last(uid))\n    .emit(n: n, s: s, f: f, l: l)\n",
                n,
                src,
                if *partitioned { "    .partition_by(k)\n" } else { "" },
                spec
            ),
            Kind::Seq { t0, t1, cmp, partitioned, all } => format!(
                "stream {} = {} as a\n    -> {}{} where x {} a.x as b\n{}    .emit(u0: a.uid, u1: b.uid)\n",
                n,
                t0,
                if *all { "all " } else { "" },
                t1,
                cmp,
                if *partitioned { "    .partition_by(k)\n" } else { "" }
            ),
            Kind::Join { left, right, window_ms } => format!(
                "stream {} = join({}, {})\n    .on({}.k == {}.k)\n    .window({}ms)\n    .emit(l: {}.uid, r: {}.uid)\n",
                n, left, right, left, right, window_ms, left, right
            ),
            Kind::Distinct { src } => format!("stream {} = {}\n    .distinct(x)\n    .emit(uid: uid, x: x, k: k)\n", n, src),
            Kind::Limit { src, n: lim } => format!("stream {} = {}\n    .limit({})\n    .emit(uid: uid, x: x, k: k)\n", n, src, lim),
        }
    }
    pub fn kind_name(&self) -> &'static str {
        match &self.kind {
            Kind::Filter { emit: true, .. } => "filter-emit",
            Kind::Filter { emit: false, .. } => "filter-noemit",
            Kind::Merge { .. } => "merge",
            Kind::Window { .. } => "window",
            Kind::Seq { all: true, .. } => "sequence-all",
            Kind::Seq { .. } => "sequence",
            Kind::Join { .. } => "join",
            Kind::Distinct { .. } => "distinct",
            Kind::Limit { .. } => "limit",
        }
    }
    /// Event types / stream names this stream consumes.
    pub fn consumes(&self) -> Vec<String> {
        match &self.kind {
            Kind::Filter { src, .. } | Kind::Window { src, .. } | Kind::Distinct { src } | Kind::Limit { src, .. } => vec![src.clone()],
            Kind::Merge { left, right, .. } => vec![left.clone(), right.clone()],
            Kind::Seq { t0, t1, .. } => vec![t0.clone(), t1.clone()],
            Kind::Join { left, right, .. } => vec![left.clone(), right.clone()],
        }
    }
    /// Output events keep uid/x/k (so they can feed another pass-through stream)?
    pub fn passes_fields(&self) -> bool {
        matches!(&self.kind, Kind::Filter { .. } | Kind::Merge { .. } | Kind::Distinct { .. } | Kind::Limit { .. })
    }
}

impl Prog {
    pub fn vpl(&self) -> String {
        self.streams.iter().map(|s| s.vpl()).collect::<Vec<_>>().join("\n")
    }
    pub fn json(&self) -> J {
        json!({"vpl": self.vpl(), "kinds": self.streams.iter().map(|s| s.kind_name()).collect::<Vec<_>>()})
    }
}

pub struct POpts {
    pub max_streams: usize,
    pub windows: bool,
    pub time_windows: bool,
    pub sequences: bool,
    pub joins: bool,
    pub stateful_pass: bool, // distinct / limit
    pub merges: bool,
    pub self_named: bool, // a stream named like a base type it consumes (re-routes to itself)
}

fn window_spec(rng: &mut Rng, time: bool) -> String {
    match rng.below(if time { 5 } else { 2 }) {
        0 => format!("{}", 1 + rng.below(4)),
        1 => format!("{}, sliding: {}", 2 + rng.below(3), 1 + rng.below(2)),
        2 => format!("{}ms", 2 + rng.below(5)),
        3 => {
            let size = 3 + rng.below(5);
            format!("{}ms, sliding: {}ms", size, 1 + rng.below(size - 1))
        }
        _ => format!("session: {}ms", 1 + rng.below(4)),
    }
}

pub fn gen_prog(rng: &mut Rng, o: &POpts) -> Prog {
    let n = 1 + rng.below(o.max_streams);
    let mut streams: Vec<StreamDef> = vec![];
    for i in 0..n {
        let name = format!("S{}", i + 1);
        // candidate sources: base types + earlier streams that pass uid/x/k through
        let mut srcs: Vec<String> = BASE_TYPES.iter().map(|s| s.to_string()).collect();
        for s in &streams {
            if s.passes_fields() {
                srcs.push(s.name.clone());
                srcs.push(s.name.clone()); // bias towards derived chains
            }
        }
        let src = rng.pick(&srcs).clone();
        let r = rng.below(100);
        let kind = if o.windows && r < 18 {
            Kind::Window { src, spec: window_spec(rng, o.time_windows), partitioned: rng.chance(1, 3) }
        } else if o.sequences && r < 34 {
            let t0 = rng.pick(&srcs).clone();
            let t1 = rng.pick(&srcs).clone();
            Kind::Seq { t0, t1, cmp: *rng.pick(&[">=", ">", "<=", "=="]), partitioned: rng.chance(1, 3), all: rng.chance(1, 6) }
        } else if o.joins && r < 46 && srcs.len() >= 2 {
            let left = rng.pick(&srcs).clone();
            let mut right = rng.pick(&srcs).clone();
            if right == left {
                right = srcs.iter().find(|s| **s != left).cloned().unwrap_or(right);
            }
            Kind::Join { left, right, window_ms: 2 + rng.below(6) as i64 }
        } else if o.merges && r < 58 {
            let left = rng.pick(&srcs).clone();
            let mut right = rng.pick(&srcs).clone();
            if right == left {
                right = srcs.iter().find(|s| **s != left).cloned().unwrap_or(right);
            }
            Kind::Merge { left, left_min_x: if rng.chance(1, 2) { Some(rng.range(0, 3)) } else { None }, right, emit: rng.chance(2, 3) }
        } else if o.stateful_pass && r < 66 {
            if rng.chance(1, 2) { Kind::Distinct { src } } else { Kind::Limit { src, n: 1 + rng.below(4) } }
        } else {
            Kind::Filter { src, min_x: if rng.chance(2, 3) { Some(rng.range(0, 3)) } else { None }, emit: rng.chance(2, 3) }
        };
        streams.push(StreamDef { name, kind });
    }
    if o.self_named && rng.chance(1, 8) {
        // a stream named like the base type it consumes: its outputs are routed back to itself
        streams.push(StreamDef { name: "A".into(), kind: Kind::Filter { src: "A".into(), min_x: Some(rng.range(0, 2)), emit: rng.chance(1, 2) } });
    }
    Prog { streams }
}

#[derive(Clone, Debug, PartialEq)]
pub struct In {
    pub uid: i64,
    pub ty: &'static str,
    pub x: i64,
    pub k: i64,
    pub ts_ms: i64,
}

impl In {
    pub fn event(&self) -> Event {
        ev(self.ty, ts_ms(self.ts_ms), &[("uid", Value::Int(self.uid)), ("x", Value::Int(self.x)), ("k", Value::Int(self.k))])
    }
    pub fn json(&self) -> J {
        json!({"uid": self.uid, "type": self.ty, "x": self.x, "k": self.k, "ts_ms": self.ts_ms})
    }
}

pub fn gen_inputs(rng: &mut Rng, len: usize) -> Vec<In> {
    let mut ts = 0i64;
    (0..len)
        .map(|i| {
            ts += rng.range(0, 3);
            In { uid: i as i64 + 1, ty: BASE_TYPES[rng.below(2)], x: rng.range(0, 4), k: rng.range(1, 3), ts_ms: ts }
        })
        .collect()
}

/// Canonical text of an output event (stream name + sorted data fields; wall-clock excluded).
pub fn canon(e: &Event) -> String {
    let mut m: std::collections::BTreeMap<String, J> = std::collections::BTreeMap::new();
    for (k, v) in e.data.iter() {
        m.insert(k.to_string(), val_json(v));
    }
    format!("{}:{}", e.event_type, serde_json::to_string(&m).unwrap())
}
