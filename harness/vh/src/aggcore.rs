//! C14 core: batch generator, reference aggregates and path-agreement monitor. Shared by the
//! native harness (bin c14), the valgrind lane (same binary, `--sanitize-workload`) and the
//! Miri lane (/verif/harness-miri includes this file by path). Depends only on
//! varpulis-runtime, varpulis-core, vh-common and serde_json.
use serde_json::{json, Value as J};
use std::sync::Arc;
use varpulis_core::Value;
use varpulis_runtime::aggregation::{AggregateFunc, Aggregator, Avg, Count, CountDistinct, Ema, First, Last, Max, Min, StdDev, Sum};
use varpulis_runtime::columnar::ColumnarBuffer;
use varpulis_runtime::event::{Event, SharedEvent};
use vh_common::{Partial, Rng};

#[derive(Clone, Debug, PartialEq)]
pub enum Cell {
    F(f64),
    I(i64),
    S(String),
    B(bool),
    Missing,
}

pub fn gen_batch(rng: &mut Rng, max_len: usize) -> Vec<Cell> {
    let len = if rng.chance(1, 6) { rng.below(9) } else { rng.below(max_len + 1) };
    // a batch has a "style": mostly floats, mostly ints, mixed
    let style = rng.below(4);
    let dom = 1 + rng.below(6) as i64;
    (0..len)
        .map(|_| {
            let r = rng.below(100);
            if r < 8 {
                Cell::Missing
            } else if r < 12 {
                Cell::F(f64::NAN)
            } else if r < 15 {
                Cell::S(["a", "b", "1"][rng.below(3)].to_string())
            } else if r < 16 {
                Cell::B(true)
            } else if r < 17 {
                Cell::F(if rng.chance(1, 2) { f64::INFINITY } else { -0.0 })
            } else {
                match style {
                    0 => Cell::F((rng.f64_unit() - 0.5) * 2000.0),
                    1 => Cell::I(rng.range(-dom, dom)),
                    2 => Cell::F(rng.range(-dom, dom) as f64 + 0.5),
                    _ => {
                        if rng.chance(1, 2) {
                            Cell::I(rng.range(-1000, 1000))
                        } else {
                            Cell::F((rng.f64_unit() - 0.5) * 1e6)
                        }
                    }
                }
            }
        })
        .collect()
}

pub fn to_events(batch: &[Cell]) -> Vec<Event> {
    batch
        .iter()
        .enumerate()
        .map(|(i, c)| {
            let mut e = Event::new_at("E", chrono::DateTime::<chrono::Utc>::from_timestamp_millis(1_704_067_200_000 + i as i64).unwrap());
            e.data.insert("uid".into(), Value::Int(i as i64));
            match c {
                Cell::F(f) => {
                    e.data.insert("v".into(), Value::Float(*f));
                }
                Cell::I(n) => {
                    e.data.insert("v".into(), Value::Int(*n));
                }
                Cell::S(s) => {
                    e.data.insert("v".into(), Value::Str(s.clone().into()));
                }
                Cell::B(b) => {
                    e.data.insert("v".into(), Value::Bool(*b));
                }
                Cell::Missing => {}
            }
            e
        })
        .collect()
}

pub fn cell_json(c: &Cell) -> J {
    match c {
        Cell::F(f) if f.is_finite() => json!(f),
        Cell::F(f) => json!(format!("{}", f)),
        Cell::I(i) => json!(i),
        Cell::S(s) => json!(s),
        Cell::B(b) => json!(b),
        Cell::Missing => json!("<missing>"),
    }
}

/// numeric view of a cell (ints widen to f64), as the documentation describes
fn num(c: &Cell) -> Option<f64> {
    match c {
        Cell::F(f) => Some(*f),
        Cell::I(i) => Some(*i as f64),
        _ => None,
    }
}

#[derive(Clone, Debug)]
pub enum Expect {
    /// exact value
    Exact(Value),
    /// float with absolute tolerance
    Approx(f64, f64),
    /// definition not pinned for this batch (only path agreement is checked)
    Unspecified,
}

pub const AGGS: [&str; 10] = ["count", "sum", "avg", "min", "max", "stddev", "first", "last", "count_distinct", "ema"];

pub fn make(agg: &str, period: usize) -> Box<dyn AggregateFunc> {
    match agg {
        "count" => Box::new(Count),
        "sum" => Box::new(Sum),
        "avg" => Box::new(Avg),
        "min" => Box::new(Min),
        "max" => Box::new(Max),
        "stddev" => Box::new(StdDev),
        "first" => Box::new(First),
        "last" => Box::new(Last),
        "count_distinct" => Box::new(CountDistinct),
        _ => Box::new(Ema::new(period)),
    }
}

fn cell_value(c: &Cell) -> Value {
    match c {
        Cell::F(f) => Value::Float(*f),
        Cell::I(i) => Value::Int(*i),
        Cell::S(s) => Value::Str(s.clone().into()),
        Cell::B(b) => Value::Bool(*b),
        Cell::Missing => Value::Null,
    }
}

/// Straightforward reference (definitions from docs/reference/windows-aggregations.md).
pub fn reference(agg: &str, period: usize, batch: &[Cell]) -> Expect {
    let valid: Vec<f64> = batch.iter().filter_map(num).filter(|v| !v.is_nan()).collect();
    let has_nan = batch.iter().any(|c| matches!(c, Cell::F(f) if f.is_nan()));
    let has_inf = valid.iter().any(|v| v.is_infinite());
    let scale: f64 = valid.iter().map(|v| v.abs()).sum::<f64>().max(1.0);
    match agg {
        "count" => Expect::Exact(Value::Int(batch.len() as i64)),
        "sum" => {
            if has_inf { return Expect::Unspecified; }
            Expect::Approx(valid.iter().sum::<f64>(), 1e-9 * scale)
        }
        "avg" => {
            if valid.is_empty() { return Expect::Exact(Value::Null); }
            if has_inf { return Expect::Unspecified; }
            Expect::Approx(valid.iter().sum::<f64>() / valid.len() as f64, 1e-9 * scale)
        }
        "min" => match valid.iter().copied().fold(None, |m: Option<f64>, v| Some(m.map_or(v, |m| m.min(v)))) {
            None => Expect::Exact(Value::Null),
            Some(m) => Expect::Approx(m, 0.0),
        },
        "max" => match valid.iter().copied().fold(None, |m: Option<f64>, v| Some(m.map_or(v, |m| m.max(v)))) {
            None => Expect::Exact(Value::Null),
            Some(m) => Expect::Approx(m, 0.0),
        },
        "stddev" => {
            // NaN handling of stddev is not documented: pin only NaN-free batches
            if has_nan || has_inf { return Expect::Unspecified; }
            if valid.len() < 2 { return Expect::Exact(Value::Null); }
            let n = valid.len() as f64;
            let mean = valid.iter().sum::<f64>() / n;
            let var = valid.iter().map(|v| (v - mean) * (v - mean)).sum::<f64>() / (n - 1.0);
            Expect::Approx(var.sqrt(), 1e-7 * (1.0 + var.sqrt()))
        }
        "first" => Expect::Exact(batch.first().map(cell_value).unwrap_or(Value::Null)),
        "last" => Expect::Exact(batch.last().map(cell_value).unwrap_or(Value::Null)),
        "count_distinct" => {
            if has_nan { return Expect::Unspecified; }
            // equal numerics of different variants (1 vs 1.0, 0.0 vs -0.0) make "distinct" ambiguous: skip
            let mut keys: Vec<String> = vec![];
            let mut ambiguous = false;
            for c in batch {
                let k = match c {
                    Cell::F(f) => { if f.fract() == 0.0 { ambiguous |= batch.iter().any(|d| matches!(d, Cell::I(i) if *i as f64 == *f)); } if *f == 0.0 { ambiguous |= batch.iter().filter(|d| matches!(d, Cell::F(g) if *g == 0.0)).map(|d| if let Cell::F(g) = d { g.is_sign_negative() } else { false }).collect::<std::collections::BTreeSet<_>>().len() > 1; } format!("f{}", f.to_bits()) }
                    Cell::I(i) => format!("i{}", i),
                    Cell::S(s) => format!("s{}", s),
                    Cell::B(b) => format!("b{}", b),
                    Cell::Missing => continue,
                };
                if !keys.contains(&k) { keys.push(k); }
            }
            if ambiguous { Expect::Unspecified } else { Expect::Exact(Value::Int(keys.len() as i64)) }
        }
        _ => {
            if has_nan || has_inf { return Expect::Unspecified; }
            let all: Vec<f64> = batch.iter().filter_map(num).collect();
            if all.is_empty() { return Expect::Exact(Value::Null); }
            let k = 2.0 / (period.max(1) as f64 + 1.0);
            let mut ema = all[0];
            for v in &all[1..] {
                ema = v * k + ema * (1.0 - k);
            }
            Expect::Approx(ema, 1e-9 * scale)
        }
    }
}

pub fn value_close(a: &Value, b: &Value, tol: f64) -> bool {
    match (a, b) {
        (Value::Float(x), Value::Float(y)) => (x.is_nan() && y.is_nan()) || x == y || (x - y).abs() <= tol,
        (x, y) => x == y,
    }
}

fn meets(e: &Expect, got: &Value) -> bool {
    match e {
        Expect::Unspecified => true,
        Expect::Exact(v) => value_close(v, got, 0.0),
        Expect::Approx(x, tol) => match got {
            Value::Float(g) => (g.is_nan() && x.is_nan()) || g == x || (g - x).abs() <= *tol,
            _ => false,
        },
    }
}

/// Run one batch through every path of every aggregate; report disagreements.
/// Returns the number of comparisons made.
pub fn check_batch(batch: &[Cell], period: usize, stale_at: usize, out: &mut Partial) -> u64 {
    let events = to_events(batch);
    let shared: Vec<SharedEvent> = events.iter().map(|e| Arc::new(e.clone())).collect();
    let refs: Vec<&Event> = events.iter().collect();
    let mut n = 0u64;
    for agg in AGGS.iter() {
        let f = make(agg, period);
        let want = reference(agg, period, batch);
        let scale: f64 = batch.iter().filter_map(num).filter(|v| v.is_finite()).map(|v| v.abs()).sum::<f64>().max(1.0);
        let tol = 1e-9 * scale;
        let row = f.apply(&events, Some("v"));
        let mut paths: Vec<(&str, Value)> = vec![("row", row.clone())];
        paths.push(("shared", f.apply_shared(&shared, Some("v"))));
        paths.push(("refs", f.apply_refs(&refs, Some("v"))));
        let mut fresh = ColumnarBuffer::from_events(shared.clone());
        paths.push(("columnar-fresh", f.apply_columnar(&mut fresh, Some("v"))));
        // buffer filled by push, with the column materialised part-way (a stale cache would show here)
        let mut pushed = ColumnarBuffer::new();
        for (i, e) in shared.iter().enumerate() {
            if i == stale_at {
                let _ = pushed.ensure_float_column("v").len();
                let _ = f.apply_columnar(&mut pushed, Some("v"));
            }
            pushed.push(e.clone());
        }
        paths.push(("columnar-pushed", f.apply_columnar(&mut pushed, Some("v"))));
        // second aggregate call on the same buffer (column cached now)
        paths.push(("columnar-cached", f.apply_columnar(&mut pushed, Some("v"))));
        // after draining a prefix the cache must not be reused
        if batch.len() >= 2 {
            let k = stale_at.min(batch.len() - 1).max(1);
            let mut drained = ColumnarBuffer::from_events(shared.clone());
            let _ = f.apply_columnar(&mut drained, Some("v"));
            let _ = drained.drain_front(k);
            let got = f.apply_columnar(&mut drained, Some("v"));
            let want_d = f.apply(&events[k..], Some("v"));
            n += 1;
            if !value_close(&want_d, &got, tol) {
                out.violation(&format!("{}/columnar-after-drain/vs-row", agg), "columnar path after drain_front disagrees with the row path on the remaining events", json!({"batch": batch.iter().map(cell_json).collect::<Vec<_>>(), "drained": k, "row": format!("{:?}", want_d), "columnar": format!("{:?}", got)}));
            }
        }
        let aggr = Aggregator::new().add("r", make(agg, period), Some("v".to_string()));
        paths.push(("aggregator-row", aggr.apply(&events).get("r").cloned().unwrap_or(Value::Null)));
        paths.push(("aggregator-shared", aggr.apply_shared(&shared).get("r").cloned().unwrap_or(Value::Null)));
        let mut fresh2 = ColumnarBuffer::from_events(shared.clone());
        paths.push(("aggregator-columnar", aggr.apply_columnar(&mut fresh2).get("r").cloned().unwrap_or(Value::Null)));
        for (pname, got) in &paths {
            n += 2;
            if !meets(&want, got) {
                out.violation(&format!("{}/{}/vs-definition", agg, pname), "aggregate differs from its documented mathematical definition", json!({"batch": batch.iter().map(cell_json).collect::<Vec<_>>(), "period": period, "expected": format!("{:?}", want), "got": format!("{:?}", got)}));
            }
            if !value_close(&row, got, tol) {
                out.violation(&format!("{}/{}/vs-row", agg, pname), "execution paths of one aggregate disagree", json!({"batch": batch.iter().map(cell_json).collect::<Vec<_>>(), "period": period, "row": format!("{:?}", row), "this_path": format!("{:?}", got)}));
            }
        }
    }
    // raw SIMD kernels on the numeric part (every residue mod 4 is reached by the batch lengths)
    let vals: Vec<f64> = batch.iter().filter_map(num).filter(|v| v.is_finite()).collect();
    let s = varpulis_runtime::simd::sum_f64(&vals);
    let want: f64 = vals.iter().sum();
    let scale: f64 = vals.iter().map(|v| v.abs()).sum::<f64>().max(1.0);
    n += 3;
    if (s - want).abs() > 1e-9 * scale {
        out.violation("simd/sum_f64/vs-definition", "simd::sum_f64 differs from the plain sum", json!({"values": vals, "got": s, "want": want}));
    }
    let mn = varpulis_runtime::simd::min_f64(&vals);
    let wmn = vals.iter().copied().fold(None, |m: Option<f64>, v| Some(m.map_or(v, |m| m.min(v))));
    if mn != wmn {
        out.violation("simd/min_f64/vs-definition", "simd::min_f64 differs from the plain minimum", json!({"values": vals, "got": mn, "want": wmn}));
    }
    let mx = varpulis_runtime::simd::max_f64(&vals);
    let wmx = vals.iter().copied().fold(None, |m: Option<f64>, v| Some(m.map_or(v, |m| m.max(v))));
    if mx != wmx {
        out.violation("simd/max_f64/vs-definition", "simd::max_f64 differs from the plain maximum", json!({"values": vals, "got": mx, "want": wmx}));
    }
    if !vals.is_empty() {
        let thr = vals[vals.len() / 2];
        let gt = varpulis_runtime::simd::compare_gt_f64(&vals, thr);
        let lt = varpulis_runtime::simd::compare_lt_f64(&vals, thr);
        n += 2;
        if gt != vals.iter().map(|v| *v > thr).collect::<Vec<_>>() {
            out.violation("simd/compare_gt_f64/vs-definition", "simd::compare_gt_f64 differs from element-wise >", json!({"values": vals, "threshold": thr, "got": gt}));
        }
        if lt != vals.iter().map(|v| *v < thr).collect::<Vec<_>>() {
            out.violation("simd/compare_lt_f64/vs-definition", "simd::compare_lt_f64 differs from element-wise <", json!({"values": vals, "threshold": thr, "got": lt}));
        }
    }
    n
}

/// Non-trivial per DESIGN §6: >=5 numeric values, >=1 missing/NaN, length not a multiple of 4.
pub fn nontrivial(batch: &[Cell]) -> bool {
    let nums = batch.iter().filter(|c| matches!(c, Cell::F(f) if !f.is_nan()) || matches!(c, Cell::I(_))).count();
    let odd = batch.iter().any(|c| matches!(c, Cell::Missing) || matches!(c, Cell::F(f) if f.is_nan()));
    nums >= 5 && odd && nums % 4 != 0
}

/// Deterministic single-threaded workload for the sanitizer lanes (valgrind / Miri).
pub fn sanitize_workload(seed: u64, batches: usize, max_len: usize) -> Partial {
    let mut rng = Rng::new(seed);
    let mut out = Partial::default();
    for i in 0..batches {
        // make sure every residue mod 4 and the AVX2 block boundaries are hit
        let mut b = gen_batch(&mut rng, max_len);
        if i < 24 {
            b = (0..i).map(|j| Cell::F(j as f64 * 1.5 - 7.0)).collect();
        }
        let period = 1 + rng.below(12);
        let stale_at = if b.is_empty() { 0 } else { rng.below(b.len()) };
        out.eval();
        let n = check_batch(&b, period, stale_at, &mut out);
        out.add("comparisons", n);
        if nontrivial(&b) {
            out.nontrivial(&format!("{:?}", b));
        }
    }
    out
}
