//! Generator, independent filter evaluator and reference matcher for sequence programs
//! (C01, C02, C04-patterns, C16/C19/C23 reuse the generator).
use crate::eng::*;
use crate::Rng;
use serde_json::{json, Value as J};
use std::collections::BTreeMap;
use varpulis_core::Value;
use varpulis_runtime::event::Event;

pub const TYPES: [&str; 3] = ["A", "B", "C"];
pub const NOT_TYPE: &str = "N";

#[derive(Clone, Copy, Debug, PartialEq, Eq, Hash)]
pub enum Field {
    X, // int 0..=3
    F, // float k+0.5
    S, // string p|q
}
impl Field {
    pub fn name(&self) -> &'static str {
        match self {
            Field::X => "x",
            Field::F => "f",
            Field::S => "s",
        }
    }
}

#[derive(Clone, Copy, Debug, PartialEq, Eq, Hash)]
pub enum Op {
    Eq,
    Ne,
    Lt,
    Le,
    Gt,
    Ge,
}
impl Op {
    pub fn txt(&self) -> &'static str {
        match self {
            Op::Eq => "==",
            Op::Ne => "!=",
            Op::Lt => "<",
            Op::Le => "<=",
            Op::Gt => ">",
            Op::Ge => ">=",
        }
    }
    pub fn apply<T: PartialOrd>(&self, a: &T, b: &T) -> bool {
        match self {
            Op::Eq => a == b,
            Op::Ne => a != b,
            Op::Lt => a < b,
            Op::Le => a <= b,
            Op::Gt => a > b,
            Op::Ge => a >= b,
        }
    }
}

/// Field values of a generated event, kept outside the engine's Value type so that the
/// reference evaluator shares nothing with the engine's evaluator.
#[derive(Clone, Debug, PartialEq)]
pub struct GEvent {
    pub uid: i64,
    pub ty: String,
    pub x: i64,
    pub f2: i64, // f = f2 + 0.5  (so float compare is exact and done on integers)
    pub s: u8,   // b'p' | b'q'
    pub key: Option<i64>,
    pub ts_ms: i64,
}

impl GEvent {
    pub fn to_event(&self, key_as_string: bool) -> Event {
        let mut fields: Vec<(&str, Value)> = vec![
            ("uid", Value::Int(self.uid)),
            ("x", Value::Int(self.x)),
            ("f", Value::Float(self.f2 as f64 + 0.5)),
            ("s", Value::Str((self.s as char).to_string().into())),
        ];
        if let Some(k) = self.key {
            if key_as_string {
                fields.push(("k", Value::Str(format!("key{}", k).into())));
            } else {
                fields.push(("k", Value::Int(k)));
            }
        }
        ev(&self.ty, ts_ms(self.ts_ms), &fields)
    }
    pub fn json(&self) -> J {
        json!({"uid": self.uid, "type": self.ty, "x": self.x, "f": self.f2 as f64 + 0.5, "s": (self.s as char).to_string(), "k": self.key, "ts_ms": self.ts_ms})
    }
}

#[derive(Clone, Debug, PartialEq, Eq, Hash)]
pub enum Atom {
    /// field OP constant (constant in the field's own type)
    Const { field: Field, op: Op, c: i64 },
    /// field OP alias.field (alias = index of an earlier step)
    Ref { field: Field, op: Op, step: usize },
    /// mixed numeric types, ordering operators only: int field x against a float literal
    /// (c2/2, i.e. `c.0` or `c.5`), or float field f against an integer literal c2/2
    MixedConst { field: Field, op: Op, c2: i64 },
    /// mixed numeric types against an earlier alias: x OP alias.f  or  f OP alias.x
    MixedRef { field: Field, op: Op, step: usize },
}

#[derive(Clone, Debug, PartialEq, Eq, Hash)]
pub enum Filt {
    One(Atom),
    And(Atom, Atom),
    Or(Atom, Atom),
}

fn alias(i: usize) -> String {
    format!("s{}", i)
}

impl Atom {
    pub fn txt(&self) -> String {
        match self {
            Atom::Const { field, op, c } => match field {
                Field::X => format!("{} {} {}", field.name(), op.txt(), c),
                Field::F => format!("{} {} {}.5", field.name(), op.txt(), c),
                Field::S => format!("{} {} \"{}\"", field.name(), op.txt(), (*c as u8) as char),
            },
            Atom::Ref { field, op, step } => format!("{} {} {}.{}", field.name(), op.txt(), alias(*step), field.name()),
            Atom::MixedConst { field, op, c2 } => match field {
                // int field against a float literal
                Field::X => format!("x {} {}.{}", op.txt(), c2.div_euclid(2), if c2.rem_euclid(2) == 1 { 5 } else { 0 }),
                // float field against an int literal (c2 is even here)
                _ => format!("f {} {}", op.txt(), c2 / 2),
            },
            Atom::MixedRef { field, op, step } => match field {
                Field::X => format!("x {} {}.f", op.txt(), alias(*step)),
                _ => format!("f {} {}.x", op.txt(), alias(*step)),
            },
        }
    }
    /// Independent evaluation. `cap[step]` is the captured event of that step, if any.
    pub fn eval(&self, e: &GEvent, cap: &[Option<GEvent>]) -> bool {
        let get = |g: &GEvent, f: &Field| -> i64 {
            match f {
                Field::X => g.x,
                Field::F => g.f2,
                Field::S => g.s as i64,
            }
        };
        match self {
            Atom::Const { field, op, c } => op.apply(&get(e, field), c),
            Atom::Ref { field, op, step } => match cap.get(*step).and_then(|c| c.as_ref()) {
                Some(r) => op.apply(&get(e, field), &get(r, field)),
                None => false,
            },
            Atom::MixedConst { field, op, c2 } => match field {
                Field::X => op.apply(&(2 * e.x), c2),
                _ => op.apply(&(2 * e.f2 + 1), c2),
            },
            Atom::MixedRef { field, op, step } => match cap.get(*step).and_then(|c| c.as_ref()) {
                Some(r) => match field {
                    Field::X => op.apply(&(2 * e.x), &(2 * r.f2 + 1)),
                    _ => op.apply(&(2 * e.f2 + 1), &(2 * r.x)),
                },
                None => false,
            },
        }
    }
    pub fn is_ref(&self) -> bool {
        matches!(self, Atom::Ref { .. } | Atom::MixedRef { .. })
    }
}

impl Filt {
    pub fn txt(&self) -> String {
        match self {
            Filt::One(a) => a.txt(),
            Filt::And(a, b) => format!("{} and {}", a.txt(), b.txt()),
            Filt::Or(a, b) => format!("{} or {}", a.txt(), b.txt()),
        }
    }
    pub fn eval(&self, e: &GEvent, cap: &[Option<GEvent>]) -> bool {
        match self {
            Filt::One(a) => a.eval(e, cap),
            Filt::And(a, b) => a.eval(e, cap) && b.eval(e, cap),
            Filt::Or(a, b) => a.eval(e, cap) || b.eval(e, cap),
        }
    }
    pub fn has_ref(&self) -> bool {
        match self {
            Filt::One(a) => a.is_ref(),
            Filt::And(a, b) | Filt::Or(a, b) => a.is_ref() || b.is_ref(),
        }
    }
}

#[derive(Clone, Debug, PartialEq, Eq, Hash)]
pub struct Step {
    pub ty: usize,
    pub all: bool,
    pub filter: Option<Filt>,
}

#[derive(Clone, Debug, PartialEq, Eq, Hash)]
pub struct SeqProg {
    pub steps: Vec<Step>,
    pub partitioned: bool,
    pub key_as_string: bool,
    /// `.not(N where filt)`; the filter may reference only step 0.
    pub not: Option<Option<Filt>>,
    /// true: `sequence(s0: A where .., s1: B ..)`; false: arrow form
    pub sequence_fn: bool,
    pub name: String,
}

impl SeqProg {
    pub fn vpl(&self) -> String {
        let mut s = String::new();
        if self.sequence_fn {
            let steps: Vec<String> = self
                .steps
                .iter()
                .enumerate()
                .map(|(i, st)| {
                    let f = st.filter.as_ref().map(|f| format!(" where {}", f.txt())).unwrap_or_default();
                    format!("{}: {}{}", alias(i), TYPES[st.ty], f)
                })
                .collect();
            s.push_str(&format!("stream {} = sequence({})\n", self.name, steps.join(", ")));
        } else {
            for (i, st) in self.steps.iter().enumerate() {
                if i == 0 {
                    if st.all {
                        s.push_str(&format!("stream {} = all {} as {}", self.name, TYPES[st.ty], alias(0)));
                    } else {
                        s.push_str(&format!("stream {} = {} as {}", self.name, TYPES[st.ty], alias(0)));
                    }
                } else {
                    let f = st.filter.as_ref().map(|f| format!(" where {}", f.txt())).unwrap_or_default();
                    s.push_str(&format!("\n    -> {}{}{} as {}", if st.all { "all " } else { "" }, TYPES[st.ty], f, alias(i)));
                }
            }
            s.push('\n');
        }
        if self.partitioned {
            s.push_str("    .partition_by(k)\n");
        }
        if let Some(nf) = &self.not {
            match nf {
                Some(f) => s.push_str(&format!("    .not({} where {})\n", NOT_TYPE, f.txt())),
                None => s.push_str(&format!("    .not({})\n", NOT_TYPE)),
            }
        }
        let fields: Vec<String> = (0..self.steps.len()).map(|i| format!("u{}: {}.uid", i, alias(i))).collect();
        s.push_str(&format!("    .emit({})\n", fields.join(", ")));
        s
    }
    pub fn has_all(&self) -> bool {
        self.steps.iter().any(|s| s.all)
    }
    pub fn json(&self) -> J {
        json!({"vpl": self.vpl(), "steps": self.steps.len(), "partitioned": self.partitioned, "has_not": self.not.is_some(), "has_all": self.has_all(), "form": if self.sequence_fn {"sequence()"} else {"arrow"}})
    }
}

fn gen_atom(rng: &mut Rng, step: usize, allow_ref: bool) -> Atom {
    if MIXED_ATOMS.with(|m| m.get()) && rng.chance(1, 4) {
        let op = *rng.pick(&[Op::Lt, Op::Le, Op::Gt, Op::Ge]);
        let field = *rng.pick(&[Field::X, Field::F]);
        return if allow_ref && step > 0 && rng.chance(1, 2) {
            Atom::MixedRef { field, op, step: rng.below(step) }
        } else {
            let c2 = match field {
                Field::X => rng.range(0, 7),      // 0.0, 0.5, .. 3.5
                _ => 2 * rng.range(0, 3),          // integer literal 0..3
            };
            Atom::MixedConst { field, op, c2 }
        };
    }
    let field = *rng.pick(&[Field::X, Field::X, Field::F, Field::S]);
    let op = if field == Field::S { *rng.pick(&[Op::Eq, Op::Ne]) } else { *rng.pick(&[Op::Eq, Op::Ne, Op::Lt, Op::Le, Op::Gt, Op::Ge]) };
    if allow_ref && step > 0 && rng.chance(1, 2) {
        Atom::Ref { field, op, step: rng.below(step) }
    } else {
        let c = match field {
            Field::X => rng.range(0, 3),
            Field::F => rng.range(0, 2),
            Field::S => *rng.pick(&[b'p' as i64, b'q' as i64]),
        };
        Atom::Const { field, op, c }
    }
}

fn gen_filt(rng: &mut Rng, step: usize, allow_ref: bool) -> Filt {
    match rng.below(4) {
        0 => Filt::And(gen_atom(rng, step, allow_ref), gen_atom(rng, step, allow_ref)),
        1 => Filt::Or(gen_atom(rng, step, allow_ref), gen_atom(rng, step, allow_ref)),
        _ => Filt::One(gen_atom(rng, step, allow_ref)),
    }
}

thread_local! {
    /// Whether gen_prog may generate mixed int/float ordering filters (C01 turns this on; the
    /// exactness checks C02/C04 keep well-typed comparisons so that C08/C09 corner cases stay out).
    pub static MIXED_ATOMS: std::cell::Cell<bool> = const { std::cell::Cell::new(false) };
}

pub struct GenOpts {
    pub allow_all: bool,
    pub min_steps: usize,
    pub max_steps: usize,
}

pub fn gen_prog(rng: &mut Rng, o: &GenOpts, name: &str) -> SeqProg {
    let n = o.min_steps + rng.below(o.max_steps - o.min_steps + 1);
    let sequence_fn = !o.allow_all && rng.chance(1, 3) || (o.allow_all && rng.chance(1, 6));
    let all_at = if o.allow_all && !sequence_fn && n >= 2 && rng.chance(1, 2) { Some(1 + rng.below(n - 1)) } else { None };
    let mut steps = vec![];
    for i in 0..n {
        let filter = if (i > 0 || sequence_fn) && rng.chance(3, 5) {
            // an `all` step never gets a filter that references itself here (C03's subject)
            Some(gen_filt(rng, i, true))
        } else {
            None
        };
        steps.push(Step { ty: rng.below(TYPES.len()), all: all_at == Some(i), filter });
    }
    let partitioned = rng.chance(1, 2);
    let not = if rng.chance(2, 5) {
        if rng.chance(1, 3) {
            Some(None)
        } else {
            // only constants and references to step 0 (captured when the run starts)
            let f = match gen_filt(rng, 1, true) {
                f => f,
            };
            Some(Some(f))
        }
    } else {
        None
    };
    SeqProg { steps, partitioned, key_as_string: rng.chance(1, 3), not, sequence_fn, name: name.to_string() }
}

pub fn gen_stream(rng: &mut Rng, len: usize, nkeys: usize, with_not: bool, missing_key: bool) -> Vec<GEvent> {
    let mut out = vec![];
    let mut ts = 0i64;
    for i in 0..len {
        ts += rng.range(0, 3);
        let ty = if with_not && rng.chance(1, 6) { NOT_TYPE.to_string() } else { TYPES[rng.below(TYPES.len())].to_string() };
        let key = if missing_key && rng.chance(1, 8) { None } else { Some(1 + rng.below(nkeys) as i64) };
        out.push(GEvent {
            uid: i as i64 + 1,
            ty,
            x: rng.range(0, 3),
            f2: rng.range(0, 2),
            s: *rng.pick(&[b'p', b'q']),
            key,
            ts_ms: ts,
        });
    }
    out
}

/// Reference implementation of the earliest-continuation semantics (C02). `global_not`
/// selects the (incorrect under C04) reading in which a `.not` event kills runs of every
/// partition; it is only used to *classify* a disagreement.
pub fn reference_matches(p: &SeqProg, evs: &[GEvent], global_not: bool) -> Vec<Vec<i64>> {
    assert!(!p.has_all());
    #[derive(Clone)]
    struct Run {
        next: usize,
        cap: Vec<Option<GEvent>>,
    }
    let n = p.steps.len();
    let mut runs: BTreeMap<Option<i64>, Vec<Run>> = BTreeMap::new();
    let mut out = vec![];
    for e in evs {
        let part = if p.partitioned { e.key } else { Some(0) };
        // 1. negation
        if let Some(nf) = &p.not {
            if e.ty == NOT_TYPE {
                for (k, rs) in runs.iter_mut() {
                    if !global_not && *k != part {
                        continue;
                    }
                    rs.retain(|r| !nf.as_ref().map(|f| f.eval(e, &r.cap)).unwrap_or(true));
                }
            }
        }
        // 2. advance existing runs of this partition by this event
        let rs = runs.entry(part).or_default();
        let mut i = 0;
        while i < rs.len() {
            let st = &p.steps[rs[i].next];
            let ok = TYPES[st.ty] == e.ty && st.filter.as_ref().map(|f| f.eval(e, &rs[i].cap)).unwrap_or(true);
            if ok {
                let k = rs[i].next;
                rs[i].cap[k] = Some(e.clone());
                rs[i].next += 1;
                if rs[i].next == n {
                    out.push(rs[i].cap.iter().map(|c| c.as_ref().unwrap().uid).collect());
                    rs.remove(i);
                    continue;
                }
            }
            i += 1;
        }
        // 3. the same event may start a run
        let st0 = &p.steps[0];
        let empty: Vec<Option<GEvent>> = vec![None; n];
        if TYPES[st0.ty] == e.ty && st0.filter.as_ref().map(|f| f.eval(e, &empty)).unwrap_or(true) {
            let mut cap = empty;
            cap[0] = Some(e.clone());
            if n == 1 {
                out.push(vec![e.uid]);
            } else {
                rs.push(Run { next: 1, cap });
            }
        }
    }
    out
}

/// Alternative model used only to *classify* a disagreement on 1-step `sequence(s0: T ..)`
/// programs: the run created by a start event is reported when the next event routed to the
/// stream (same type, or the negated type) arrives in its partition; the last one never is.
pub fn reference_one_step_deferred(p: &SeqProg, evs: &[GEvent]) -> Vec<Vec<i64>> {
    assert!(p.steps.len() == 1);
    let st0 = &p.steps[0];
    let mut pending: BTreeMap<Option<i64>, Vec<GEvent>> = BTreeMap::new();
    let mut out = vec![];
    for e in evs {
        let routed = e.ty == TYPES[st0.ty] || (p.not.is_some() && e.ty == NOT_TYPE);
        if !routed {
            continue;
        }
        let part = if p.partitioned { e.key } else { Some(0) };
        if let Some(nf) = &p.not {
            if e.ty == NOT_TYPE {
                for (k, rs) in pending.iter_mut() {
                    if *k != part {
                        continue;
                    }
                    rs.retain(|r| !nf.as_ref().map(|f| f.eval(e, &[Some(r.clone())])).unwrap_or(true));
                }
            }
        }
        let rs = pending.entry(part).or_default();
        for r in rs.drain(..) {
            out.push(vec![r.uid]);
        }
        if e.ty == TYPES[st0.ty] && st0.filter.as_ref().map(|f| f.eval(e, &[None])).unwrap_or(true) {
            rs.push(e.clone());
        }
    }
    out
}

/// Extract the uid tuple (u0..u{n-1}) from an emitted event.
pub fn tuple_of(e: &Event, n: usize) -> Option<Vec<i64>> {
    (0..n).map(|i| get_i(e, &format!("u{}", i))).collect()
}
