//! C29 — every API endpoint enforces its required role.
//!
//! Exhaustive matrix through the REAL warp filters (`cluster_routes`, `cluster_routes_with_raft`,
//! `raft_routes`, `api_routes`, `tenant_admin_routes`) with `warp::test`:
//! every documented route x credential kind (none, wrong, viewer, operator, admin, tenant key;
//! presented in the documented header / in both headers / only in the other header) x
//! configuration (single key, multi-key file, multi-key map, anonymous allowed with each role /
//! denied, with and without keys; CLI admin key set / unset / default tenant; Raft admin key
//! set / unset / empty string; production composition of cluster+raft routes).
//!
//! The REQUIRED access per route is not read from the route code: it is extracted at check time
//! from `docs/api/openapi.yaml` ("Requires X role", `AdminKeyAuth`, `ApiKeyAuth`, "No
//! authentication required"); the internal `/raft/*` routes come from a small table written from
//! the module documentation of `raft/routes.rs`.
//!
//! Oracle (per cell): the request is *served* (a route handler produced a reply whose status is
//! not 401/403) iff the credential grants the required access under the documented semantics of
//! the configuration; after any request that was not served the coordinator / tenant / Raft
//! snapshot is unchanged. Route enumeration is cross-checked by a path-template probe.
#[path = "../apih.rs"]
mod apih;
use apih::Routes;
use serde_json::{json, Value as J};
use std::collections::{BTreeMap, BTreeSet, HashMap};
use std::sync::Arc;
use std::time::Duration;
use tokio::sync::RwLock;
use varpulis_cluster::rbac::{ApiKeyEntry, RbacConfig, Role};
use varpulis_runtime::tenant::{SharedTenantManager, TenantId, TenantManager, TenantQuota};
use vh::*;
use warp::{Filter, Reply};

const VPL: &str = "stream A = SensorReading .where(x > 1)";
const TOKEN: &str = "zq7tok";
const TOKEN2: &str = "zq8alt";
const REQ_TIMEOUT_S: u64 = 6;

// ---------------------------------------------------------------------------
// 1. Expectation table from the documentation
// ---------------------------------------------------------------------------
#[derive(Clone, Debug, PartialEq, Eq, Hash)]
enum Need {
    Public,
    /// 0 viewer, 1 operator, 2 admin
    Role(u8),
    TenantKey,
    AdminKey,
    RaftKey,
}

impl Need {
    fn text(&self) -> String {
        match self {
            Need::Public => "public (no authentication required)".into(),
            Need::Role(r) => format!("RBAC role >= {}", ["viewer", "operator", "admin"][*r as usize]),
            Need::TenantKey => "x-api-key of an existing tenant".into(),
            Need::AdminKey => "x-admin-key equal to the configured admin key".into(),
            Need::RaftKey => "x-api-key equal to the Raft admin key when one is configured".into(),
        }
    }
}

#[derive(Clone, Copy, Debug, PartialEq, Eq, Hash, PartialOrd, Ord)]
enum Surface {
    Cluster,
    Cli,
    TenantAdmin,
    Raft,
    Root,
}

impl Surface {
    fn name(&self) -> &'static str {
        match self {
            Surface::Cluster => "cluster",
            Surface::Cli => "cli",
            Surface::TenantAdmin => "tenant-admin",
            Surface::Raft => "raft",
            Surface::Root => "root",
        }
    }
}

#[derive(Clone, Debug)]
struct Row {
    surface: Surface,
    method: String,
    /// path as documented (`{id}` placeholders)
    path: String,
    /// placeholders normalised to `{}`
    norm: String,
    need: Need,
    source: String,
}

impl Row {
    fn key(&self) -> String {
        format!("{} {}", self.method, self.path)
    }
    fn sig_route(&self) -> String {
        format!("{}:{}", self.method, self.path.trim_start_matches('/').replace('/', "."))
    }
}

fn normalise(path: &str) -> String {
    path.split('/')
        .map(|s| if s.starts_with('{') && s.ends_with('}') { "{}" } else { s })
        .collect::<Vec<_>>()
        .join("/")
}

#[derive(Debug, Clone)]
struct Op {
    path: String,
    method: String,
    line: usize,
    description: String,
    security: Option<Vec<String>>,
}

fn indent_of(l: &str) -> usize {
    l.len() - l.trim_start_matches(' ').len()
}

fn unquote(s: &str) -> String {
    let t = s.trim();
    if t.len() >= 2 && ((t.starts_with('"') && t.ends_with('"')) || (t.starts_with('\'') && t.ends_with('\''))) {
        t[1..t.len() - 1].to_string()
    } else {
        t.to_string()
    }
}

/// Minimal line-based extraction of (path, method, description, security) from the OpenAPI file.
fn parse_openapi(txt: &str) -> (Vec<Op>, Option<Vec<String>>) {
    const METHODS: &[&str] = &["get", "post", "put", "delete", "patch", "head", "options", "trace"];
    let mut ops: Vec<Op> = vec![];
    let mut global: Option<Vec<String>> = None;
    let mut in_paths = false;
    let mut cur_path = String::new();
    let mut cur: Option<usize> = None;
    // collection modes: 0 none, 1 op description, 2 op security, 3 global security
    let mut mode = 0u8;
    let mut mode_indent = 0usize;
    for (ln, raw) in txt.lines().enumerate() {
        let line = raw.trim_end();
        let t = line.trim();
        if t.is_empty() || t.starts_with('#') {
            continue;
        }
        let ind = indent_of(line);
        if mode != 0 {
            if ind > mode_indent {
                match mode {
                    1 => {
                        if let Some(i) = cur {
                            ops[i].description.push(' ');
                            ops[i].description.push_str(t);
                        }
                    }
                    2 | 3 => {
                        if let Some(rest) = t.strip_prefix("- ") {
                            let name = rest.split(':').next().unwrap_or("").trim().to_string();
                            if !name.is_empty() && name != "{}" {
                                if mode == 2 {
                                    if let Some(i) = cur {
                                        ops[i].security.get_or_insert_with(Vec::new).push(name);
                                    }
                                } else {
                                    global.get_or_insert_with(Vec::new).push(name);
                                }
                            }
                        }
                    }
                    _ => {}
                }
                continue;
            }
            mode = 0;
        }
        if ind == 0 {
            in_paths = t == "paths:";
            cur = None;
            if let Some(v) = t.strip_prefix("security:") {
                global = Some(vec![]);
                if v.trim() != "[]" {
                    mode = 3;
                    mode_indent = 0;
                }
            }
            continue;
        }
        if !in_paths {
            continue;
        }
        if ind == 2 {
            cur = None;
            if t.ends_with(':') {
                let p = unquote(&t[..t.len() - 1]);
                if p.starts_with('/') {
                    cur_path = p;
                } else {
                    cur_path.clear();
                }
            }
            continue;
        }
        if ind == 4 {
            cur = None;
            if let Some(m) = t.strip_suffix(':') {
                if METHODS.contains(&m) && !cur_path.is_empty() {
                    ops.push(Op { path: cur_path.clone(), method: m.to_uppercase(), line: ln + 1, description: String::new(), security: None });
                    cur = Some(ops.len() - 1);
                }
            }
            continue;
        }
        if ind == 6 {
            if let Some(i) = cur {
                if let Some(v) = t.strip_prefix("description:") {
                    let v = v.trim();
                    if v.starts_with('|') || v.starts_with('>') {
                        ops[i].description.clear();
                    } else {
                        ops[i].description = unquote(v);
                    }
                    mode = 1;
                    mode_indent = 6;
                } else if let Some(v) = t.strip_prefix("security:") {
                    ops[i].security = Some(vec![]);
                    if v.trim() != "[]" {
                        mode = 2;
                        mode_indent = 6;
                    }
                }
            }
        }
    }
    (ops, global)
}

fn raft_doc_table() -> Vec<Row> {
    // From the module documentation of crates/varpulis-cluster/src/raft/routes.rs:
    // "When `admin_key` is Some, all mutating Raft endpoints require the `x-api-key` header.
    //  The `/raft/metrics` endpoint stays unauthenticated (read-only, useful for monitoring)."
    let mut v = vec![];
    for p in ["vote", "append", "snapshot", "init", "add-learner", "change-membership"] {
        let path = format!("/raft/{}", p);
        v.push(Row { surface: Surface::Raft, method: "POST".into(), norm: path.clone(), path, need: Need::RaftKey, source: "harness table from raft/routes.rs module doc (mutating Raft endpoint)".into() });
    }
    v.push(Row { surface: Surface::Raft, method: "GET".into(), path: "/raft/metrics".into(), norm: "/raft/metrics".into(), need: Need::Public, source: "harness table from raft/routes.rs module doc (/raft/metrics stays unauthenticated)".into() });
    v
}

/// Build the expectation table; returns (rows, unclassified operations).
fn build_table(ops: &[Op], global: &Option<Vec<String>>) -> (Vec<Row>, Vec<String>) {
    let mut rows = vec![];
    let mut unclassified = vec![];
    for op in ops {
        let sec: Vec<String> = match (&op.security, global) {
            (Some(s), _) => s.clone(),
            (None, Some(g)) => g.clone(),
            (None, None) => vec![],
        };
        let roles: Vec<u8> = ["Viewer", "Operator", "Admin"]
            .iter()
            .enumerate()
            .filter(|(_, r)| op.description.contains(&format!("Requires {} role", r)))
            .map(|(i, _)| i as u8)
            .collect();
        let cluster = op.path.starts_with("/api/v1/cluster/") || op.path == "/api/v1/cluster";
        let public_doc = op.description.contains("No authentication required");
        let need = if sec.iter().any(|s| s == "AdminKeyAuth") && sec.len() == 1 && roles.is_empty() {
            Some(Need::AdminKey)
        } else if sec == ["ApiKeyAuth".to_string()] {
            if roles.len() == 1 && cluster {
                Some(Need::Role(roles[0]))
            } else if roles.is_empty() && !cluster {
                Some(Need::TenantKey)
            } else {
                None
            }
        } else if sec.is_empty() && roles.is_empty() && public_doc {
            Some(Need::Public)
        } else {
            None
        };
        let surface = if cluster {
            Some(Surface::Cluster)
        } else if op.path == "/api/v1/tenants" || op.path.starts_with("/api/v1/tenants/") {
            Some(Surface::TenantAdmin)
        } else if op.path.starts_with("/api/v1/") {
            Some(Surface::Cli)
        } else if op.path == "/health" || op.path == "/ready" {
            Some(Surface::Root)
        } else {
            None
        };
        match (need, surface) {
            (Some(need), Some(surface)) => rows.push(Row {
                surface,
                method: op.method.clone(),
                path: op.path.clone(),
                norm: normalise(&op.path),
                need,
                source: format!("docs/api/openapi.yaml:{} security={:?} description={:?}", op.line, sec, op.description.chars().take(160).collect::<String>()),
            }),
            _ => unclassified.push(format!("{} {} (openapi.yaml:{}, security={:?})", op.method, op.path, op.line, sec)),
        }
    }
    (rows, unclassified)
}

// ---------------------------------------------------------------------------
// 2. Reference model of the documented credential semantics
// ---------------------------------------------------------------------------
#[derive(Clone, Debug, Default)]
struct Model {
    /// cluster RBAC: registered keys with role, anonymous role if anonymous access is allowed
    rbac_keys: Vec<(String, u8)>,
    rbac_anon: Option<u8>,
    /// CLI: configured admin key and the api keys of existing tenants
    cli_admin: Option<String>,
    tenant_keys: Vec<String>,
    /// Raft admin key
    raft_key: Option<String>,
}

#[derive(Clone, Copy, Debug, PartialEq, Eq)]
enum Exp {
    Serve,
    Reject,
    /// documentation leaves both outcomes open (unknown key while anonymous access would suffice)
    Either,
}

#[derive(Clone, Debug, Default)]
struct Pres {
    api: Option<String>,
    admin: Option<String>,
    bearer: Option<String>,
}

/// `flip` perturbs the reference (self-test of the oracle only).
fn expect(need: &Need, m: &Model, p: &Pres, flip: &str) -> Exp {
    let b = |x: bool| if x { Exp::Serve } else { Exp::Reject };
    match need {
        Need::Public => Exp::Serve,
        Need::Role(r) => {
            let r = if flip == "lower-role" && *r > 0 { *r - 1 } else { *r };
            let ok = |have: u8| if flip == "gt" { have > r } else { have >= r };
            match &p.api {
                Some(k) => {
                    if let Some((_, role)) = m.rbac_keys.iter().find(|(kk, _)| kk == k) {
                        b(ok(*role))
                    } else if m.rbac_keys.is_empty() {
                        // "disabled": no keys configured and anonymous allowed = no authentication
                        b(m.rbac_anon.map(ok).unwrap_or(false))
                    } else {
                        match m.rbac_anon {
                            Some(a) if ok(a) => Exp::Either,
                            _ => Exp::Reject,
                        }
                    }
                }
                None => b(m.rbac_anon.map(ok).unwrap_or(false)),
            }
        }
        Need::TenantKey => b(p.api.as_ref().map(|k| m.tenant_keys.iter().any(|t| t == k)).unwrap_or(false)),
        Need::AdminKey => b(match (&m.cli_admin, &p.admin) {
            (Some(c), Some(k)) => c == k,
            _ => false,
        }),
        Need::RaftKey => match &m.raft_key {
            None => b(flip != "raft-closed"),
            Some(k) => b(p.api.as_ref() == Some(k) || (flip == "raft-empty-open" && k.is_empty())),
        },
    }
}

#[derive(Clone, Debug)]
struct Cred {
    kind: &'static str,
    variant: String,
    value: Option<String>,
    /// all three presentation modes (documented header / both / other header only)?
    all_modes: bool,
}

const MODES: &[&str] = &["doc-header", "both-headers", "other-header"];

fn present(need: &Need, cred: &Cred, mode: &str) -> Pres {
    let v = match &cred.value {
        None => return Pres::default(),
        Some(v) => v.clone(),
    };
    let doc_is_admin = *need == Need::AdminKey;
    match mode {
        "doc-header" => {
            if doc_is_admin {
                Pres { admin: Some(v), ..Default::default() }
            } else {
                Pres { api: Some(v), ..Default::default() }
            }
        }
        "both-headers" => Pres { api: Some(v.clone()), admin: Some(v.clone()), bearer: Some(v) },
        _ => {
            if doc_is_admin {
                Pres { api: Some(v.clone()), bearer: Some(v), ..Default::default() }
            } else {
                Pres { admin: Some(v.clone()), bearer: Some(v), ..Default::default() }
            }
        }
    }
}

struct Keys {
    viewer: String,
    operator: String,
    admin: String,
    admin2: String,
    tenant1: String,
    tenant2: String,
    cli_admin: String,
    raft: String,
}

fn make_keys(rng: &mut Rng) -> Keys {
    let mut k = |p: &str| format!("{}-{:012x}", p, rng.next_u64() & 0xffff_ffff_ffff);
    Keys { viewer: k("Vkey"), operator: k("Okey"), admin: k("Akey"), admin2: k("A2key"), tenant1: k("T1key"), tenant2: k("T2key"), cli_admin: k("CLIadm"), raft: k("Rkey") }
}

/// Credential list for a fixture; `admin` is the value meant by "admin credential" on that surface.
fn creds(keys: &Keys, admin: &str, extra: &[(&'static str, String)]) -> Vec<Cred> {
    let mut v = vec![Cred { kind: "none", variant: "none".into(), value: None, all_modes: false }];
    let wrongs: Vec<(String, String)> = vec![
        ("unknown".into(), format!("nope-{}", &keys.admin2[6..])),
        ("empty".into(), String::new()),
        ("admin+suffix".into(), format!("{}x", admin)),
        ("admin-prefix".into(), admin[..admin.len().saturating_sub(1)].to_string()),
        ("admin-uppercase".into(), admin.to_uppercase()),
    ];
    for (i, (n, val)) in wrongs.into_iter().enumerate() {
        if val == admin {
            continue;
        }
        v.push(Cred { kind: "wrong", variant: n, value: Some(val), all_modes: i == 0 });
    }
    v.push(Cred { kind: "viewer", variant: "cluster viewer key".into(), value: Some(keys.viewer.clone()), all_modes: true });
    v.push(Cred { kind: "operator", variant: "cluster operator key".into(), value: Some(keys.operator.clone()), all_modes: true });
    v.push(Cred { kind: "admin", variant: "admin key of this surface".into(), value: Some(admin.to_string()), all_modes: true });
    v.push(Cred { kind: "tenant", variant: "api key of tenant T1".into(), value: Some(keys.tenant1.clone()), all_modes: true });
    for (kind, val) in extra {
        v.push(Cred { kind, variant: (*kind).to_string(), value: Some(val.clone()), all_modes: true });
    }
    v
}

// ---------------------------------------------------------------------------
// 3. Request shapes (one realisation per documented route)
// ---------------------------------------------------------------------------
/// (method, normalised template, concrete path, body) with `$VARS` filled from the fixture.
fn shapes() -> Vec<(&'static str, &'static str, &'static str, Option<&'static str>)> {
    let c = "/api/v1/cluster";
    let _ = c;
    vec![
        ("POST", "/api/v1/cluster/workers/register", "/api/v1/cluster/workers/register", Some(r#"{"worker_id":"w-new","address":"http://127.0.0.1:1","api_key":"wk-new","capacity":{"cpu_cores":2,"pipelines_running":0,"max_pipelines":10}}"#)),
        ("POST", "/api/v1/cluster/workers/{}/heartbeat", "/api/v1/cluster/workers/w1/heartbeat", Some(r#"{"events_processed":5,"pipelines_running":0}"#)),
        ("GET", "/api/v1/cluster/workers", "/api/v1/cluster/workers", None),
        ("GET", "/api/v1/cluster/workers/{}", "/api/v1/cluster/workers/w1", None),
        ("DELETE", "/api/v1/cluster/workers/{}", "/api/v1/cluster/workers/w2", None),
        ("POST", "/api/v1/cluster/workers/{}/drain", "/api/v1/cluster/workers/w1/drain", Some(r#"{"timeout_secs":1}"#)),
        ("POST", "/api/v1/cluster/pipeline-groups", "/api/v1/cluster/pipeline-groups", Some(r#"{"name":"g-new","pipelines":[{"name":"p1","source":"$VPL"}]}"#)),
        ("GET", "/api/v1/cluster/pipeline-groups", "/api/v1/cluster/pipeline-groups", None),
        ("GET", "/api/v1/cluster/pipeline-groups/{}", "/api/v1/cluster/pipeline-groups/g1", None),
        ("DELETE", "/api/v1/cluster/pipeline-groups/{}", "/api/v1/cluster/pipeline-groups/g1", None),
        ("POST", "/api/v1/cluster/pipeline-groups/{}/inject", "/api/v1/cluster/pipeline-groups/g1/inject", Some(r#"{"event_type":"SensorReading","fields":{"x":5}}"#)),
        ("POST", "/api/v1/cluster/pipeline-groups/{}/inject-batch", "/api/v1/cluster/pipeline-groups/g1/inject-batch", Some(r#"{"events_text":"SensorReading { x: 5 }"}"#)),
        ("GET", "/api/v1/cluster/topology", "/api/v1/cluster/topology", None),
        ("POST", "/api/v1/cluster/validate", "/api/v1/cluster/validate", Some(r#"{"source":"$VPL"}"#)),
        ("POST", "/api/v1/cluster/rebalance", "/api/v1/cluster/rebalance", None),
        ("GET", "/api/v1/cluster/migrations", "/api/v1/cluster/migrations", None),
        ("GET", "/api/v1/cluster/migrations/{}", "/api/v1/cluster/migrations/mig1", None),
        ("POST", "/api/v1/cluster/pipelines/{}/{}/migrate", "/api/v1/cluster/pipelines/g1/p1/migrate", Some(r#"{"target_worker_id":"w2"}"#)),
        ("GET", "/api/v1/cluster/connectors", "/api/v1/cluster/connectors", None),
        ("POST", "/api/v1/cluster/connectors", "/api/v1/cluster/connectors", Some(r#"{"name":"c-new","connector_type":"mqtt","params":{"url":"tcp://127.0.0.1:1883","topic":"t"}}"#)),
        ("GET", "/api/v1/cluster/connectors/{}", "/api/v1/cluster/connectors/c1", None),
        ("PUT", "/api/v1/cluster/connectors/{}", "/api/v1/cluster/connectors/c1", Some(r#"{"name":"c1","connector_type":"mqtt","params":{"url":"tcp://127.0.0.1:1884","topic":"t2"}}"#)),
        ("DELETE", "/api/v1/cluster/connectors/{}", "/api/v1/cluster/connectors/c1", None),
        ("GET", "/api/v1/cluster/metrics", "/api/v1/cluster/metrics", None),
        ("GET", "/api/v1/cluster/prometheus", "/api/v1/cluster/prometheus", None),
        ("GET", "/api/v1/cluster/scaling", "/api/v1/cluster/scaling", None),
        ("GET", "/api/v1/cluster/summary", "/api/v1/cluster/summary", None),
        ("GET", "/api/v1/cluster/raft", "/api/v1/cluster/raft", None),
        ("GET", "/api/v1/cluster/models", "/api/v1/cluster/models", None),
        ("POST", "/api/v1/cluster/models", "/api/v1/cluster/models", Some(r#"{"name":"m-new","inputs":["a"],"outputs":["b"],"data_base64":""}"#)),
        ("DELETE", "/api/v1/cluster/models/{}", "/api/v1/cluster/models/m1", None),
        ("GET", "/api/v1/cluster/models/{}/download", "/api/v1/cluster/models/m1/download", None),
        ("POST", "/api/v1/cluster/chat", "/api/v1/cluster/chat", Some(r#"{"messages":[{"role":"user","content":"hi"}]}"#)),
        ("GET", "/api/v1/cluster/chat/config", "/api/v1/cluster/chat/config", None),
        ("PUT", "/api/v1/cluster/chat/config", "/api/v1/cluster/chat/config", Some(r#"{"endpoint":"http://127.0.0.1:1/v1","model":"m","provider":"openai-compatible"}"#)),
        // SaaS
        ("POST", "/api/v1/pipelines", "/api/v1/pipelines", Some(r#"{"name":"p-new","source":"$VPL"}"#)),
        ("GET", "/api/v1/pipelines", "/api/v1/pipelines", None),
        ("GET", "/api/v1/pipelines/{}", "/api/v1/pipelines/$P1", None),
        ("DELETE", "/api/v1/pipelines/{}", "/api/v1/pipelines/$P2", None),
        ("POST", "/api/v1/pipelines/{}/events", "/api/v1/pipelines/$P1/events", Some(r#"{"event_type":"SensorReading","fields":{"x":5}}"#)),
        ("POST", "/api/v1/pipelines/{}/events-batch", "/api/v1/pipelines/$P1/events-batch", Some(r#"{"events":[{"event_type":"SensorReading","fields":{"x":7}}]}"#)),
        ("POST", "/api/v1/pipelines/{}/checkpoint", "/api/v1/pipelines/$P1/checkpoint", None),
        ("POST", "/api/v1/pipelines/{}/restore", "/api/v1/pipelines/$P1/restore", Some("$RESTORE")),
        ("GET", "/api/v1/pipelines/{}/metrics", "/api/v1/pipelines/$P1/metrics", None),
        ("POST", "/api/v1/pipelines/{}/reload", "/api/v1/pipelines/$P1/reload", Some(r#"{"source":"$VPL"}"#)),
        ("GET", "/api/v1/pipelines/{}/logs", "/api/v1/pipelines/$P1/logs", None),
        ("GET", "/api/v1/usage", "/api/v1/usage", None),
        ("POST", "/api/v1/tenants", "/api/v1/tenants", Some(r#"{"name":"t-new"}"#)),
        ("GET", "/api/v1/tenants", "/api/v1/tenants", None),
        ("GET", "/api/v1/tenants/{}", "/api/v1/tenants/$T2", None),
        ("DELETE", "/api/v1/tenants/{}", "/api/v1/tenants/$T2", None),
        // Raft (bodies built from the real openraft types, see raft_bodies)
        ("POST", "/raft/vote", "/raft/vote", Some("$RAFT_VOTE")),
        ("POST", "/raft/append", "/raft/append", Some("$RAFT_APPEND")),
        ("POST", "/raft/init", "/raft/init", Some("$RAFT_INIT")),
        ("POST", "/raft/add-learner", "/raft/add-learner", Some("$RAFT_LEARNER")),
        ("POST", "/raft/change-membership", "/raft/change-membership", Some("$RAFT_MEMBERS")),
        ("POST", "/raft/snapshot", "/raft/snapshot", Some("$RAFT_SNAPSHOT")),
        ("GET", "/raft/metrics", "/raft/metrics", None),
    ]
}

fn subst(s: &str, vars: &BTreeMap<String, String>) -> String {
    let mut out = s.to_string();
    // longest names first so that $P1 does not clobber a longer variable
    let mut names: Vec<&String> = vars.keys().collect();
    names.sort_by_key(|n| std::cmp::Reverse(n.len()));
    for n in names {
        out = out.replace(&format!("${}", n), &vars[n]);
    }
    out
}

fn raft_bodies(node_id: u64, vars: &mut BTreeMap<String, String>) {
    use openraft::raft::{AppendEntriesRequest, InstallSnapshotRequest, VoteRequest};
    use openraft::{CommittedLeaderId, LogId, SnapshotMeta, StoredMembership, Vote};
    use varpulis_cluster::raft::TypeConfig;
    // "hot" bodies: a vote / append / snapshot of a far higher term would change the node's vote
    let vote: VoteRequest<u64> = VoteRequest::new(Vote::new(50, 7), Some(LogId::new(CommittedLeaderId::new(50, 7), 999)));
    let append: AppendEntriesRequest<TypeConfig> = AppendEntriesRequest { vote: Vote::new_committed(60, 7), prev_log_id: None, entries: vec![], leader_commit: None };
    let snap: InstallSnapshotRequest<TypeConfig> = InstallSnapshotRequest {
        vote: Vote::new_committed(70, 7),
        meta: SnapshotMeta { last_log_id: Some(LogId::new(CommittedLeaderId::new(70, 7), 500)), last_membership: StoredMembership::default(), snapshot_id: "c29-hostile".into() },
        offset: 0,
        data: vec![1, 2, 3],
        done: false,
    };
    vars.insert("RAFT_VOTE".into(), serde_json::to_string(&vote).unwrap_or_default());
    vars.insert("RAFT_APPEND".into(), serde_json::to_string(&append).unwrap_or_default());
    vars.insert("RAFT_SNAPSHOT".into(), serde_json::to_string(&snap).unwrap_or_default());
    vars.insert("RAFT_INIT".into(), format!(r#"{{"members":{{"{}":"http://127.0.0.1:1"}}}}"#, node_id));
    // own id: openraft returns without waiting for replication to an unreachable learner
    vars.insert("RAFT_LEARNER".into(), format!(r#"{{"node_id":{},"addr":"http://127.0.0.1:1"}}"#, node_id));
    vars.insert("RAFT_MEMBERS".into(), format!(r#"{{"members":[{}]}}"#, node_id));
}

// ---------------------------------------------------------------------------
// 4. Firing a request at the real filters and classifying what happened
// ---------------------------------------------------------------------------
#[derive(Clone, Copy, Debug, PartialEq, Eq)]
enum Recover {
    Cluster,
    Cli,
}

#[derive(Clone, Debug, PartialEq, Eq)]
enum Obs {
    /// a handler replied with a status other than 401/403
    Served,
    /// refused for authentication/authorisation (401/403 reply, auth rejection, unhandled custom rejection)
    Denied,
    /// no handler ran for another reason (404/405/400...): not served, auth decision not observable
    NotServed,
    Timeout,
}

struct Fired {
    obs: Obs,
    status: u16,
    via: &'static str,
    detail: String,
}

async fn fire(routes: &Routes, recover: Recover, method: &str, path: &str, p: &Pres, body: Option<&str>) -> Fired {
    let mut rb = warp::test::request().method(method).path(path);
    if let Some(v) = &p.api {
        rb = rb.header("x-api-key", v.as_str());
    }
    if let Some(v) = &p.admin {
        rb = rb.header("x-admin-key", v.as_str());
    }
    if let Some(v) = &p.bearer {
        rb = rb.header("authorization", format!("Bearer {}", v));
    }
    if let Some(b) = body {
        rb = rb.header("content-type", "application/json").body(b.as_bytes());
    }
    let res = match tokio::time::timeout(Duration::from_secs(REQ_TIMEOUT_S), rb.filter(routes)).await {
        Ok(r) => r,
        Err(_) => return Fired { obs: Obs::Timeout, status: 0, via: "timeout", detail: String::new() },
    };
    match res {
        Ok(resp) => {
            let status = resp.status().as_u16();
            let ct = resp.headers().get("content-type").and_then(|v| v.to_str().ok()).unwrap_or("").to_string();
            let detail = if ct.starts_with("text/event-stream") {
                "<event stream opened>".to_string()
            } else {
                match tokio::time::timeout(Duration::from_secs(2), warp::hyper::body::to_bytes(resp.into_body())).await {
                    Ok(Ok(b)) => String::from_utf8_lossy(&b).chars().take(240).collect(),
                    _ => "<body not read>".into(),
                }
            };
            let obs = if status == 401 || status == 403 { Obs::Denied } else { Obs::Served };
            Fired { obs, status, via: "handler reply", detail }
        }
        Err(rej) => {
            let dbg: String = format!("{:?}", rej).chars().take(240).collect();
            let shape_500 = rej.find::<warp::reject::LengthRequired>().is_some() || rej.find::<warp::reject::InvalidHeader>().is_some();
            let status = match recover {
                Recover::Cluster => varpulis_cluster::api::handle_rejection(rej).await.map(|r| r.into_response().status().as_u16()).unwrap_or(0),
                Recover::Cli => varpulis_cli::auth::handle_rejection(rej).await.map(|r| r.into_response().status().as_u16()).unwrap_or(0),
            };
            let obs = if status == 401 || status == 403 || (status == 500 && !shape_500) { Obs::Denied } else { Obs::NotServed };
            Fired { obs, status, via: "filter rejection (status = what the production recover handler answers)", detail: dbg }
        }
    }
}

fn boxed<F, R>(f: F) -> Routes
where
    F: Filter<Extract = (R,), Error = warp::Rejection> + Clone + Send + Sync + 'static,
    R: Reply + 'static,
{
    f.map(|r: R| Reply::into_response(r)).boxed()
}

// ---------------------------------------------------------------------------
// 5. Fixtures: real filters over real state
// ---------------------------------------------------------------------------
type SharedCoord = varpulis_cluster::api::SharedCoordinator;
type RaftPair = (Arc<varpulis_cluster::raft::VarpulisRaft>, varpulis_cluster::raft::store::SharedCoordinatorState);

struct Fixture {
    /// which public constructor built the filter
    composition: &'static str,
    /// configuration kind (signature component)
    config: String,
    describe: J,
    routes: Routes,
    recover: Recover,
    model: Model,
    creds: Vec<Cred>,
    vars: BTreeMap<String, String>,
    /// path prefixes of the table rows this filter serves
    serves: Vec<&'static str>,
    coord: Option<SharedCoord>,
    mgr: Option<SharedTenantManager>,
    raft: Option<RaftPair>,
    deep: bool,
    _tmp: Option<tempfile::TempDir>,
}

impl Fixture {
    fn serves_row(&self, r: &Row) -> bool {
        self.serves.iter().any(|p| r.path.starts_with(p)) && !(self.serves.contains(&"/api/v1/") && r.path.starts_with("/api/v1/cluster"))
    }

    async fn snapshot(&self) -> J {
        let mut o = serde_json::Map::new();
        if let Some(c) = &self.coord {
            o.insert("coordinator".into(), coord_snapshot(c).await);
        }
        if let Some(m) = &self.mgr {
            let ids: Vec<TenantId> = {
                let g = m.read().await;
                let mut v: Vec<TenantId> = g.list_tenants().iter().map(|t| t.id.clone()).collect();
                v.sort_by(|a, b| a.as_str().cmp(b.as_str()));
                v
            };
            let mut ts = serde_json::Map::new();
            for id in &ids {
                ts.insert(id.as_str().to_string(), apih::tenant_snapshot(m, id, self.deep).await);
            }
            o.insert("tenants".into(), J::Object(ts));
        }
        if let Some((raft, shared)) = &self.raft {
            o.insert("raft".into(), raft_snapshot(raft, shared));
        }
        J::Object(o)
    }
}

fn dbg_map<K: std::fmt::Debug, V: std::fmt::Debug>(m: &HashMap<K, V>) -> J {
    let mut b: BTreeMap<String, String> = BTreeMap::new();
    for (k, v) in m {
        b.insert(format!("{:?}", k), format!("{:?}", v));
    }
    json!(b)
}

async fn coord_snapshot(c: &SharedCoord) -> J {
    let c = c.read().await;
    let mut workers: BTreeMap<String, J> = BTreeMap::new();
    for (id, w) in &c.workers {
        workers.insert(
            id.0.clone(),
            json!({"address": w.address, "api_key": w.api_key, "status": format!("{:?}", w.status), "capacity": format!("{:?}", w.capacity),
                   "last_heartbeat": format!("{:?}", w.last_heartbeat), "assigned_pipelines": w.assigned_pipelines, "events_processed": w.events_processed}),
        );
    }
    json!({
        "workers": workers,
        "pipeline_groups": dbg_map(&c.pipeline_groups),
        "connectors": dbg_map(&c.connectors),
        "worker_metrics": dbg_map(&c.worker_metrics),
        "active_migrations": dbg_map(&c.active_migrations),
        "pending_rebalance": c.pending_rebalance,
        "last_health_sweep": format!("{:?}", c.last_health_sweep),
        "scaling_policy": format!("{:?}", c.scaling_policy),
        "last_scaling_recommendation": format!("{:?}", c.last_scaling_recommendation),
        "heartbeat_interval": format!("{:?}", c.heartbeat_interval),
        "heartbeat_timeout": format!("{:?}", c.heartbeat_timeout),
        "ha_role": format!("{:?}", c.ha_role),
        "model_registry": dbg_map(&c.model_registry),
        "llm_config": format!("{:?}", c.llm_config),
        "has_raft_handle": c.raft_handle.is_some(),
    })
}

fn raft_snapshot(raft: &varpulis_cluster::raft::VarpulisRaft, shared: &varpulis_cluster::raft::store::SharedCoordinatorState) -> J {
    let m = raft.metrics().borrow().clone();
    let st = match shared.read() {
        Ok(g) => serde_json::to_value(&*g).unwrap_or(J::Null),
        Err(e) => serde_json::to_value(&*e.into_inner()).unwrap_or(J::Null),
    };
    json!({
        "id": m.id,
        "running_state": format!("{:?}", m.running_state),
        "state": format!("{:?}", m.state),
        "current_term": m.current_term,
        "vote": format!("{:?}", m.vote),
        "last_log_index": m.last_log_index,
        "last_applied": format!("{:?}", m.last_applied),
        "snapshot": format!("{:?}", m.snapshot),
        "purged": format!("{:?}", m.purged),
        "current_leader": m.current_leader,
        "membership": format!("{:?}", m.membership_config),
        "replicated_state": st,
    })
}

#[derive(Clone, Copy, Debug, PartialEq, Eq)]
enum RbacKind {
    SingleKey,
    MultiKeyFile,
    MultiKeyMap,
    AnonViewerKeys,
    AnonOperatorKeys,
    AnonAdminKeys,
    Disabled,
    AnonViewerNoKeys,
    AnonOperatorNoKeys,
    AnonDeniedNoKeys,
    FileNoAdmin,
    FileTwoAdmins,
}

impl RbacKind {
    fn name(&self) -> &'static str {
        match self {
            RbacKind::SingleKey => "single-key",
            RbacKind::MultiKeyFile => "multi-key-file",
            RbacKind::MultiKeyMap => "multi-key",
            RbacKind::AnonViewerKeys => "anon-viewer+keys",
            RbacKind::AnonOperatorKeys => "anon-operator+keys",
            RbacKind::AnonAdminKeys => "anon-admin+keys",
            RbacKind::Disabled => "disabled",
            RbacKind::AnonViewerNoKeys => "anon-viewer-nokeys",
            RbacKind::AnonOperatorNoKeys => "anon-operator-nokeys",
            RbacKind::AnonDeniedNoKeys => "anon-denied-nokeys",
            RbacKind::FileNoAdmin => "multi-key-file-no-admin",
            RbacKind::FileTwoAdmins => "multi-key-file-two-admins",
        }
    }
}

fn role_name(r: u8) -> &'static str {
    ["viewer", "operator", "admin"][r as usize % 3]
}

fn role_of(r: u8) -> Role {
    match r {
        0 => Role::Viewer,
        1 => Role::Operator,
        _ => Role::Admin,
    }
}

/// Real RbacConfig through the public constructors + the harness' own description of it.
fn build_rbac(kind: RbacKind, k: &Keys, dir: &std::path::Path) -> Result<(RbacConfig, Vec<(String, u8)>, Option<u8>, J), String> {
    let three = vec![(k.viewer.clone(), 0u8), (k.operator.clone(), 1u8), (k.admin.clone(), 2u8)];
    let to_map = |ks: &[(String, u8)]| -> HashMap<String, ApiKeyEntry> { ks.iter().map(|(key, r)| (key.clone(), ApiKeyEntry { role: role_of(*r), name: Some(format!("k{}", r)) })).collect() };
    let file = |ks: &[(String, u8)]| -> Result<RbacConfig, String> {
        let entries: Vec<J> = ks.iter().map(|(key, r)| json!({"key": key, "role": role_name(*r), "name": format!("k{}", r)})).collect();
        let p = dir.join("keys.json");
        std::fs::write(&p, json!({"keys": entries}).to_string()).map_err(|e| e.to_string())?;
        RbacConfig::from_file(&p)
    };
    let (cfg, keys, anon, how): (RbacConfig, Vec<(String, u8)>, Option<u8>, &str) = match kind {
        RbacKind::SingleKey => (RbacConfig::single_key(k.admin.clone()), vec![(k.admin.clone(), 2)], None, "RbacConfig::single_key(admin)"),
        RbacKind::MultiKeyFile => (file(&three)?, three.clone(), None, "RbacConfig::from_file({viewer,operator,admin})"),
        RbacKind::MultiKeyMap => (RbacConfig::multi_key(to_map(&three)), three.clone(), None, "RbacConfig::multi_key({viewer,operator,admin})"),
        RbacKind::AnonViewerKeys | RbacKind::AnonOperatorKeys | RbacKind::AnonAdminKeys => {
            let a = match kind {
                RbacKind::AnonViewerKeys => 0,
                RbacKind::AnonOperatorKeys => 1,
                _ => 2,
            };
            let mut c = RbacConfig::multi_key(to_map(&three));
            c.allow_anonymous = true;
            c.anonymous_role = role_of(a);
            (c, three.clone(), Some(a), "RbacConfig::multi_key({viewer,operator,admin}) + allow_anonymous=true, anonymous_role")
        }
        RbacKind::Disabled => (RbacConfig::disabled(), vec![], Some(2), "RbacConfig::disabled()"),
        RbacKind::AnonViewerNoKeys | RbacKind::AnonOperatorNoKeys => {
            let a = if kind == RbacKind::AnonViewerNoKeys { 0 } else { 1 };
            let mut c = RbacConfig::disabled();
            c.anonymous_role = role_of(a);
            (c, vec![], Some(a), "RbacConfig::disabled() + anonymous_role")
        }
        RbacKind::AnonDeniedNoKeys => (RbacConfig::multi_key(HashMap::new()), vec![], None, "RbacConfig::multi_key({})"),
        RbacKind::FileNoAdmin => {
            let two = vec![(k.viewer.clone(), 0u8), (k.operator.clone(), 1u8)];
            (file(&two)?, two, None, "RbacConfig::from_file({viewer,operator})")
        }
        RbacKind::FileTwoAdmins => {
            let four = vec![(k.viewer.clone(), 0u8), (k.operator.clone(), 1u8), (k.admin.clone(), 2u8), (k.admin2.clone(), 2u8)];
            (file(&four)?, four, None, "RbacConfig::from_file({viewer,operator,admin,admin2})")
        }
    };
    let d = json!({"rbac": how, "keys": keys.iter().map(|(key, r)| json!({"key": key, "role": role_name(*r)})).collect::<Vec<_>>(), "anonymous_role": anon.map(role_name)});
    Ok((cfg, keys, anon, d))
}

fn seeded_coordinator(raft: Option<(&RaftPair, Option<String>)>) -> varpulis_cluster::coordinator::Coordinator {
    use varpulis_cluster::coordinator::Coordinator;
    use varpulis_cluster::pipeline_group::{DeployedPipelineGroup, PipelineGroupSpec, PipelinePlacement};
    use varpulis_cluster::worker::{WorkerId, WorkerNode};
    let mut c = match raft {
        Some(((r, s), key)) => {
            let mut peers = BTreeMap::new();
            peers.insert(1u64, "http://127.0.0.1:1".to_string());
            Coordinator::with_raft(r.clone(), s.clone(), peers, key)
        }
        None => Coordinator::new(),
    };
    c.register_worker(WorkerNode::new(WorkerId("w1".into()), "http://127.0.0.1:1".into(), "wk1".into()));
    c.register_worker(WorkerNode::new(WorkerId("w2".into()), "http://127.0.0.1:1".into(), "wk2".into()));
    let mut params = HashMap::new();
    params.insert("url".to_string(), "tcp://127.0.0.1:1883".to_string());
    params.insert("topic".to_string(), "t".to_string());
    c.connectors.insert("c1".into(), varpulis_cluster::ClusterConnector { name: "c1".into(), connector_type: "mqtt".into(), params, description: None });
    c.model_registry.insert(
        "m1".into(),
        varpulis_cluster::model_registry::ModelRegistryEntry { name: "m1".into(), s3_key: "models/m1.onnx".into(), format: "onnx".into(), inputs: vec!["a".into()], outputs: vec!["b".into()], size_bytes: 3, uploaded_at: "2026-01-01T00:00:00Z".into(), description: String::new() },
    );
    let spec = PipelineGroupSpec { name: "g1".into(), pipelines: vec![PipelinePlacement { name: "p1".into(), source: VPL.into(), worker_affinity: None, replicas: 1, partition_key: None }], routes: vec![] };
    c.pipeline_groups.insert("g1".into(), DeployedPipelineGroup::new("g1".into(), "g1".into(), spec));
    c.active_migrations.insert(
        "mig1".into(),
        varpulis_cluster::MigrationTask {
            id: "mig1".into(),
            pipeline_name: "p1".into(),
            group_id: "g1".into(),
            source_worker: WorkerId("w1".into()),
            target_worker: WorkerId("w2".into()),
            status: varpulis_cluster::MigrationStatus::Completed,
            started_at: std::time::Instant::now(),
            checkpoint: None,
            reason: varpulis_cluster::MigrationReason::Manual,
        },
    );
    c.pending_rebalance = false;
    c
}

fn base_vars() -> BTreeMap<String, String> {
    let mut v = BTreeMap::new();
    v.insert("VPL".to_string(), VPL.to_string());
    v
}

fn cluster_fixture(kind: RbacKind, k: &Keys) -> Result<Fixture, String> {
    let tmp = tempfile::tempdir().map_err(|e| e.to_string())?;
    let (cfg, keys, anon, d) = build_rbac(kind, k, tmp.path())?;
    let coord: SharedCoord = Arc::new(RwLock::new(seeded_coordinator(None)));
    let routes = boxed(varpulis_cluster::api::cluster_routes(coord.clone(), Arc::new(cfg), None));
    let extra: Vec<(&'static str, String)> = if kind == RbacKind::FileTwoAdmins { vec![("admin", k.admin2.clone())] } else { vec![] };
    Ok(Fixture {
        composition: "varpulis_cluster::api::cluster_routes",
        config: kind.name().to_string(),
        describe: d,
        routes,
        recover: Recover::Cluster,
        model: Model { rbac_keys: keys, rbac_anon: anon, ..Default::default() },
        creds: creds(k, &k.admin, &extra),
        vars: base_vars(),
        serves: vec!["/api/v1/cluster"],
        coord: Some(coord),
        mgr: None,
        raft: None,
        deep: false,
        _tmp: Some(tmp),
    })
}

#[derive(Clone, Copy, Debug, PartialEq, Eq)]
enum CliKind {
    AdminSet,
    AdminUnset,
    AdminSetDefaultTenant,
}

impl CliKind {
    fn name(&self) -> &'static str {
        match self {
            CliKind::AdminSet => "admin-key-set",
            CliKind::AdminUnset => "admin-key-unset",
            CliKind::AdminSetDefaultTenant => "admin-key-set+default-tenant",
        }
    }
}

/// `standalone`: only `tenant_admin_routes` instead of the complete `api_routes` tree.
async fn cli_fixture(kind: CliKind, standalone: bool, k: &Keys, deep: bool) -> Result<Fixture, String> {
    let mut mgr = TenantManager::new();
    let t1 = mgr.create_tenant("T1".into(), k.tenant1.clone(), TenantQuota::default()).map_err(|e| e.to_string())?;
    let t2 = mgr.create_tenant("T2".into(), k.tenant2.clone(), TenantQuota::default()).map_err(|e| e.to_string())?;
    let mut tenant_keys = vec![k.tenant1.clone(), k.tenant2.clone()];
    if kind == CliKind::AdminSetDefaultTenant {
        // what `varpulis server --api-key K` does: a default tenant whose api key is K
        mgr.create_tenant("default".into(), k.cli_admin.clone(), TenantQuota::enterprise()).map_err(|e| e.to_string())?;
        tenant_keys.push(k.cli_admin.clone());
    }
    let mut vars = base_vars();
    for (i, name) in ["P1", "P2"].iter().enumerate() {
        let t = mgr.get_tenant_mut(&t1).ok_or("tenant vanished")?;
        let pid = t.deploy_pipeline(format!("pipe{}", i), VPL.into()).await.map_err(|e| e.to_string())?;
        vars.insert(name.to_string(), pid);
    }
    {
        let t = mgr.get_tenant_mut(&t2).ok_or("tenant vanished")?;
        t.deploy_pipeline("other".into(), VPL.into()).await.map_err(|e| e.to_string())?;
    }
    vars.insert("T2".into(), t2.as_str().to_string());
    let mgr: SharedTenantManager = Arc::new(RwLock::new(mgr));
    let admin = if kind == CliKind::AdminUnset { None } else { Some(k.cli_admin.clone()) };
    let routes = if standalone { boxed(varpulis_cli::api::tenant_admin_routes(mgr.clone(), admin.clone())) } else { apih::routes(mgr.clone(), admin.clone()) };
    // a real checkpoint for the restore body
    let full = apih::routes(mgr.clone(), admin.clone());
    let r = apih::call(&full, "POST", &format!("/api/v1/pipelines/{}/checkpoint", vars["P1"]), &[("x-api-key", &k.tenant1)], None).await;
    match r.json() {
        Some(j) if r.status == 200 => {
            vars.insert("RESTORE".into(), json!({"checkpoint": j["checkpoint"]}).to_string());
        }
        _ => return Err(format!("setup checkpoint failed: {} {}", r.status, r.text())),
    }
    Ok(Fixture {
        composition: if standalone { "varpulis_cli::api::tenant_admin_routes" } else { "varpulis_cli::api::api_routes" },
        config: kind.name().to_string(),
        describe: json!({"admin_key": admin, "tenants": [{"name": "T1", "key": k.tenant1}, {"name": "T2", "key": k.tenant2}], "default_tenant_with_admin_key": kind == CliKind::AdminSetDefaultTenant}),
        routes,
        recover: Recover::Cli,
        model: Model { cli_admin: admin, tenant_keys, ..Default::default() },
        creds: creds(k, &k.cli_admin, &[]),
        vars,
        serves: if standalone { vec!["/api/v1/tenants"] } else { vec!["/api/v1/"] },
        coord: None,
        mgr: Some(mgr),
        raft: None,
        deep,
        _tmp: None,
    })
}

async fn start_raft(node_id: u64, key: Option<String>) -> Result<RaftPair, String> {
    let peers = vec!["http://127.0.0.1:1".to_string(), "http://127.0.0.1:1".to_string()];
    let peers = if node_id == 1 { peers[..1].to_vec() } else { peers };
    let r = varpulis_cluster::raft::bootstrap(node_id, &peers, key).await.map_err(|e| format!("raft bootstrap: {}", e))?;
    if node_id == 1 {
        // wait for the single-node cluster to elect itself
        let mut ok = false;
        for _ in 0..300 {
            let m = r.raft.metrics().borrow().clone();
            if m.current_leader == Some(1) && format!("{:?}", m.state) == "Leader" {
                ok = true;
                break;
            }
            tokio::time::sleep(Duration::from_millis(50)).await;
        }
        if !ok {
            return Err("single-node Raft did not become leader within 15 s".into());
        }
        for (i, w) in ["rw1", "rw2"].iter().enumerate() {
            let cmd = varpulis_cluster::raft::ClusterCommand::RegisterWorker { id: w.to_string(), address: format!("http://127.0.0.1:{}", i + 1), api_key: "rk".into(), capacity: varpulis_cluster::worker::WorkerCapacity { cpu_cores: 1, pipelines_running: 0, max_pipelines: 4 } };
            match tokio::time::timeout(Duration::from_secs(5), r.raft.client_write(cmd)).await {
                Ok(Ok(_)) => {}
                Ok(Err(e)) => return Err(format!("raft seed write failed: {}", e)),
                Err(_) => return Err("raft seed write timed out".into()),
            }
        }
    }
    Ok((r.raft, r.shared_state))
}

/// Wait until two snapshots 250 ms apart are equal (background election / apply finished).
async fn quiesce(fx: &Fixture) -> bool {
    let mut prev = fx.snapshot().await;
    for _ in 0..40 {
        tokio::time::sleep(Duration::from_millis(250)).await;
        let cur = fx.snapshot().await;
        if cur == prev {
            return true;
        }
        prev = cur;
    }
    false
}

#[derive(Clone, Copy, Debug, PartialEq, Eq)]
enum RaftKind {
    Unset,
    Set,
    Empty,
}

impl RaftKind {
    fn name(&self) -> &'static str {
        match self {
            RaftKind::Unset => "raft-key-unset",
            RaftKind::Set => "raft-key-set",
            RaftKind::Empty => "raft-key-empty-string",
        }
    }
}

async fn raft_fixture(kind: RaftKind, leader: bool, k: &Keys) -> Result<Fixture, String> {
    let key = match kind {
        RaftKind::Unset => None,
        RaftKind::Set => Some(k.raft.clone()),
        RaftKind::Empty => Some(String::new()),
    };
    let node_id = if leader { 1 } else { 2 };
    let pair = start_raft(node_id, key.clone()).await?;
    let routes = boxed(varpulis_cluster::raft::routes::raft_routes(pair.0.clone(), key.clone()));
    let mut vars = base_vars();
    raft_bodies(node_id, &mut vars);
    Ok(Fixture {
        composition: "varpulis_cluster::raft::routes::raft_routes",
        config: kind.name().to_string(),
        describe: json!({"raft_admin_key": key, "node": if leader { "node 1, initialised single-node leader with 2 replicated commands" } else { "node 2, not initialised" }}),
        routes,
        recover: Recover::Cluster,
        model: Model { raft_key: key, ..Default::default() },
        creds: creds(k, &k.raft, &[]),
        vars,
        serves: vec!["/raft/"],
        coord: None,
        mgr: None,
        raft: Some(pair),
        deep: false,
        _tmp: None,
    })
}

/// The production composition `cluster_routes_with_raft` (Raft key = `rbac.any_admin_key()`).
async fn composite_fixture(kind: RbacKind, k: &Keys) -> Result<Fixture, String> {
    let tmp = tempfile::tempdir().map_err(|e| e.to_string())?;
    let (cfg, keys, anon, mut d) = build_rbac(kind, k, tmp.path())?;
    let cfg = Arc::new(cfg);
    // public API; this is what main.rs passes to bootstrap() and what cluster_routes_with_raft uses
    let raft_key = cfg.any_admin_key();
    let pair = start_raft(1, raft_key.clone()).await?;
    let coord: SharedCoord = Arc::new(RwLock::new(seeded_coordinator(Some((&pair, raft_key.clone())))));
    let routes = boxed(varpulis_cluster::api::cluster_routes_with_raft(coord.clone(), cfg.clone(), pair.0.clone(), None));
    d["raft_admin_key (rbac.any_admin_key())"] = json!(raft_key);
    let mut vars = base_vars();
    raft_bodies(1, &mut vars);
    let extra: Vec<(&'static str, String)> = if kind == RbacKind::FileTwoAdmins { vec![("admin", k.admin2.clone())] } else { vec![] };
    Ok(Fixture {
        composition: "varpulis_cluster::api::cluster_routes_with_raft",
        config: format!("with-raft:{}", kind.name()),
        describe: d,
        routes,
        recover: Recover::Cluster,
        model: Model { rbac_keys: keys, rbac_anon: anon, raft_key, ..Default::default() },
        creds: creds(k, &k.admin, &extra),
        vars,
        serves: vec!["/api/v1/cluster", "/raft/"],
        coord: Some(coord),
        mgr: None,
        raft: Some(pair),
        deep: false,
        _tmp: Some(tmp),
    })
}

// ---------------------------------------------------------------------------
// 6. The matrix
// ---------------------------------------------------------------------------
#[derive(Default)]
struct Out {
    p: Partial,
    served_rows: BTreeSet<String>,
    tried_rows: BTreeSet<String>,
    /// (composition, method, template) found by the probe
    discovered: BTreeSet<(String, String, String)>,
    notes: Vec<J>,
}

struct Cell {
    row: Arc<Row>,
    cred: usize,
    mode: &'static str,
    pres: Pres,
    exp: Exp,
    path: String,
    body: Option<String>,
}

fn route_priority(norm: &str) -> u32 {
    // served-phase order: the "hot" Raft RPCs first (the node then is no leader any more and
    // membership calls return at once), the snapshot chunk last
    match norm {
        "/raft/vote" => 0,
        "/raft/append" => 1,
        "/raft/snapshot" => 9,
        n if n.starts_with("/raft/") => 5,
        _ => 3,
    }
}

async fn run_matrix(fx: &Fixture, table: &[Arc<Row>], rng: &mut Rng, flip: &str, out: &mut Out) {
    let shapes = shapes();
    let mut cells: Vec<Cell> = vec![];
    for row in table.iter().filter(|r| fx.serves_row(r)) {
        let shape = shapes.iter().find(|(m, n, _, _)| *m == row.method && *n == row.norm);
        let (path, body) = match shape {
            Some((_, _, p, b)) => (subst(p, &fx.vars), b.map(|b| subst(b, &fx.vars))),
            None => {
                out.p.inconclusive(&format!("no-request-shape: documented route {} has no realisation in the harness (add one to shapes())", row.key()));
                continue;
            }
        };
        if path.contains('$') || body.as_deref().map(|b| b.starts_with('$')).unwrap_or(false) {
            out.p.inconclusive(&format!("fixture {} lacks a variable for {}", fx.config, row.key()));
            continue;
        }
        out.tried_rows.insert(row.key());
        for (ci, cred) in fx.creds.iter().enumerate() {
            let modes: &[&'static str] = if cred.value.is_none() { &MODES[..1] } else if cred.all_modes { MODES } else { &MODES[..1] };
            for mode in modes {
                let pres = present(&row.need, cred, mode);
                let exp = expect(&row.need, &fx.model, &pres, flip);
                cells.push(Cell { row: row.clone(), cred: ci, mode: *mode, pres, exp, path: path.clone(), body: body.clone() });
            }
        }
    }
    let (mut phase1, mut phase2): (Vec<Cell>, Vec<Cell>) = cells.into_iter().partition(|c| c.exp != Exp::Serve);
    rng.shuffle(&mut phase1);
    rng.shuffle(&mut phase2);
    phase2.sort_by_key(|c| route_priority(&c.row.norm));
    if fx.raft.is_some() && !quiesce(fx).await {
        out.p.inconclusive(&format!("fixture {} / {}: Raft state did not become quiescent", fx.composition, fx.config));
        return;
    }
    let mut sampled = 0;
    for (phase, list) in [(1, &phase1), (2, &phase2)] {
        for c in list.iter() {
            let cred = &fx.creds[c.cred];
            let before = if phase == 1 { Some(fx.snapshot().await) } else { None };
            let f = fire(&fx.routes, fx.recover, &c.row.method, &c.path, &c.pres, c.body.as_deref()).await;
            out.p.eval();
            out.p.add("requests", 1);
            let case_key = (c.row.surface, c.row.key(), cred.kind, cred.variant.clone(), c.mode, fx.composition, fx.config.clone());
            if c.exp == Exp::Reject {
                out.p.nontrivial(&case_key);
                out.p.add("cells_expected_reject", 1);
            } else if c.exp == Exp::Serve {
                out.p.add("cells_expected_serve", 1);
            } else {
                out.p.add("cells_either_allowed", 1);
            }
            let witness = |extra: J| {
                json!({
                    "surface": c.row.surface.name(), "filter": fx.composition, "config_kind": fx.config, "config": fx.describe,
                    "route": c.row.key(), "required_access": c.row.need.text(), "required_access_source": c.row.source,
                    "credential": {"kind": cred.kind, "variant": cred.variant, "presentation": c.mode},
                    "request": {"method": c.row.method, "path": c.path, "x-api-key": c.pres.api, "x-admin-key": c.pres.admin, "authorization": c.pres.bearer.as_ref().map(|b| format!("Bearer {}", b)), "body": c.body},
                    "expected": format!("{:?}", c.exp),
                    "observed": {"outcome": format!("{:?}", f.obs), "status": f.status, "via": f.via, "detail": f.detail},
                    "extra": extra,
                })
            };
            let sig = |dir: &str| format!("{}/{}/{}/{}/{}", c.row.surface.name(), c.row.sig_route(), cred.kind, fx.config, dir);
            if sampled < 2 && c.exp == Exp::Reject && cred.kind != "none" {
                sampled += 1;
                out.p.sample(witness(J::Null));
            }
            match (&f.obs, c.exp) {
                (Obs::Timeout, _) => out.p.inconclusive(&format!("request-timeout: {} {} ({} / {})", c.row.method, c.path, fx.composition, fx.config)),
                (Obs::Served, Exp::Serve) | (Obs::Served, Exp::Either) => {
                    out.served_rows.insert(c.row.key());
                }
                (Obs::Served, Exp::Reject) => {
                    out.served_rows.insert(c.row.key());
                    out.p.violation(&sig("served-but-should-reject"), "a request whose credential does not grant the documented access of the route was served", witness(J::Null));
                }
                (Obs::Denied, Exp::Serve) => {
                    out.p.violation(&sig("rejected-but-should-serve"), "a request whose credential grants the documented access of the route was refused", witness(J::Null));
                }
                (Obs::NotServed, Exp::Serve) => {
                    out.p.inconclusive(&format!("auth-decision-unobservable: {} {} answered {} without reaching a handler for a granted credential ({} / {}): {}", c.row.method, c.path, f.status, fx.composition, fx.config, f.detail));
                }
                (Obs::Denied, _) | (Obs::NotServed, _) => {}
            }
            if f.obs != Obs::Served && f.obs != Obs::Timeout {
                if f.obs == Obs::Denied && f.status != 401 && f.status != 403 {
                    out.p.add("denied_with_status_other_than_401_403", 1);
                    out.p.add(&format!("denied_status_{}_{}", f.status, c.row.surface.name()), 1);
                }
                if let Some(b) = before {
                    if flip == "state-noise" {
                        // oracle self-test only: pretend the refused request left a trace
                        if let Some(c) = &fx.coord {
                            let mut g = c.write().await;
                            g.pending_rebalance = !g.pending_rebalance;
                        }
                    }
                    let after = fx.snapshot().await;
                    out.p.add("state_comparisons", 1);
                    if after != b {
                        let d = apih::first_diff(&b, &after, "").unwrap_or_default();
                        out.p.violation(&sig("state-changed-by-rejected-request"), "the state snapshot differs after a request that was not served", witness(json!({"first_difference": d, "before": b, "after": after})));
                    }
                }
            }
        }
    }
}

// ---------------------------------------------------------------------------
// 7. Route enumeration cross-check (path-template probe)
// ---------------------------------------------------------------------------
async fn probe_one(fx: &Fixture, method: &str, path: &str, full: &Pres) -> (bool, bool) {
    // returns (path known to the filter for some method, this method routed)
    let body = if method == "GET" || method == "DELETE" || method == "HEAD" { None } else { Some("{}") };
    let mut rb = warp::test::request().method(method).path(path);
    if let Some(v) = &full.api {
        rb = rb.header("x-api-key", v.as_str());
    }
    if let Some(v) = &full.admin {
        rb = rb.header("x-admin-key", v.as_str());
    }
    if let Some(b) = body {
        rb = rb.header("content-type", "application/json").body(b.as_bytes());
    }
    match tokio::time::timeout(Duration::from_secs(REQ_TIMEOUT_S), rb.filter(&fx.routes)).await {
        Err(_) => (true, true),
        Ok(Ok(_)) => (true, true),
        Ok(Err(rej)) => {
            if rej.is_not_found() {
                return (false, false);
            }
            let status = match fx.recover {
                Recover::Cluster => varpulis_cluster::api::handle_rejection(rej).await.map(|r| r.into_response().status().as_u16()).unwrap_or(0),
                Recover::Cli => varpulis_cli::auth::handle_rejection(rej).await.map(|r| r.into_response().status().as_u16()).unwrap_or(0),
            };
            (true, status != 404 && status != 405)
        }
    }
}

fn patterns(max_lit: usize, max_depth: usize) -> Vec<Vec<bool>> {
    // true = literal from the vocabulary, false = parameter token; first segment literal or single param
    let mut v: Vec<Vec<bool>> = vec![];
    for d in 1..=max_depth {
        for bits in 0..(1u32 << d) {
            let pat: Vec<bool> = (0..d).map(|i| bits & (1 << i) != 0).collect();
            let lits = pat.iter().filter(|b| **b).count();
            if lits > max_lit || (d > 1 && !pat[0]) {
                continue;
            }
            v.push(pat);
        }
    }
    v
}

async fn run_probe(fx: &Fixture, base: &str, vocab: &[String], max_lit: usize, max_depth: usize, table: &[Arc<Row>], out: &mut Out) {
    let full = Pres { api: fx.vars.get("PROBE_API").cloned(), admin: fx.vars.get("PROBE_ADMIN").cloned(), bearer: None };
    // self-check: a path that cannot exist must be reported unknown, otherwise the probe is blind
    let (bogus, _) = probe_one(fx, "PATCH", &format!("{}/{}/{}/{}/{}/{}", base, TOKEN, TOKEN2, TOKEN, TOKEN2, TOKEN), &full).await;
    if bogus {
        out.p.inconclusive(&format!("route-probe blind on {} base {:?}: an impossible path is not answered with not-found", fx.composition, base));
        return;
    }
    let mut existing: Vec<Vec<String>> = vec![];
    for pat in patterns(max_lit, max_depth) {
        // enumerate all literal assignments
        let nl = pat.iter().filter(|b| **b).count();
        let total = vocab.len().pow(nl as u32);
        for mut idx in 0..total {
            let mut segs: Vec<String> = Vec::with_capacity(pat.len());
            for lit in &pat {
                if *lit {
                    segs.push(vocab[idx % vocab.len()].clone());
                    idx /= vocab.len();
                } else {
                    segs.push(TOKEN.to_string());
                }
            }
            let path = format!("{}/{}", base, segs.join("/"));
            out.p.add("probe_requests", 1);
            let (known, _) = probe_one(fx, "PATCH", &path, &full).await;
            if known {
                existing.push(segs);
            }
        }
    }
    out.p.add("probe_paths_known", existing.len() as u64);
    for segs in existing {
        for method in ["GET", "POST", "PUT", "DELETE", "PATCH", "HEAD"] {
            let path = format!("{}/{}", base, segs.join("/"));
            out.p.add("probe_requests", 1);
            let (_, routed) = probe_one(fx, method, &path, &full).await;
            if !routed {
                continue;
            }
            // infer the template: a segment is a parameter if another token is routed as well
            let mut tpl = segs.clone();
            for i in 0..tpl.len() {
                if tpl[i] == TOKEN {
                    tpl[i] = "{}".into();
                    continue;
                }
                let mut alt: Vec<String> = tpl.iter().map(|s| if s == "{}" { TOKEN.to_string() } else { s.clone() }).collect();
                alt[i] = TOKEN2.to_string();
                out.p.add("probe_requests", 1);
                let (_, r2) = probe_one(fx, method, &format!("{}/{}", base, alt.join("/")), &full).await;
                if r2 {
                    tpl[i] = "{}".into();
                }
            }
            let template = format!("{}/{}", base, tpl.join("/"));
            out.discovered.insert((fx.composition.to_string(), method.to_string(), template));
        }
    }
    let _ = table;
}

fn vocabulary(table: &[Arc<Row>], repo: &str, thorough: bool, out: &mut Out) -> Vec<String> {
    let mut v: BTreeSet<String> = BTreeSet::new();
    for r in table {
        for s in r.path.split('/') {
            if !s.is_empty() && !s.starts_with('{') {
                v.insert(s.to_string());
            }
        }
    }
    // literals of warp::path("...") / path!(...) in the route modules: words only, never roles
    let mut scraped = 0;
    for f in ["crates/varpulis-cluster/src/api.rs", "crates/varpulis-cluster/src/raft/routes.rs", "crates/varpulis-cli/src/api.rs"] {
        if let Ok(txt) = std::fs::read_to_string(format!("{}/{}", repo, f)) {
            // stop at the unit tests of the module
            let txt = txt.split("#[cfg(test)]").next().unwrap_or("").to_string();
            let mut rest = txt.as_str();
            while let Some(i) = rest.find("path(\"") {
                rest = &rest[i + 6..];
                if let Some(j) = rest.find('"') {
                    let w = &rest[..j];
                    if !w.is_empty() && w.len() < 40 && !w.contains('/') && !w.contains(' ') {
                        if v.insert(w.to_string()) {
                            scraped += 1;
                        }
                    }
                    rest = &rest[j..];
                }
            }
        }
    }
    out.p.add("probe_words_only_in_source", scraped);
    let extras: &[&str] = if thorough {
        &["admin", "debug", "internal", "config", "status", "state", "keys", "tokens", "users", "shutdown", "reset", "flush", "export", "import", "backup", "restore", "events", "stream", "version", "info", "ping", "leader", "members", "nodes", "peers", "health", "ready", "metrics", "ws", "v2", "snapshot", "checkpoint", "logs", "secrets", "env", "settings", "license", "audit", "sessions", "login", "auth", "rbac", "roles", "apikeys", "api-keys", "scale", "scaling", "drain", "failover", "promote", "demote", "step-down", "transfer", "compact", "purge", "trigger", "reload", "deploy", "undeploy"]
    } else {
        &["admin", "debug", "internal", "config", "status", "state", "keys", "shutdown", "reset", "health", "ready", "metrics", "ws", "v2", "snapshot", "leader", "members", "auth", "roles", "settings", "secrets", "users"]
    };
    for e in extras {
        v.insert(e.to_string());
    }
    v.into_iter().collect()
}

// ---------------------------------------------------------------------------
// 8. Work items and main
// ---------------------------------------------------------------------------
#[derive(Clone, Debug)]
enum Item {
    Cluster(RbacKind),
    Composite(RbacKind),
    Cli(CliKind, bool),
    Raft(RaftKind, bool),
    /// probe: composite (true) or CLI (false) filter tree, base path
    Probe(bool, &'static str, usize),
}

async fn run_item(item: &Item, table: &[Arc<Row>], keys: &Keys, rng: &mut Rng, flip: &str, thorough: bool, vocab: &[String], out: &mut Out) {
    let fx = match item {
        Item::Cluster(k) => cluster_fixture(*k, keys),
        Item::Composite(k) => composite_fixture(*k, keys).await,
        Item::Cli(k, standalone) => cli_fixture(*k, *standalone, keys, thorough).await,
        Item::Raft(k, leader) => raft_fixture(*k, *leader, keys).await,
        Item::Probe(true, _, _) => composite_fixture(RbacKind::Disabled, keys).await,
        Item::Probe(false, _, _) => cli_fixture(CliKind::AdminSet, false, keys, false).await.map(|mut f| {
            f.vars.insert("PROBE_API".into(), keys.tenant1.clone());
            f.vars.insert("PROBE_ADMIN".into(), keys.cli_admin.clone());
            f
        }),
    };
    let fx = match fx {
        Ok(f) => f,
        Err(e) => {
            out.p.inconclusive(&format!("fixture {:?} could not be built: {}", item, e));
            return;
        }
    };
    match item {
        Item::Probe(_, base, depth) => {
            let max_lit = if thorough { 3 } else { 2 };
            run_probe(&fx, base, vocab, max_lit, *depth, table, out).await;
        }
        _ => {
            run_matrix(&fx, table, rng, flip, out).await;
            // documented-by-the-letter observations that are worth a human look (not judged)
            if let Item::Composite(k) = item {
                if *k == RbacKind::FileNoAdmin {
                    out.notes.push(json!({"note": "keys file without an admin key: rbac.any_admin_key() is None, so cluster_routes_with_raft mounts the mutating /raft/* routes WITHOUT authentication although RBAC is enabled for /api/v1/cluster/* (by the letter of the raft_routes documentation: admin key unset = open)", "config": fx.describe}));
                }
                if *k == RbacKind::FileTwoAdmins {
                    out.notes.push(json!({"note": "keys file with two admin keys: rbac.any_admin_key() picks one by HashMap iteration order; only that one is accepted on /raft/* (the other admin key is refused), and two coordinator processes may pick different keys for their inter-node RPCs", "config": fx.describe}));
                }
            }
        }
    }
    if let Some((raft, _)) = &fx.raft {
        let _ = tokio::time::timeout(Duration::from_secs(3), raft.shutdown()).await;
    }
}

fn main() {
    let args = Args::parse();
    install_quiet_panic_hook();
    watchdog("C29", args.pick(300, 1800));
    let mut rep = Report::new("C29", "exploration", &args);
    let flip = args.opt("--selftest").unwrap_or_default();
    if !flip.is_empty() {
        // oracle self-test (perturbed reference): never overwrite the evidence of the real check
        rep.args.replay = Some(std::path::PathBuf::from("--selftest"));
        rep.property = "C29-selftest".into();
    }
    rep.rule = "exhaustive matrix: every operation of docs/api/openapi.yaml under /api/v1 (+ the 7 /raft/* routes of the raft/routes.rs module doc) x credential (none; wrong: unknown / empty / admin+suffix / admin-prefix / admin-uppercase; cluster viewer, operator, admin key; tenant key; each real key presented in the documented header, in x-api-key + x-admin-key + Authorization together, and only in the undocumented header) x configuration (cluster_routes: single_key, from_file, multi_key, multi_key + anonymous viewer/operator/admin, disabled(), disabled + anonymous viewer/operator, multi_key({}), file without admin, file with two admins; cluster_routes_with_raft: single key, file, disabled, file without admin, file with two admins; api_routes and tenant_admin_routes: admin key set / unset / set + default tenant; raft_routes: key unset / set / empty string, each on an initialised single-node leader and on an uninitialised node). One well-formed request per cell against the real warp filter over a seeded coordinator / tenant manager / in-process Raft; cells expected to be refused run first (state snapshot before/after), the served ones afterwards. Non-trivial: a cell whose expected answer is 'reject'; distinct by (route, credential variant, presentation, filter, configuration).".into();
    rep.assume("the required access per route is what docs/api/openapi.yaml states (\"Requires X role\" + ApiKeyAuth, AdminKeyAuth, ApiKeyAuth without role = tenant key, \"No authentication required\"); /raft/* per the module doc of raft/routes.rs");
    rep.assume("'served' = a route handler produced the reply (warp filter Ok) and its status is not 401/403; a filter rejection means no handler ran. Rejections that production answers with 401/403, or with 500 because the recover handler does not know them (RaftUnauthorized, missing x-api-key header on the SaaS API), count as refused");
    rep.assume("roles are hierarchical viewer < operator < admin (rbac.rs module doc); an unknown key is refused when keys are configured, except that with anonymous access allowed it may also be treated as anonymous (both accepted); without keys and with anonymous access everything is anonymous (RbacConfig::disabled doc)");
    rep.assume("state = public Coordinator fields (without Prometheus counters), TenantManager public read API, RaftMetrics (vote, term, log, membership, role) + replicated CoordinatorState");
    rep.assume("route probe: vocabulary = path words of the OpenAPI file + literals of warp::path(\"..\") in the three route modules + a fixed dictionary; templates up to depth 4 with at most 2 (thorough: 3) literal segments below /, /api/v1, /api/v1/cluster; a route with an unknown word deeper than that is not found");

    let repo = std::env::var("VERIF_REPO").unwrap_or_else(|_| "/repo".into());
    let yaml = match std::fs::read_to_string(format!("{}/docs/api/openapi.yaml", repo)) {
        Ok(t) => t,
        Err(e) => {
            rep.inconclusive(&format!("cannot read {}/docs/api/openapi.yaml: {}", repo, e));
            std::process::exit(rep.finish());
        }
    };
    let (ops, global) = parse_openapi(&yaml);
    let (mut rows, unclassified) = build_table(&ops, &global);
    rows.extend(raft_doc_table());
    if flip == "drop-row" {
        // probe self-test only: an existing route without a table row must be reported
        rows.retain(|r| r.key() != "GET /api/v1/cluster/summary");
    }
    rep.set("openapi_operations", json!(ops.len()));
    rep.set("openapi_role_operations", json!(rows.iter().filter(|r| matches!(r.need, Need::Role(_))).count()));
    rep.set("table_rows", json!(rows.len()));
    if ops.len() < 20 {
        rep.inconclusive(&format!("openapi extractor found only {} operations: extractor or file broken", ops.len()));
    }
    for u in &unclassified {
        rep.inconclusive(&format!("unclassified-route: documented operation without a derivable access requirement: {}", u));
    }
    let unreachable: Vec<String> = rows.iter().filter(|r| r.surface == Surface::Root).map(|r| r.key()).collect();
    rep.set("documented_public_routes_not_reachable_through_library_filters", json!(unreachable));
    let table: Arc<Vec<Arc<Row>>> = Arc::new(rows.into_iter().map(Arc::new).collect());

    let mut items: Vec<Item> = vec![];
    // slow (Raft-bearing / probe) items first so that they spread over the threads
    for k in [RbacKind::SingleKey, RbacKind::MultiKeyFile, RbacKind::Disabled, RbacKind::FileNoAdmin, RbacKind::FileTwoAdmins] {
        items.push(Item::Composite(k));
    }
    for k in [RaftKind::Unset, RaftKind::Set, RaftKind::Empty] {
        items.push(Item::Raft(k, true));
    }
    items.push(Item::Probe(true, "", 2));
    items.push(Item::Probe(true, "/api/v1", 4));
    items.push(Item::Probe(true, "/api/v1/cluster", 4));
    items.push(Item::Probe(true, "/raft", 2));
    items.push(Item::Probe(false, "", 2));
    items.push(Item::Probe(false, "/api/v1", 4));
    for k in [RaftKind::Unset, RaftKind::Set, RaftKind::Empty] {
        items.push(Item::Raft(k, false));
    }
    for k in [RbacKind::SingleKey, RbacKind::MultiKeyFile, RbacKind::MultiKeyMap, RbacKind::AnonViewerKeys, RbacKind::AnonOperatorKeys, RbacKind::AnonAdminKeys, RbacKind::Disabled, RbacKind::AnonViewerNoKeys, RbacKind::AnonOperatorNoKeys, RbacKind::AnonDeniedNoKeys, RbacKind::FileNoAdmin, RbacKind::FileTwoAdmins] {
        items.push(Item::Cluster(k));
    }
    for k in [CliKind::AdminSet, CliKind::AdminUnset, CliKind::AdminSetDefaultTenant] {
        items.push(Item::Cli(k, false));
    }
    for k in [CliKind::AdminSet, CliKind::AdminUnset] {
        items.push(Item::Cli(k, true));
    }
    let n_items = items.len();
    let items = Arc::new(items);
    let threads = ncpu().max(4);
    let thorough = args.thorough();
    let mut vocab_out = Out::default();
    let vocab = Arc::new(vocabulary(&table, &repo, thorough, &mut vocab_out));
    rep.merge(std::mem::take(&mut vocab_out.p));
    rep.set("probe_vocabulary_size", json!(vocab.len()));
    let (t2, i2, f2, v2) = (table.clone(), items.clone(), flip.clone(), vocab.clone());
    let seed = args.seed;
    let outs = parallel(threads, args.seed, move |ti, rng| {
        let mut out = Out::default();
        let rt = match tokio::runtime::Builder::new_multi_thread().worker_threads(2).enable_all().build() {
            Ok(rt) => rt,
            Err(e) => {
                out.p.inconclusive(&format!("tokio runtime: {}", e));
                return out;
            }
        };
        for (i, item) in i2.iter().enumerate() {
            if i % threads != ti {
                continue;
            }
            // keys and order depend on the seed and the item only (not on the thread layout)
            let mut irng = Rng::new(seed).fork(1000 + i as u64);
            let keys = make_keys(&mut irng);
            let _ = &rng;
            let r = catch(std::panic::AssertUnwindSafe(|| rt.block_on(run_item(item, &t2, &keys, &mut irng, &f2, thorough, &v2, &mut out))));
            if let Err(msg) = r {
                out.p.inconclusive(&format!("harness/handler panic while running {:?}: {} at {}", item, msg, panic_site(&last_panic_location())));
            }
        }
        out
    });
    let mut served: BTreeSet<String> = BTreeSet::new();
    let mut tried: BTreeSet<String> = BTreeSet::new();
    let mut discovered: BTreeSet<(String, String, String)> = BTreeSet::new();
    let mut notes: Vec<J> = vec![];
    for o in outs {
        rep.merge(o.p);
        served.extend(o.served_rows);
        tried.extend(o.tried_rows);
        discovered.extend(o.discovered);
        notes.extend(o.notes);
    }
    // calibration: every documented route must have been served at least once, otherwise the
    // request shape never reached its handler and "refused" cells of that route prove nothing
    let mut all_ok = true;
    for r in table.iter().filter(|r| r.surface != Surface::Root) {
        if !tried.contains(&r.key()) {
            all_ok = false;
            rep.inconclusive(&format!("route-not-exercised: {}", r.key()));
        } else if !served.contains(&r.key()) {
            all_ok = false;
            rep.inconclusive(&format!("route-never-served: {} was not served for any credential/configuration (request shape does not reach the handler?)", r.key()));
        }
    }
    // cross-check of the enumeration
    let documented: BTreeSet<(String, String)> = table.iter().map(|r| (r.method.clone(), r.norm.clone())).collect();
    let found: BTreeSet<(String, String)> = discovered.iter().map(|(_, m, t)| (m.clone(), t.clone())).collect();
    let mut unknown: Vec<String> = vec![];
    for (comp, m, t) in &discovered {
        if !documented.contains(&(m.clone(), t.clone())) {
            unknown.push(format!("{} {} (in {})", m, t, comp));
        }
    }
    for u in &unknown {
        all_ok = false;
        rep.inconclusive(&format!("unclassified-route: the probe found a routed path template without a row in the expectation table: {}", u));
    }
    let mut missed: Vec<String> = vec![];
    for r in table.iter().filter(|r| r.surface != Surface::Root) {
        if !found.contains(&(r.method.clone(), r.norm.clone())) {
            missed.push(r.key());
        }
    }
    if !missed.is_empty() {
        all_ok = false;
        rep.inconclusive(&format!("route-probe missed documented routes (probe broken?): {:?}", missed));
    }
    rep.set("probe_templates_found", json!(found.len()));
    rep.set("probe_templates_unclassified", json!(unknown));
    rep.set("notes", json!(notes));
    rep.set("work_items", json!(n_items));
    rep.exhaustive = Some(all_ok && rep.inconclusive.is_empty());
    std::process::exit(rep.finish());
}
