//! C37 — coordinators agree on cluster state and never lose acknowledged writes.
//!
//! In-process 3-node clusters: the real `openraft::Raft` over the real varpulis `TypeConfig`,
//! the real `MemStore` / `RocksStore` (log + state machine, through `openraft::storage::Adaptor`
//! exactly as `raft/mod.rs` builds a node, same `Config` timing), and a harness
//! `RaftNetworkFactory` that stands where the HTTP transport of `network.rs` + `routes.rs` stands
//! (request -> `raft.vote/append_entries/install_snapshot` of the target, any error -> Unreachable)
//! and adds a fault matrix: directed link cuts (request or response path), random loss, delay,
//! node stop/restart (RocksStore nodes keep their directory). Time is tokio's paused clock, so
//! election timeouts cost nothing.
//!
//! Every store is wrapped in a recording `RaftStorage` delegator that logs
//! `(node, last_applied, state)` after every apply / snapshot install (and at every restart).
//! Clients write uniquely named commands through `raft.client_write` and log call / return.
//! Offline checks per history:
//!   * equal last_applied index => equal state, across nodes and across time;
//!   * the state observed at index i is the fold of the entries the nodes applied up to i;
//!   * after faults stop (heal, restart) a barrier write must commit and be applied by every node
//!     within bounded virtual time (else the history is inconclusive); then every write that was
//!     acknowledged to its client is present in every node's state.
use openraft::error::{InstallSnapshotError, RPCError, RaftError, Unreachable};
use openraft::network::{RPCOption, RaftNetwork, RaftNetworkFactory};
use openraft::raft::{AppendEntriesRequest, AppendEntriesResponse, InstallSnapshotRequest, InstallSnapshotResponse, VoteRequest, VoteResponse};
use openraft::storage::{Adaptor, LogState};
use openraft::{Entry, EntryPayload, LogId, MessageSummary, RaftLogReader, RaftStorage, ServerState, Snapshot, SnapshotMeta, SnapshotPolicy, StorageError, StoredMembership, Vote};
use serde_json::{json, Value as J};
use std::collections::{BTreeMap, BTreeSet};
use std::fmt::Debug;
use std::io::Cursor;
use std::ops::RangeBounds;
use std::sync::{Arc, Mutex};
use std::time::Duration;
use varpulis_cluster::raft::persistent_store::RocksStore;
use varpulis_cluster::raft::state_machine::{apply_command, CoordinatorState};
use varpulis_cluster::raft::store::{MemStore, SharedCoordinatorState};
use varpulis_cluster::raft::{ClusterCommand, ClusterResponse, NodeId, RaftNode, TypeConfig, VarpulisRaft};
use varpulis_cluster::WorkerCapacity;
use vh::*;

static PERTURB: std::sync::OnceLock<String> = std::sync::OnceLock::new();
fn perturb(name: &str) -> bool {
    PERTURB.get().map(|p| p == name).unwrap_or(false)
}

fn canon(v: &J) -> String {
    match v {
        J::Object(m) => {
            let mut keys: Vec<&String> = m.keys().collect();
            keys.sort();
            let parts: Vec<String> = keys.iter().map(|k| format!("{}:{}", serde_json::to_string(k).unwrap(), canon(&m[*k]))).collect();
            format!("{{{}}}", parts.join(","))
        }
        J::Array(a) => format!("[{}]", a.iter().map(canon).collect::<Vec<_>>().join(",")),
        other => other.to_string(),
    }
}

fn to_j<T: serde::Serialize>(t: &T) -> J {
    serde_json::to_value(t).unwrap_or(J::Null)
}

fn now_ms(t0: tokio::time::Instant) -> u64 {
    t0.elapsed().as_millis() as u64
}

// ---------------------------------------------------------------------------------------------
// recording storage delegator
// ---------------------------------------------------------------------------------------------
#[derive(Clone)]
struct Obs {
    node: u64,
    incarnation: u32,
    index: u64,
    kind: &'static str,
    t_ms: u64,
    state: Arc<String>,
}

#[derive(Default)]
struct Recorder {
    obs: Vec<Obs>,
    /// index -> (term, leader node, payload text, first node that applied it)
    applied: BTreeMap<u64, (u64, u64, String, u64)>,
    /// (index, node, what the node applied, what was applied first)
    entry_conflicts: Vec<(u64, u64, String, String)>,
    /// order of apply events, for the "distinct interleavings" count
    order: Vec<(u64, u64)>,
    snapshots_installed: u64,
    purges: u64,
    conflict_deletes: u64,
}

struct Rec<S> {
    inner: S,
    node: u64,
    incarnation: u32,
    shared: SharedCoordinatorState,
    rec: Arc<Mutex<Recorder>>,
    t0: tokio::time::Instant,
}

impl<S> Rec<S> {
    fn state_text(&self) -> Arc<String> {
        let g = self.shared.read().unwrap_or_else(|e| e.into_inner());
        Arc::new(canon(&to_j(&*g)))
    }
    fn observe(&self, index: u64, kind: &'static str) {
        let st = self.state_text();
        let mut r = self.rec.lock().unwrap();
        r.order.push((self.node, index));
        r.obs.push(Obs { node: self.node, incarnation: self.incarnation, index, kind, t_ms: now_ms(self.t0), state: st });
    }
}

/// `C37_DEBUG=1`: trace storage calls / RPCs to stderr and let panics of Raft tasks print (debugging aid only)
fn debug_on() -> bool {
    static ON: std::sync::OnceLock<bool> = std::sync::OnceLock::new();
    *ON.get_or_init(|| std::env::var("C37_DEBUG").is_ok())
}

fn dbg(node: u64, msg: String) {
    if debug_on() {
        eprintln!("DBG {:?} node {node}: {msg}", std::thread::current().id());
    }
}

/// log reader delegator (debug aid: reports reads that return nothing)
struct RecReader<R> {
    inner: R,
    node: u64,
}

impl<R: RaftLogReader<TypeConfig>> RaftLogReader<TypeConfig> for RecReader<R> {
    async fn try_get_log_entries<RB: RangeBounds<u64> + Clone + Debug + Send>(&mut self, range: RB) -> Result<Vec<Entry<TypeConfig>>, StorageError<NodeId>> {
        let r = self.inner.try_get_log_entries(range.clone()).await?;
        if r.is_empty() {
            if debug_on() {
                dbg(self.node, format!("log reader: range {range:?} returned no entries"));
            }
        }
        Ok(r)
    }
}

fn payload_text(e: &Entry<TypeConfig>) -> String {
    match &e.payload {
        EntryPayload::Blank => "blank".to_string(),
        EntryPayload::Normal(c) => canon(&to_j(c)),
        EntryPayload::Membership(m) => format!("membership {}", canon(&to_j(m))),
    }
}

impl<S: RaftStorage<TypeConfig>> RaftLogReader<TypeConfig> for Rec<S> {
    async fn try_get_log_entries<RB: RangeBounds<u64> + Clone + Debug + Send>(&mut self, range: RB) -> Result<Vec<Entry<TypeConfig>>, StorageError<NodeId>> {
        self.inner.try_get_log_entries(range).await
    }
}

impl<S: RaftStorage<TypeConfig>> RaftStorage<TypeConfig> for Rec<S> {
    type LogReader = RecReader<S::LogReader>;
    type SnapshotBuilder = S::SnapshotBuilder;

    async fn save_vote(&mut self, vote: &Vote<NodeId>) -> Result<(), StorageError<NodeId>> {
        self.inner.save_vote(vote).await
    }
    async fn read_vote(&mut self) -> Result<Option<Vote<NodeId>>, StorageError<NodeId>> {
        self.inner.read_vote().await
    }
    async fn get_log_state(&mut self) -> Result<LogState<TypeConfig>, StorageError<NodeId>> {
        self.inner.get_log_state().await
    }
    async fn get_log_reader(&mut self) -> Self::LogReader {
        RecReader { inner: self.inner.get_log_reader().await, node: self.node }
    }
    async fn append_to_log<I>(&mut self, entries: I) -> Result<(), StorageError<NodeId>>
    where
        I: IntoIterator<Item = Entry<TypeConfig>> + Send,
    {
        let mut v: Vec<Entry<TypeConfig>> = entries.into_iter().collect();
        if perturb("store-append-drops-last-of-batch") && v.len() >= 2 {
            v.pop();
        }
        if debug_on() {
            dbg(self.node, format!("append {:?}..{:?}", v.first().map(|e| e.log_id.to_string()), v.last().map(|e| e.log_id.to_string())));
        }
        self.inner.append_to_log(v).await
    }
    async fn delete_conflict_logs_since(&mut self, log_id: LogId<NodeId>) -> Result<(), StorageError<NodeId>> {
        self.rec.lock().unwrap().conflict_deletes += 1;
        if debug_on() {
            dbg(self.node, format!("delete_conflict_logs_since {log_id}"));
        }
        let log_id = if perturb("store-delete-conflict-off-by-one") { LogId::new(log_id.leader_id, log_id.index + 1) } else { log_id };
        self.inner.delete_conflict_logs_since(log_id).await
    }
    async fn purge_logs_upto(&mut self, log_id: LogId<NodeId>) -> Result<(), StorageError<NodeId>> {
        self.rec.lock().unwrap().purges += 1;
        if debug_on() {
            dbg(self.node, format!("purge_logs_upto {log_id}"));
        }
        self.inner.purge_logs_upto(log_id).await
    }
    async fn last_applied_state(&mut self) -> Result<(Option<LogId<NodeId>>, StoredMembership<NodeId, RaftNode>), StorageError<NodeId>> {
        self.inner.last_applied_state().await
    }
    async fn apply_to_state_machine(&mut self, entries: &[Entry<TypeConfig>]) -> Result<Vec<ClusterResponse>, StorageError<NodeId>> {
        let r = self.inner.apply_to_state_machine(entries).await?;
        {
            let mut guard = self.rec.lock().unwrap();
            let rec: &mut Recorder = &mut guard;
            for e in entries {
                let text = payload_text(e);
                let key = e.log_id.index;
                match rec.applied.get(&key) {
                    None => {
                        rec.applied.insert(key, (e.log_id.leader_id.term, e.log_id.leader_id.node_id, text, self.node));
                    }
                    Some((t, n, first, _)) => {
                        if *t != e.log_id.leader_id.term || *n != e.log_id.leader_id.node_id || *first != text {
                            let first = first.clone();
                            rec.entry_conflicts.push((key, self.node, text, first));
                        }
                    }
                }
            }
        }
        if let Some(last) = entries.last() {
            self.observe(last.log_id.index, "apply");
        }
        Ok(r)
    }
    async fn get_snapshot_builder(&mut self) -> Self::SnapshotBuilder {
        self.inner.get_snapshot_builder().await
    }
    async fn begin_receiving_snapshot(&mut self) -> Result<Box<Cursor<Vec<u8>>>, StorageError<NodeId>> {
        self.inner.begin_receiving_snapshot().await
    }
    async fn install_snapshot(&mut self, meta: &SnapshotMeta<NodeId, RaftNode>, snapshot: Box<Cursor<Vec<u8>>>) -> Result<(), StorageError<NodeId>> {
        self.inner.install_snapshot(meta, snapshot).await?;
        if debug_on() {
            dbg(self.node, format!("install_snapshot {:?}", meta.last_log_id.map(|l| l.to_string())));
        }
        self.rec.lock().unwrap().snapshots_installed += 1;
        if let Some(l) = meta.last_log_id {
            self.observe(l.index, "install_snapshot");
        }
        Ok(())
    }
    async fn get_current_snapshot(&mut self) -> Result<Option<Snapshot<TypeConfig>>, StorageError<NodeId>> {
        let r = self.inner.get_current_snapshot().await;
        if let Ok(Some(s)) = &r {
            if debug_on() {
                dbg(self.node, format!("get_current_snapshot -> {:?}", s.meta.last_log_id.map(|l| l.to_string())));
            }
        }
        r
    }
}

// ---------------------------------------------------------------------------------------------
// in-process network with a fault matrix
// ---------------------------------------------------------------------------------------------
struct Net {
    /// blocked[src][dst]: messages travelling from src to dst (requests of src, responses of src) are lost
    blocked: [[bool; 4]; 4],
    drop_permille: u32,
    delay_max_ms: u64,
    rng: Rng,
    rafts: BTreeMap<u64, VarpulisRaft>,
    rpcs: u64,
    lost_requests: u64,
    lost_responses: u64,
    delayed: u64,
    trace: std::collections::VecDeque<String>,
    t0: Option<tokio::time::Instant>,
}

enum Fate {
    Deliver(u64),
    Lose(u64),
}

impl Net {
    fn new(rng: Rng) -> Net {
        Net { blocked: [[false; 4]; 4], drop_permille: 0, delay_max_ms: 0, rng, rafts: BTreeMap::new(), rpcs: 0, lost_requests: 0, lost_responses: 0, delayed: 0, trace: Default::default(), t0: None }
    }
    fn fate(&mut self, src: u64, dst: u64) -> Fate {
        if self.blocked[src as usize][dst as usize] {
            // a cut link looks like a connect / read timeout of the HTTP client
            return Fate::Lose(50 + self.rng.below(450) as u64);
        }
        if self.drop_permille > 0 && (self.rng.below(1000) as u32) < self.drop_permille {
            return Fate::Lose(50 + self.rng.below(450) as u64);
        }
        if self.delay_max_ms > 0 {
            let d = self.rng.below(self.delay_max_ms as usize + 1) as u64;
            if d > 0 {
                self.delayed += 1;
            }
            return Fate::Deliver(d);
        }
        Fate::Deliver(0)
    }
    fn note(&mut self, s: String) {
        if debug_on() {
            let t = self.t0.map(|t| t.elapsed().as_millis()).unwrap_or(0);
            self.trace.push_back(format!("{t} {s}"));
            if self.trace.len() > 120 {
                self.trace.pop_front();
            }
        }
    }
    fn partitioned(&self) -> bool {
        self.blocked.iter().any(|r| r.iter().any(|b| *b))
    }
}

type SharedNet = Arc<Mutex<Net>>;

#[derive(Clone)]
struct Factory {
    src: u64,
    net: SharedNet,
}

struct Client {
    src: u64,
    dst: u64,
    net: SharedNet,
}

impl RaftNetworkFactory<TypeConfig> for Factory {
    type Network = Client;
    async fn new_client(&mut self, target: NodeId, _node: &RaftNode) -> Self::Network {
        Client { src: self.src, dst: target, net: self.net.clone() }
    }
}

fn unreachable_err(msg: &str) -> Unreachable {
    Unreachable::new(&std::io::Error::other(msg.to_string()))
}

macro_rules! rpc {
    ($self:ident, $method:ident, $rpc:ident) => {{
        let fate = {
            let mut n = $self.net.lock().unwrap();
            n.rpcs += 1;
            let f = n.fate($self.src, $self.dst);
            if matches!(f, Fate::Lose(_)) {
                n.lost_requests += 1;
            }
            f
        };
        match fate {
            Fate::Lose(ms) => {
                tokio::time::sleep(Duration::from_millis(ms)).await;
                return Err(RPCError::Unreachable(unreachable_err("request lost")));
            }
            Fate::Deliver(ms) => {
                if ms > 0 {
                    tokio::time::sleep(Duration::from_millis(ms)).await;
                }
            }
        }
        let target = { $self.net.lock().unwrap().rafts.get(&$self.dst).cloned() };
        let Some(target) = target else {
            tokio::time::sleep(Duration::from_millis(100)).await;
            return Err(RPCError::Unreachable(unreachable_err("connection refused: node is down")));
        };
        // routes.rs: any error of the Raft call becomes HTTP 500, which network.rs maps to Unreachable
        let summary = if debug_on() { format!("{} {}->{} {}", stringify!($method), $self.src, $self.dst, $rpc.summary()) } else { String::new() };
        let resp = match target.$method($rpc).await {
            Ok(r) => r,
            Err(e) => {
                if debug_on() {
                    $self.net.lock().unwrap().note(format!("{summary} => ERR {e}"));
                }
                return Err(RPCError::Unreachable(unreachable_err(&format!("HTTP 500: {e}"))));
            }
        };
        if debug_on() {
            $self.net.lock().unwrap().note(format!("{summary} => {}", format!("{resp:?}").chars().take(160).collect::<String>()));
        }
        let back = {
            let mut n = $self.net.lock().unwrap();
            let f = n.fate($self.dst, $self.src);
            if matches!(f, Fate::Lose(_)) {
                n.lost_responses += 1;
            }
            f
        };
        match back {
            Fate::Lose(ms) => {
                tokio::time::sleep(Duration::from_millis(ms)).await;
                Err(RPCError::Unreachable(unreachable_err("response lost")))
            }
            Fate::Deliver(ms) => {
                if ms > 0 {
                    tokio::time::sleep(Duration::from_millis(ms)).await;
                }
                Ok(resp)
            }
        }
    }};
}

impl RaftNetwork<TypeConfig> for Client {
    async fn vote(&mut self, rpc: VoteRequest<NodeId>, _option: RPCOption) -> Result<VoteResponse<NodeId>, RPCError<NodeId, RaftNode, RaftError<NodeId>>> {
        rpc!(self, vote, rpc)
    }
    async fn append_entries(&mut self, rpc: AppendEntriesRequest<TypeConfig>, _option: RPCOption) -> Result<AppendEntriesResponse<NodeId>, RPCError<NodeId, RaftNode, RaftError<NodeId>>> {
        rpc!(self, append_entries, rpc)
    }
    async fn install_snapshot(&mut self, rpc: InstallSnapshotRequest<TypeConfig>, _option: RPCOption) -> Result<InstallSnapshotResponse<NodeId>, RPCError<NodeId, RaftNode, RaftError<NodeId, InstallSnapshotError>>> {
        rpc!(self, install_snapshot, rpc)
    }
}

// ---------------------------------------------------------------------------------------------
// cluster
// ---------------------------------------------------------------------------------------------
#[derive(Clone, Copy, PartialEq, Eq, Debug)]
enum Kind {
    Mem,
    Rocks,
}
impl Kind {
    fn name(self) -> &'static str {
        match self {
            Kind::Mem => "mem",
            Kind::Rocks => "rocks",
        }
    }
}

#[derive(Clone, Copy, PartialEq, Eq, Debug)]
enum Profile {
    /// exactly the Config of raft/mod.rs (snapshot after 5000 logs: never reached in a short history)
    Prod,
    /// same timing, but snapshot every 6 logs and keep 2: compaction, purge and snapshot
    /// replication to lagging followers happen within a short history
    Compact,
}
impl Profile {
    fn name(self) -> &'static str {
        match self {
            Profile::Prod => "prod-config",
            Profile::Compact => "compacting-config",
        }
    }
    fn config(self) -> openraft::Config {
        let base = openraft::Config { heartbeat_interval: 500, election_timeout_min: 1500, election_timeout_max: 3000, ..Default::default() };
        match self {
            Profile::Prod => base,
            Profile::Compact => openraft::Config { snapshot_policy: SnapshotPolicy::LogsSinceLast(6), max_in_snapshot_log_to_keep: 2, purge_batch_size: 1, ..base },
        }
    }
}

struct Slot {
    raft: Option<VarpulisRaft>,
    shared: Option<SharedCoordinatorState>,
    dir: Option<tempfile::TempDir>,
    incarnation: u32,
    restarted: bool,
}

struct Cluster {
    kind: Kind,
    config: Arc<openraft::Config>,
    net: SharedNet,
    rec: Arc<Mutex<Recorder>>,
    slots: BTreeMap<u64, Slot>,
    dead: BTreeMap<u64, String>,
    t0: tokio::time::Instant,
}

fn scratch_dir() -> std::io::Result<tempfile::TempDir> {
    if std::path::Path::new("/dev/shm").is_dir() {
        if let Ok(d) = tempfile::Builder::new().prefix("vh-c37-").tempdir_in("/dev/shm") {
            return Ok(d);
        }
    }
    tempfile::Builder::new().prefix("vh-c37-").tempdir()
}

impl Cluster {
    async fn start_node(&mut self, id: u64) -> Result<(), String> {
        let (incarnation, restarted) = {
            let s = self.slots.get(&id).ok_or("no slot")?;
            (s.incarnation + 1, s.incarnation > 0)
        };
        let factory = Factory { src: id, net: self.net.clone() };
        let raft: VarpulisRaft = match self.kind {
            Kind::Mem => {
                let (store, shared) = MemStore::with_shared_state();
                let rec = Rec { inner: store, node: id, incarnation, shared: shared.clone(), rec: self.rec.clone(), t0: self.t0 };
                let (ls, sm) = Adaptor::new(rec);
                let raft = openraft::Raft::new(id, self.config.clone(), factory, ls, sm).await.map_err(|e| format!("Raft::new: {e}"))?;
                self.slots.get_mut(&id).unwrap().shared = Some(shared);
                raft
            }
            Kind::Rocks => {
                let path = self.slots[&id].dir.as_ref().ok_or("no dir")?.path().join(format!("node-{id}"));
                let path = path.to_str().ok_or("non-utf8 path")?.to_string();
                let mut opened = None;
                let mut last_err = String::new();
                for _ in 0..20 {
                    match RocksStore::open_with_shared_state(&path) {
                        Ok(x) => {
                            opened = Some(x);
                            break;
                        }
                        Err(e) => {
                            // the previous incarnation's tasks may still hold the DB for a moment
                            last_err = e;
                            tokio::time::sleep(Duration::from_millis(10)).await;
                        }
                    }
                }
                let (mut store, shared) = opened.ok_or_else(|| format!("RocksStore::open_with_shared_state: {last_err}"))?;
                let la = store.last_applied_state().await.map_err(|e| format!("last_applied_state: {e}"))?.0;
                let rec = Rec { inner: store, node: id, incarnation, shared: shared.clone(), rec: self.rec.clone(), t0: self.t0 };
                if restarted {
                    // what the restarted coordinator starts from
                    rec.observe(la.map(|l| l.index).unwrap_or(0), "restart");
                }
                let (ls, sm) = Adaptor::new(rec);
                let raft = openraft::Raft::new(id, self.config.clone(), factory, ls, sm).await.map_err(|e| format!("Raft::new: {e}"))?;
                self.slots.get_mut(&id).unwrap().shared = Some(shared);
                raft
            }
        };
        self.net.lock().unwrap().rafts.insert(id, raft.clone());
        self.dead.remove(&id);
        let s = self.slots.get_mut(&id).unwrap();
        s.raft = Some(raft);
        s.incarnation = incarnation;
        s.restarted = restarted;
        Ok(())
    }

    async fn stop_node(&mut self, id: u64) {
        self.net.lock().unwrap().rafts.remove(&id);
        if let Some(s) = self.slots.get_mut(&id) {
            if let Some(r) = s.raft.take() {
                let _ = r.shutdown().await;
            }
            s.shared = None;
        }
    }

    fn leaders(&self) -> Vec<(u64, u64)> {
        // (term, node) of every running node that believes it is the leader, highest term first
        let mut v = vec![];
        for (id, s) in &self.slots {
            if self.dead.contains_key(id) {
                continue;
            }
            if let Some(r) = &s.raft {
                let m = r.metrics().borrow().clone();
                if m.state == ServerState::Leader {
                    v.push((m.current_term, *id));
                }
            }
        }
        v.sort();
        v.reverse();
        v
    }

    fn running(&self) -> Vec<u64> {
        self.slots.iter().filter(|(_, s)| s.raft.is_some()).map(|(k, _)| *k).collect()
    }

    /// Nodes whose RaftCore task has ended by itself (panic / fatal storage error): such a node
    /// is a crashed coordinator. Returns the newly found ones.
    async fn refresh_dead(&mut self) -> Vec<(u64, String)> {
        let mut found = vec![];
        let ids: Vec<u64> = self.slots.keys().copied().collect();
        for id in ids {
            if self.dead.contains_key(&id) {
                continue;
            }
            let Some(r) = self.slots[&id].raft.clone() else { continue };
            if let Err(e) = r.is_initialized().await {
                let why = format!("{e}; last panic on this thread at {}", panic_site(&last_panic_location()));
                self.dead.insert(id, why.clone());
                found.push((id, why));
            }
        }
        found
    }
}

// ---------------------------------------------------------------------------------------------
// client writes
// ---------------------------------------------------------------------------------------------
#[derive(Clone, Debug)]
enum Outcome {
    Acked { index: u64, term: u64 },
    /// the node answered that it is not the leader: the command was not accepted
    Refused(String),
    /// no answer within the client's patience, or the node died: fate unknown (stays open)
    Unknown(String),
}

#[derive(Clone, Debug)]
struct WriteRec {
    uid: u64,
    key: String,
    node: u64,
    t_call: u64,
    t_ret: Option<u64>,
    outcome: Option<Outcome>,
    partition_at_call: bool,
    partition_at_ret: bool,
}

fn write_cmd(uid: u64) -> (String, ClusterCommand) {
    if uid % 3 == 0 {
        let key = format!("w{uid}");
        (key.clone(), ClusterCommand::RegisterWorker { id: key, address: format!("http://h{uid}:9000"), api_key: format!("k{uid}"), capacity: WorkerCapacity { cpu_cores: 2, pipelines_running: 0, max_pipelines: 10 } })
    } else {
        let key = format!("g{uid}");
        (key.clone(), ClusterCommand::GroupDeployed { name: key.clone(), group: json!({"id": key, "uid": uid, "status": "running"}) })
    }
}

fn key_present(state: &J, key: &str) -> bool {
    if key.starts_with('w') {
        state.get("workers").and_then(|w| w.get(key)).is_some()
    } else {
        state.get("pipeline_groups").and_then(|w| w.get(key)).is_some()
    }
}

type Writes = Arc<Mutex<Vec<WriteRec>>>;

fn spawn_write(raft: VarpulisRaft, node: u64, uid: u64, writes: Writes, net: SharedNet, t0: tokio::time::Instant, patience_ms: u64) -> tokio::task::JoinHandle<()> {
    let (key, cmd) = write_cmd(uid);
    let slot = {
        let mut w = writes.lock().unwrap();
        let p = net.lock().unwrap().partitioned();
        w.push(WriteRec { uid, key, node, t_call: now_ms(t0), t_ret: None, outcome: None, partition_at_call: p, partition_at_ret: false });
        w.len() - 1
    };
    tokio::spawn(async move {
        let r = tokio::time::timeout(Duration::from_millis(patience_ms), raft.client_write(cmd)).await;
        let outcome = match r {
            Ok(Ok(resp)) => Outcome::Acked { index: resp.log_id.index, term: resp.log_id.leader_id.term },
            Ok(Err(RaftError::APIError(e))) => Outcome::Refused(format!("{e}")),
            Ok(Err(RaftError::Fatal(e))) => Outcome::Unknown(format!("fatal: {e}")),
            Err(_) => Outcome::Unknown("client timeout".to_string()),
        };
        let p = net.lock().unwrap().partitioned();
        let mut w = writes.lock().unwrap();
        w[slot].t_ret = Some(now_ms(t0));
        w[slot].outcome = Some(outcome);
        w[slot].partition_at_ret = p;
    })
}

// ---------------------------------------------------------------------------------------------
// one history
// ---------------------------------------------------------------------------------------------
struct HistoryResult {
    events: Vec<J>,
    writes: Vec<WriteRec>,
    recorder: Recorder,
    final_states: BTreeMap<u64, (u64, J)>,
    barrier: Result<u64, String>,
    leader_terms: BTreeSet<(u64, u64)>,
    restarted_nodes: BTreeSet<u64>,
    net_stats: J,
    fatal: Vec<String>,
    restart_failures: Vec<String>,
    final_metrics: Vec<String>,
    dead: BTreeMap<u64, String>,
    trace: Vec<String>,
    harness_error: Option<String>,
}

async fn wait_for_leader(c: &Cluster, max_ms: u64) -> Option<u64> {
    let mut waited = 0;
    loop {
        if let Some((_, id)) = c.leaders().first() {
            return Some(*id);
        }
        if waited >= max_ms {
            return None;
        }
        tokio::time::sleep(Duration::from_millis(100)).await;
        waited += 100;
    }
}

async fn run_history(kind: Kind, profile: Profile, mut rng: Rng) -> HistoryResult {
    let t0 = tokio::time::Instant::now();
    let net: SharedNet = Arc::new(Mutex::new(Net::new(rng.fork(11))));
    net.lock().unwrap().t0 = Some(t0);
    let rec = Arc::new(Mutex::new(Recorder::default()));
    let writes: Writes = Arc::new(Mutex::new(vec![]));
    let mut c = Cluster { kind, config: Arc::new(profile.config()), net: net.clone(), rec: rec.clone(), slots: BTreeMap::new(), dead: BTreeMap::new(), t0 };
    let mut events: Vec<J> = vec![];
    let mut leader_terms: BTreeSet<(u64, u64)> = BTreeSet::new();
    let mut restarted_nodes = BTreeSet::new();
    let mut handles = vec![];
    let mut uid = 0u64;
    let mut harness_error = None;
    let mut restart_failures: Vec<String> = vec![];
    macro_rules! ev {
        ($($t:tt)*) => { events.push(json!({"t_ms": now_ms(t0), "event": json!($($t)*)})) };
    }

    for id in 1..=3u64 {
        let dir = if kind == Kind::Rocks {
            match scratch_dir() {
                Ok(d) => Some(d),
                Err(e) => {
                    harness_error = Some(format!("tempdir: {e}"));
                    None
                }
            }
        } else {
            None
        };
        c.slots.insert(id, Slot { raft: None, shared: None, dir, incarnation: 0, restarted: false });
    }
    if harness_error.is_none() {
        for id in 1..=3u64 {
            if let Err(e) = c.start_node(id).await {
                harness_error = Some(format!("start node {id}: {e}"));
                break;
            }
        }
    }
    if harness_error.is_none() {
        // raft/mod.rs: only node 1 initializes the membership, with all peers
        let mut members = BTreeMap::new();
        for id in 1..=3u64 {
            members.insert(id, RaftNode { addr: format!("http://coordinator-{id}:9100") });
        }
        if let Some(r) = &c.slots[&1].raft {
            if let Err(e) = r.initialize(members).await {
                harness_error = Some(format!("initialize: {e}"));
            }
        }
    }
    let mut stopped: Option<u64> = None;
    if harness_error.is_none() {
        if wait_for_leader(&c, 20_000).await.is_none() {
            harness_error = Some("no leader within 20 virtual seconds on a healthy network".into());
        }
    }
    if harness_error.is_none() {
        let rounds = 2 + rng.below(4);
        for round in 0..rounds {
            for (id, why) in c.refresh_dead().await {
                ev!({"raft_core_of_node_ended_by_itself": id, "error": why});
            }
            for l in c.leaders() {
                leader_terms.insert(l);
            }
            // a few writes on the healthy (or still lossy) network
            let leader = c.leaders().first().map(|l| l.1);
            for _ in 0..rng.below(4) {
                let node = leader.filter(|_| rng.chance(4, 5)).unwrap_or_else(|| *rng.pick(&c.running()));
                if let Some(r) = &c.slots[&node].raft {
                    uid += 1;
                    handles.push(spawn_write(r.clone(), node, uid, writes.clone(), net.clone(), t0, 8_000));
                    ev!({"client_write": uid, "to_node": node});
                }
                tokio::time::sleep(Duration::from_millis(rng.below(300) as u64)).await;
            }
            // fault
            let leader = c.leaders().first().map(|l| l.1);
            let victim = match leader {
                Some(l) if rng.chance(2, 3) => l,
                _ => 1 + rng.below(3) as u64,
            };
            let fault = rng.below(if kind == Kind::Rocks { 9 } else { 7 });
            match fault {
                0 | 1 => {
                    let mut n = net.lock().unwrap();
                    for o in 1..=3u64 {
                        if o != victim {
                            n.blocked[victim as usize][o as usize] = true;
                            n.blocked[o as usize][victim as usize] = true;
                        }
                    }
                    drop(n);
                    ev!({"isolate_both_directions": victim, "was_leader": leader == Some(victim)});
                }
                2 => {
                    let mut n = net.lock().unwrap();
                    for o in 1..=3u64 {
                        if o != victim {
                            n.blocked[victim as usize][o as usize] = true;
                        }
                    }
                    drop(n);
                    ev!({"cut_outbound_of": victim, "was_leader": leader == Some(victim)});
                }
                3 => {
                    let mut n = net.lock().unwrap();
                    for o in 1..=3u64 {
                        if o != victim {
                            n.blocked[o as usize][victim as usize] = true;
                        }
                    }
                    drop(n);
                    ev!({"cut_inbound_of": victim, "was_leader": leader == Some(victim)});
                }
                4 => {
                    let a = 1 + rng.below(3) as u64;
                    let b = 1 + ((a as usize + rng.below(2)) % 3) as u64;
                    if a != b {
                        net.lock().unwrap().blocked[a as usize][b as usize] = true;
                        ev!({"cut_directed_link": [a, b]});
                    }
                }
                5 => {
                    let (d, l) = *rng.pick(&[(50u32, 0u64), (200, 0), (0, 400), (100, 800), (300, 1500)]);
                    let mut n = net.lock().unwrap();
                    n.drop_permille = d;
                    n.delay_max_ms = l;
                    drop(n);
                    ev!({"lossy_network": {"drop_permille": d, "delay_max_ms": l}});
                }
                6 => {
                    // leader isolation plus loss on the remaining links
                    let mut n = net.lock().unwrap();
                    for o in 1..=3u64 {
                        if o != victim {
                            n.blocked[victim as usize][o as usize] = true;
                            n.blocked[o as usize][victim as usize] = true;
                        }
                    }
                    n.drop_permille = 100;
                    drop(n);
                    ev!({"isolate_both_directions": victim, "was_leader": leader == Some(victim), "plus_drop_permille": 100});
                }
                _ => {
                    if stopped.is_none() {
                        c.stop_node(victim).await;
                        stopped = Some(victim);
                        ev!({"stop_node": victim, "was_leader": leader == Some(victim)});
                    }
                }
            }
            // writes while the fault is active: to the old leader (may stay open) and, after an
            // election timeout, to whoever leads the majority side
            if let Some(l) = leader {
                if let Some(r) = c.slots[&l].raft.as_ref() {
                    for _ in 0..rng.below(3) {
                        uid += 1;
                        handles.push(spawn_write(r.clone(), l, uid, writes.clone(), net.clone(), t0, 8_000));
                        ev!({"client_write": uid, "to_node": l, "note": "leader before the fault"});
                    }
                }
            }
            tokio::time::sleep(Duration::from_millis(500 + rng.below(6000) as u64)).await;
            for (id, why) in c.refresh_dead().await {
                ev!({"raft_core_of_node_ended_by_itself": id, "error": why});
            }
            for l in c.leaders() {
                leader_terms.insert(l);
            }
            for _ in 0..1 + rng.below(4) {
                let ls = c.leaders();
                let node = if !ls.is_empty() && rng.chance(5, 6) { ls[rng.below(ls.len())].1 } else { *rng.pick(&c.running()) };
                if let Some(r) = &c.slots[&node].raft {
                    uid += 1;
                    handles.push(spawn_write(r.clone(), node, uid, writes.clone(), net.clone(), t0, 8_000));
                    ev!({"client_write": uid, "to_node": node, "believed_leaders": ls.iter().map(|l| l.1).collect::<Vec<_>>()});
                }
                tokio::time::sleep(Duration::from_millis(rng.below(1500) as u64)).await;
            }
            for l in c.leaders() {
                leader_terms.insert(l);
            }
            // heal (sometimes keep the fault into the next round)
            if rng.chance(3, 4) || round + 1 == rounds {
                {
                    let mut n = net.lock().unwrap();
                    n.blocked = [[false; 4]; 4];
                    n.drop_permille = 0;
                    n.delay_max_ms = 0;
                }
                ev!("heal");
                if let Some(id) = stopped.take() {
                    match c.start_node(id).await {
                        Ok(()) => {
                            restarted_nodes.insert(id);
                            ev!({"restart_node": id});
                        }
                        Err(e) => {
                            // a coordinator that cannot come back is a crashed coordinator: the history goes on without it
                            restart_failures.push(format!("node {id}: {e}"));
                            ev!({"restart_failed": id, "error": e});
                        }
                    }
                }
                tokio::time::sleep(Duration::from_millis(rng.below(4000) as u64)).await;
            }
        }
    }
    // faults stop
    {
        let mut n = net.lock().unwrap();
        n.blocked = [[false; 4]; 4];
        n.drop_permille = 0;
        n.delay_max_ms = 0;
    }
    if harness_error.is_none() {
        if let Some(id) = stopped.take() {
            match c.start_node(id).await {
                Ok(()) => {
                    restarted_nodes.insert(id);
                    ev!({"restart_node": id});
                }
                Err(e) => {
                    restart_failures.push(format!("node {id}: {e}"));
                    ev!({"restart_failed": id, "error": e});
                }
            }
        }
    }
    ev!("faults stop");
    for h in handles {
        let _ = h.await;
    }
    // barrier: bounded progress after the faults stopped
    let mut barrier: Result<u64, String> = Err("not attempted".into());
    if harness_error.is_none() {
        let deadline = 60_000u64;
        let start = now_ms(t0);
        let mut attempt = 0;
        while now_ms(t0) - start < deadline {
            attempt += 1;
            for (id, why) in c.refresh_dead().await {
                ev!({"raft_core_of_node_ended_by_itself": id, "error": why});
            }
            let Some(l) = wait_for_leader(&c, 2_000).await else { continue };
            let Some(r) = c.slots[&l].raft.clone() else { continue };
            let cmd = ClusterCommand::GroupDeployed { name: format!("barrier{attempt}"), group: json!({"id": "barrier", "attempt": attempt}) };
            match tokio::time::timeout(Duration::from_millis(8_000), r.client_write(cmd)).await {
                Ok(Ok(resp)) => {
                    barrier = Ok(resp.log_id.index);
                    ev!({"barrier_committed_at_index": resp.log_id.index, "by_node": l});
                    break;
                }
                Ok(Err(e)) => barrier = Err(format!("barrier write refused by node {l}: {e}")),
                Err(_) => barrier = Err(format!("barrier write to node {l} timed out")),
            }
            tokio::time::sleep(Duration::from_millis(500)).await;
        }
        if let Ok(bi) = barrier {
            // every node applies up to the barrier
            let start = now_ms(t0);
            loop {
                for (id, why) in c.refresh_dead().await {
                    ev!({"raft_core_of_node_ended_by_itself": id, "error": why});
                }
                let behind: Vec<u64> = c.slots.iter().filter(|(id, _)| !c.dead.contains_key(id)).filter(|(_, s)| s.raft.as_ref().map(|r| r.metrics().borrow().last_applied.map(|l| l.index).unwrap_or(0) < bi).unwrap_or(false)).map(|(k, _)| *k).collect();
                if behind.is_empty() {
                    break;
                }
                if now_ms(t0) - start > 60_000 {
                    barrier = Err(format!("nodes {behind:?} did not apply the barrier (index {bi}) within 60 virtual seconds after it committed"));
                    break;
                }
                tokio::time::sleep(Duration::from_millis(200)).await;
            }
        }
    }
    let mut final_states = BTreeMap::new();
    let mut fatal = vec![];
    let mut final_metrics = vec![];
    for (id, s) in &c.slots {
        if c.dead.contains_key(id) {
            final_metrics.push(format!("node {id}: RaftCore ended by itself: {}", c.dead[id]));
            continue;
        }
        if let (Some(r), Some(sh)) = (&s.raft, &s.shared) {
            let m = r.metrics().borrow().clone();
            if let Err(e) = &m.running_state {
                fatal.push(format!("node {id}: {e}"));
            }
            final_metrics.push(format!("node {id}: {:?} term {} leader {:?} last_log {:?} applied {:?} snapshot {:?} purged {:?}", m.state, m.current_term, m.current_leader, m.last_log_index, m.last_applied.map(|l| l.index), m.snapshot.map(|l| l.index), m.purged.map(|l| l.index)));
            let st = {
                let g = sh.read().unwrap_or_else(|e| e.into_inner());
                to_j(&*g)
            };
            final_states.insert(*id, (m.last_applied.map(|l| l.index).unwrap_or(0), st));
        }
    }
    let trace: Vec<String> = net.lock().unwrap().trace.iter().cloned().collect();
    let net_stats = {
        let n = net.lock().unwrap();
        json!({"rpcs": n.rpcs, "lost_requests": n.lost_requests, "lost_responses": n.lost_responses, "delayed": n.delayed})
    };
    for id in 1..=3u64 {
        c.stop_node(id).await;
    }
    let dead = c.dead.clone();
    let writes = writes.lock().unwrap().clone();
    let recorder = std::mem::take(&mut *rec.lock().unwrap());
    HistoryResult { events, writes, recorder, final_states, barrier, leader_terms, restarted_nodes, net_stats, fatal, restart_failures, final_metrics, dead, trace, harness_error }
}

// ---------------------------------------------------------------------------------------------
// offline checks
// ---------------------------------------------------------------------------------------------
fn write_json(w: &WriteRec) -> J {
    json!({"uid": w.uid, "key": w.key, "to_node": w.node, "t_call_ms": w.t_call, "t_return_ms": w.t_ret, "outcome": match &w.outcome {
        Some(Outcome::Acked { index, term }) => json!({"acknowledged": {"index": index, "term": term}}),
        Some(Outcome::Refused(e)) => json!({"refused": e}),
        Some(Outcome::Unknown(e)) => json!({"open": e}),
        None => json!("open: never returned"),
    }})
}

fn check_history(kind: Kind, profile: Profile, h: &HistoryResult, out: &mut Partial) {
    out.eval();
    if let Some(e) = &h.harness_error {
        out.inconclusive(&format!("{}/{}: {e}; fatal: {:?}", kind.name(), profile.name(), h.fatal));
        return;
    }
    let compaction = h.recorder.purges > 0 || h.recorder.snapshots_installed > 0;
    // signature context: store kind x (some node was stopped and restarted in this history) x (some
    // node purged its log / installed a snapshot) — a state lost at a restart also reaches nodes that
    // never restarted, through the snapshots the restarted node sends as a leader
    let ctx = |_node: Option<u64>| -> String {
        format!("{}/{}/{}", kind.name(), if h.restarted_nodes.is_empty() { "no-restart" } else { "with-restart" }, if compaction { "with-compaction" } else { "no-compaction" })
    };
    let history_json = || -> J {
        json!({
            "cluster": {"nodes": 3, "store": kind.name(), "config": profile.name()},
            "events": h.events,
            "client_writes": h.writes.iter().map(write_json).collect::<Vec<_>>(),
            "network": h.net_stats,
            "storage": {"purges": h.recorder.purges, "snapshots_installed": h.recorder.snapshots_installed, "conflict_deletes": h.recorder.conflict_deletes},
        })
    };
    out.add("observations", h.recorder.obs.len() as u64);
    out.add("rpcs", h.net_stats["rpcs"].as_u64().unwrap_or(0));
    out.add("rpc_messages_lost", h.net_stats["lost_requests"].as_u64().unwrap_or(0) + h.net_stats["lost_responses"].as_u64().unwrap_or(0));
    out.add("purges", h.recorder.purges);
    out.add("snapshots_installed", h.recorder.snapshots_installed);
    out.add("conflict_deletes", h.recorder.conflict_deletes);
    out.add("node_restarts", h.restarted_nodes.len() as u64);
    out.add("raft_core_fatal", h.fatal.len() as u64);
    out.add("raft_cores_ended_by_themselves", h.dead.len() as u64);
    for why in h.dead.values() {
        let site = why.rsplit("last panic on this thread at ").next().unwrap_or("");
        let site = site.rsplit("/src/").next().unwrap_or(site);
        out.add(&format!("raft_core_ended/{}", if why.contains("panicked") { format!("panic at openraft {site}") } else { "fatal-error".to_string() }), 1);
    }
    out.add("node_restart_failures", h.restart_failures.len() as u64);

    // (a) equal last_applied => equal state, across nodes and time
    let mut by_index: BTreeMap<u64, &Obs> = BTreeMap::new();
    let mut reported = false;
    for o in &h.recorder.obs {
        match by_index.get(&o.index) {
            None => {
                by_index.insert(o.index, o);
            }
            Some(first) => {
                out.add("equal_position_comparisons", 1);
                let mut same = first.state == o.state;
                if perturb("agreement-sees-a-difference") && first.node != o.node && o.index >= 3 {
                    same = false;
                }
                if !same && !reported {
                    reported = true;
                    let offender = if h.restarted_nodes.contains(&o.node) { o.node } else { first.node };
                    out.violation(
                        &format!("agreement/state-at-equal-position/{}", ctx(Some(offender))),
                        "two coordinators (or one coordinator at two times) that applied the log up to the same position hold different cluster states",
                        json!({"position": o.index, "a": {"node": first.node, "incarnation": first.incarnation, "observed_after": first.kind, "t_ms": first.t_ms, "state": serde_json::from_str::<J>(&first.state).unwrap_or(J::Null)},
                            "b": {"node": o.node, "incarnation": o.incarnation, "observed_after": o.kind, "t_ms": o.t_ms, "state": serde_json::from_str::<J>(&o.state).unwrap_or(J::Null)}, "history": history_json()}),
                    );
                }
            }
        }
    }
    if let Some((idx, node, got, first)) = h.recorder.entry_conflicts.first() {
        out.violation(
            &format!("agreement/applied-entry/{}", ctx(Some(*node))),
            "two coordinators applied different log entries at the same position",
            json!({"position": idx, "node": node, "applied": got, "first_applied_elsewhere": first, "history": history_json()}),
        );
    }
    // (b) state at index i == fold of the applied entries up to i
    {
        let mut st = CoordinatorState::default();
        let mut fold_at: BTreeMap<u64, String> = BTreeMap::new();
        let mut next = 0u64;
        // openraft's first entry has index 0 (the initial membership)
        while let Some((_, _, text, _)) = h.recorder.applied.get(&next) {
            if !text.starts_with("blank") && !text.starts_with("membership") {
                if let Ok(cmd) = serde_json::from_str::<ClusterCommand>(text) {
                    apply_command(&mut st, cmd);
                }
            }
            fold_at.insert(next, canon(&to_j(&st)));
            next += 1;
        }
        let mut reported = false;
        for o in &h.recorder.obs {
            if let Some(f) = fold_at.get(&o.index) {
                out.add("prefix_fold_comparisons", 1);
                if *f != *o.state && !reported {
                    reported = true;
                    out.violation(
                        &format!("agreement/state-vs-applied-prefix/{}", ctx(Some(o.node))),
                        "the state a coordinator holds at a position is not the result of the commands applied up to that position",
                        json!({"position": o.index, "node": o.node, "incarnation": o.incarnation, "observed_after": o.kind, "t_ms": o.t_ms, "observed_state": serde_json::from_str::<J>(&o.state).unwrap_or(J::Null), "fold_of_applied_prefix": serde_json::from_str::<J>(f).unwrap_or(J::Null),
                            "applied_prefix": h.recorder.applied.iter().filter(|(k, _)| **k <= o.index).map(|(k, v)| json!({"index": k, "term": v.0, "payload": v.2})).collect::<Vec<_>>(), "history": history_json()}),
                    );
                }
            }
        }
    }
    // (c) durability of acknowledged writes, after the barrier
    let acked: Vec<&WriteRec> = h.writes.iter().filter(|w| matches!(w.outcome, Some(Outcome::Acked { .. }))).collect();
    out.add("client_writes", h.writes.len() as u64);
    out.add("client_writes_acknowledged", acked.len() as u64);
    out.add("client_writes_open", h.writes.iter().filter(|w| matches!(w.outcome, Some(Outcome::Unknown(_)) | None)).count() as u64);
    out.add("client_writes_refused", h.writes.iter().filter(|w| matches!(w.outcome, Some(Outcome::Refused(_)))).count() as u64);
    let acked_in_partition = acked.iter().filter(|w| w.partition_at_call && w.partition_at_ret).count();
    out.add("client_writes_acknowledged_during_partition", acked_in_partition as u64);
    let leader_nodes: BTreeSet<u64> = h.leader_terms.iter().map(|l| l.1).collect();
    let leader_changes = h.leader_terms.len().saturating_sub(1);
    out.add("leader_terms_seen", h.leader_terms.len() as u64);
    match &h.barrier {
        Err(_) if h.dead.len() >= 2 => {
            // two of the three coordinators crashed by themselves and MemStore nodes cannot come
            // back: no majority is left, so the bounded-progress premise does not apply. The
            // agreement checks above still ran; the durability check needs the barrier.
            out.add("histories_without_barrier_because_two_raft_cores_ended_by_themselves", 1);
        }
        Err(e) => {
            out.add("histories_without_barrier", 1);
            out.inconclusive(&format!("{}/{}: no progress after the faults stopped: {e}; fatal: {:?}; metrics: {:?}", kind.name(), profile.name(), h.fatal, h.final_metrics));
            if debug_on() {
                eprintln!("---- no barrier: {e}\n{:#?}\n{}\nTRACE\n{}", h.final_metrics, h.events.iter().map(|e| e.to_string()).collect::<Vec<_>>().join("\n"), h.trace.join("\n"));
            }
        }
        Ok(bi) => {
            out.add("histories_with_barrier", 1);
            for (node, (la, st)) in &h.final_states {
                if la < bi {
                    continue;
                }
                for w in &acked {
                    out.add("durability_checks", 1);
                    let mut present = key_present(st, &w.key);
                    if perturb("durability-misses-one") && w.uid == 2 {
                        present = false;
                    }
                    if !present {
                        out.violation(
                            &format!("durability/acknowledged-write-missing/{}", ctx(Some(*node))),
                            "a write that was acknowledged to its client is absent from a coordinator's replicated state after the faults stopped and a later barrier write was applied",
                            json!({"missing_write": write_json(w), "node": node, "node_last_applied": la, "barrier_index": bi, "node_state": st, "history": history_json()}),
                        );
                        break;
                    }
                }
            }
        }
    }
    // coverage
    if leader_changes >= 1 && acked_in_partition >= 1 {
        out.nontrivial(&hash64(&h.recorder.order));
    }
    if leader_nodes.len() >= 2 {
        out.add("histories_with_leader_moved_to_another_node", 1);
    }
    out.add(&format!("histories_{}_{}", kind.name(), profile.name()), 1);
    if out.samples.is_empty() && leader_changes >= 1 && acked_in_partition >= 1 {
        out.sample(json!({"history": history_json(), "leader_terms": h.leader_terms.iter().map(|l| json!({"term": l.0, "node": l.1})).collect::<Vec<_>>(), "barrier_index": h.barrier.clone().ok()}));
    }
}

fn main() {
    let args = Args::parse();
    if !debug_on() {
        install_quiet_panic_hook();
    }
    watchdog("C37", args.pick(600, 5400));
    if let Some(p) = args.opt("--perturb") {
        let _ = PERTURB.set(p);
    }
    let mut rep = Report::new("C37", "exploration", &args);
    rep.rule = "3-node in-process clusters (real openraft + varpulis MemStore/RocksStore + state machine, production Config timing) run 2-5 rounds of: writes to the believed leader or a random node; one fault out of {isolate a node (2/3 of the time the leader) in both directions, cut only its outbound or only its inbound messages, cut one directed link, loss 5-30% and/or delay up to 1.5 s on every message, leader isolation plus 10% loss, stop a node (RocksStore clusters; restarted at heal)}; writes to the pre-fault leader and, after an election timeout, to the nodes that believe they lead; heal (3/4) or carry the fault into the next round. Then all faults stop, a barrier write must commit and be applied everywhere. One evaluation = one history. Non-trivial: the history saw >=2 distinct (term, leader) pairs (a leader change) and >=1 client write called and acknowledged while a link cut was active; distinct by the recorded order of (node, applied index) events.".into();
    rep.assume("the in-process network stands for network.rs/routes.rs: request -> raft.vote/append_entries/install_snapshot on the target; every Raft error and every lost request or response is reported to the sender as RPCError::Unreachable, as the HTTP client does");
    rep.assume("a node stop is raft.shutdown() at a quiescent point of its storage (crash points inside a storage call are C36's subject); MemStore nodes are never restarted because they have no durable state by design");
    rep.assume("the 'compacting-config' lane uses the production Config except snapshot_policy=LogsSinceLast(6), max_in_snapshot_log_to_keep=2, purge_batch_size=1, so that snapshot, purge and snapshot replication are reached within a short history");
    rep.assume("schedules are sampled, not enumerated: openraft draws its election timeouts from its own RNG; a history is identified by what was recorded, not by the seed");
    rep.assume("presence of an acknowledged write = its uniquely named key (worker id / group name, never removed by any later command) is in the coordinator's SharedCoordinatorState");
    let thorough = args.thorough();
    let per_thread = args.pick(24usize, 320usize);
    let parts = parallel(ncpu(), args.seed, move |ti, rng| {
        let mut out = Partial::default();
        let mut orders: BTreeSet<u64> = BTreeSet::new();
        let rt = tokio::runtime::Builder::new_current_thread().enable_all().start_paused(true).build().expect("rt");
        for i in 0..per_thread {
            // lanes: mostly MemStore (what `bootstrap` uses); RocksStore clusters for restarts
            let lane = (ti + i) % 8;
            let (kind, profile) = match lane {
                0 | 1 | 2 => (Kind::Mem, Profile::Prod),
                3 | 4 | 5 => (Kind::Mem, Profile::Compact),
                6 => (Kind::Rocks, Profile::Prod),
                _ => (Kind::Rocks, Profile::Compact),
            };
            if kind == Kind::Rocks && !thorough && i >= 8 {
                continue;
            }
            let hr = rng.fork(i as u64 + 1);
            let r = catch(std::panic::AssertUnwindSafe(|| rt.block_on(run_history(kind, profile, hr))));
            match r {
                Ok(h) => {
                    check_history(kind, profile, &h, &mut out);
                    orders.insert(hash64(&h.recorder.order));
                }
                Err(p) => out.inconclusive(&format!("harness panic in a {} history: {p} at {}", kind.name(), panic_site(&last_panic_location()))),
            }
        }
        (out, orders)
    });
    let mut orders = BTreeSet::new();
    for (p, o) in parts {
        rep.merge(p);
        orders.extend(o);
    }
    rep.set("distinct_apply_interleavings_seen", json!(orders.len()));
    std::process::exit(rep.finish());
}
