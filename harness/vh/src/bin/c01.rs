//! C01 — every reported pattern match is a genuine occurrence of the pattern.
//! Monitor (soundness oracle, independent of the matching strategy): every emitted uid tuple
//! is checked against the input stream with an independent filter evaluator.
use serde_json::json;
use vh::eng::*;
use vh::seqgen::*;
use vh::*;

fn check_one(p: &SeqProg, evs: &[GEvent], rt: &tokio::runtime::Runtime, out: &mut Partial) {
    let src = p.vpl();
    let events: Vec<_> = evs.iter().map(|g| g.to_event(p.key_as_string)).collect();
    out.eval();
    let r = catch(std::panic::AssertUnwindSafe(|| run_flat(rt, &src, &events)));
    let emitted = match r {
        Ok(Ok(o)) => o,
        Ok(Err(e)) => {
            out.add("programs_rejected", 1);
            if out.counters.get("programs_rejected").copied().unwrap_or(0) <= 2 {
                out.sample(json!({"rejected_program": src, "error": e}));
            }
            return;
        }
        Err(pn) => {
            out.violation("panic", "engine panicked on a sequence program", json!({"program": src, "events": evs.iter().map(|g| g.json()).collect::<Vec<_>>(), "panic": pn, "site": panic_site(&last_panic_location())}));
            return;
        }
    };
    let n = p.steps.len();
    let wit = |what: &str, t: &Vec<i64>| json!({"program": src, "events": evs.iter().map(|g| g.json()).collect::<Vec<_>>(), "match": t, "what": what});
    if !emitted.is_empty() {
        out.nontrivial(&(src.clone(), evs.iter().map(|g| (g.uid, g.ty.clone(), g.x, g.f2, g.s, g.key)).collect::<Vec<_>>()));
    }
    for e in &emitted {
        out.add("matches_checked", 1);
        let t = match tuple_of(e, n) {
            Some(t) => t,
            None => {
                out.violation("emit/unreadable-tuple", "emitted match does not carry the projected uids", json!({"program": src, "event": event_json(e)}));
                continue;
            }
        };
        // events exist + strictly increasing arrival order
        let mut cap: Vec<Option<GEvent>> = vec![None; n];
        let mut ok = true;
        for (i, u) in t.iter().enumerate() {
            match evs.iter().find(|g| g.uid == *u) {
                Some(g) => cap[i] = Some(g.clone()),
                None => {
                    out.violation("match/unknown-event", "match refers to an event that was never fed", wit("unknown uid", &t));
                    ok = false;
                }
            }
        }
        if !ok {
            continue;
        }
        if t.windows(2).any(|w| w[0] >= w[1]) {
            out.violation("match/order", "events of a match are not in step order of arrival", wit("order", &t));
            continue;
        }
        // types + filters (filter of step i sees captures of steps < i)
        for i in 0..n {
            let g = cap[i].clone().unwrap();
            if g.ty != TYPES[p.steps[i].ty] {
                out.violation("match/type", "event of a match does not have its step's type", wit(&format!("step {} type", i), &t));
            }
            if let Some(f) = &p.steps[i].filter {
                let mut visible = cap.clone();
                for v in visible.iter_mut().skip(i) {
                    *v = None;
                }
                if !f.eval(&g, &visible) {
                    let sig = if f.has_ref() { "match/filter-false/cross-alias" } else { "match/filter-false/constant" };
                    out.violation(sig, "event of a match does not satisfy its step's filter", wit(&format!("step {} filter {}", i, f.txt()), &t));
                }
            }
        }
        // partition
        if p.partitioned {
            let k0 = cap[0].as_ref().unwrap().key;
            if cap.iter().any(|c| c.as_ref().unwrap().key != k0) {
                out.violation("match/partition-mixed", "events of a match have different partition values", wit("partition", &t));
            }
        }
        // negation: no clause-satisfying event of the match's partition strictly between first and last
        if let Some(nf) = &p.not {
            let (first, last) = (t[0], t[n - 1]);
            let k0 = cap[0].as_ref().unwrap().key;
            let mut c0 = vec![None; n];
            c0[0] = cap[0].clone();
            for g in evs.iter().filter(|g| g.uid > first && g.uid < last && g.ty == NOT_TYPE) {
                if p.partitioned && g.key != k0 {
                    continue;
                }
                if nf.as_ref().map(|f| f.eval(g, &c0)).unwrap_or(true) {
                    out.violation("match/negated-event-inside", "an event satisfying the .not clause arrived between the match's first and last event", wit(&format!("negated uid {}", g.uid), &t));
                    break;
                }
            }
        }
    }
    if out.samples.len() < 2 && emitted.len() >= 2 && p.has_all() {
        out.sample(json!({"program": src, "events": evs.iter().map(|g| g.json()).collect::<Vec<_>>(), "emitted": emitted.iter().map(|e| tuple_of(e, n)).collect::<Vec<_>>()}));
    }
}

fn main() {
    let args = Args::parse();
    install_quiet_panic_hook();
    watchdog("C01", args.pick(1200, 14400));
    let mut rep = Report::new("C01", "exploration", &args);
    rep.rule = "random 1-4 step sequence programs (arrow and sequence() forms, optional `all` on one later step, constant and cross-alias filters incl. mixed int/float ordering comparisons (int field vs float literal / float alias field and vice versa, judged exactly on doubled integers), optional partition_by with int/string keys and key-less events, optional .not(N [where ..])) x random streams of 6-40 events over small value domains. Every emitted match is checked: known events, strictly increasing arrival order, step types, step filters under an independent evaluator, one partition value, no clause-satisfying negated event of the match's partition strictly inside. Non-trivial: (program, stream) with >=1 emitted match; distinct by (program text, stream).".into();
    rep.assume("for an `all` step the projected uid is the one the engine reports for that alias (the last accumulated event); the full Kleene combination is C03's subject");
    rep.assume(".not filters reference only constants and the first alias; for partitioned programs only negated events of the match's own partition count (C04-compatible reading)");
    let threads = ncpu();
    let progs = args.pick(1000usize, 12_000usize);
    let streams_per = args.pick(5usize, 10usize);
    let per_thread = progs / threads + 1;
    let parts = parallel(threads, args.seed ^ 0xC01, move |_ti, mut rng| {
        let mut out = Partial::default();
        let rt = rt();
        MIXED_ATOMS.with(|m| m.set(true));
        let opts = GenOpts { allow_all: true, min_steps: 1, max_steps: 4 };
        for _ in 0..per_thread {
            let mut p = gen_prog(&mut rng, &opts, "S");
            if p.steps.len() == 1 && !p.sequence_fn {
                p.sequence_fn = true;
            }
            for _ in 0..streams_per {
                let len = 6 + rng.below(35);
                let nkeys = 1 + rng.below(3);
                let miss = p.partitioned && rng.chance(1, 2);
                let evs = gen_stream(&mut rng, len, nkeys, p.not.is_some(), miss);
                check_one(&p, &evs, &rt, &mut out);
            }
        }
        out
    });
    for p in parts {
        rep.merge(p);
    }
    std::process::exit(rep.finish());
}
