//! C05 — pattern state stays within its documented bounds and never panics.
//! Monitor: invariant assertions on `SaseEngine::{stats, extended_stats}` after every event
//! (runs per partition <= max_runs, Kleene events per match <= cap, results per completion
//! <= cap), every call under catch_unwind, for all five backpressure strategies.
use serde_json::json;
use std::collections::BTreeMap;
use varpulis_core::Value;
use varpulis_runtime::sase::{BackpressureStrategy, CompareOp, PatternBuilder, Predicate, SaseEngine, SasePattern};
use vh::eng::*;
use vh::*;

#[derive(Clone, Debug)]
struct Cfg {
    strategy: usize, // 0 drop 1 error 2 evict-oldest 3 evict-least-progress 4.. sample
    rate: f64,
    max_runs: usize,
    partitioned: bool,
    pattern: usize, // 0: A->B->C ; 1: A->B+ (self-ref) ->C ; 2: A->B+->C consistent ; 3: AND(A,B)->C ; 4: A -> B with .not(N)
    cap_events: u32,
    cap_results: usize,
    use_result_api: bool,
}

fn strategy_name(c: &Cfg) -> &'static str {
    ["drop", "error", "evict-oldest", "evict-least-progress", "sample"][c.strategy.min(4)]
}

fn build(c: &Cfg) -> SaseEngine {
    let b_self = SasePattern::Event {
        event_type: "B".into(),
        predicate: Some(Predicate::CompareRef { field: "x".into(), op: CompareOp::Gt, ref_alias: "b".into(), ref_field: "x".into() }),
        alias: Some("b".into()),
    };
    let b_cons = SasePattern::Event {
        event_type: "B".into(),
        predicate: Some(Predicate::Compare { field: "x".into(), op: CompareOp::Ge, value: Value::Int(1) }),
        alias: Some("b".into()),
    };
    let pat = match c.pattern {
        0 => PatternBuilder::seq(vec![PatternBuilder::event_as("A", "a"), PatternBuilder::event_as("B", "b"), PatternBuilder::event_as("C", "c")]),
        1 => PatternBuilder::seq(vec![PatternBuilder::event_as("A", "a"), PatternBuilder::one_or_more(b_self), PatternBuilder::event_as("C", "c")]),
        2 => PatternBuilder::seq(vec![PatternBuilder::event_as("A", "a"), PatternBuilder::one_or_more(b_cons), PatternBuilder::event_as("C", "c")]),
        3 => PatternBuilder::seq(vec![PatternBuilder::and(PatternBuilder::event_as("A", "a"), PatternBuilder::event_as("B", "b")), PatternBuilder::event_as("C", "c")]),
        _ => PatternBuilder::seq(vec![PatternBuilder::event_as("A", "a"), PatternBuilder::event_as("B", "b")]),
    };
    let bp = match c.strategy {
        0 => BackpressureStrategy::Drop,
        1 => BackpressureStrategy::Error,
        2 => BackpressureStrategy::EvictOldest,
        3 => BackpressureStrategy::EvictLeastProgress,
        _ => BackpressureStrategy::Sample { rate: c.rate },
    };
    let mut e = SaseEngine::new(pat)
        .with_max_runs(c.max_runs)
        .with_backpressure(bp)
        .with_max_kleene_events(c.cap_events)
        .with_max_enumeration_results(c.cap_results);
    if c.partitioned {
        e = e.with_partition_by("k".into());
    }
    if c.pattern >= 4 {
        e.add_negation("N".into(), None);
    }
    e
}

fn main() {
    let args = Args::parse();
    install_quiet_panic_hook();
    watchdog("C05", args.pick(1200, 14400));
    let mut rep = Report::new("C05", "exploration", &args);
    rep.rule = "SaseEngine built with every backpressure strategy (drop, error, evict-oldest, evict-least-progress, sample with rates 0/0.3/1), max_runs 1-8, plain and partitioned (1-4 keys + key-less events), five pattern shapes (sequence, Kleene with self-referencing and with constant filter, AND, sequence with negation), adversarial streams (200-2000 events, mostly start events, few completions, Kleene bursts); both process() and process_with_result(). Non-trivial: run in which the per-partition limit was reached >=3 times; distinct by (configuration, stream hash).".into();
    rep.assume("per-partition run count is tracked by differencing SaseEngine::stats().active_runs around each event (the count can only change in the event's own partition)");
    let threads = ncpu();
    let runs = args.pick(6000usize, 200_000usize);
    let per_thread = runs / threads + 1;
    let maxlen = args.pick(600usize, 2000usize);
    let parts = parallel(threads, args.seed ^ 0xC05, move |_ti, mut rng| {
        let mut out = Partial::default();
        for _ in 0..per_thread {
            let c = Cfg {
                strategy: rng.below(5),
                rate: *rng.pick(&[0.0, 0.3, 1.0]),
                max_runs: 1 + rng.below(8),
                partitioned: rng.chance(1, 2),
                pattern: rng.below(5),
                cap_events: 1 + rng.below(6) as u32,
                cap_results: 1 + rng.below(20),
                use_result_api: rng.chance(1, 2),
            };
            let mut eng = build(&c);
            let nkeys = 1 + rng.below(4);
            let len = 200 + rng.below(maxlen - 199);
            let mut per_key: BTreeMap<String, i64> = BTreeMap::new();
            let mut at_limit = 0u64;
            let mut hist: Vec<(char, i64, i64)> = vec![];
            let sig_base = format!("{}/{}/pattern{}", strategy_name(&c), if c.partitioned { "partitioned" } else { "plain" }, c.pattern);
            out.eval();
            let mut failed = false;
            for i in 0..len {
                let r = rng.below(100);
                let ty = if r < 70 { 'A' } else if r < 90 { 'B' } else if r < 97 { 'C' } else { 'N' };
                let key = if rng.chance(1, 10) { None } else { Some(1 + rng.below(nkeys) as i64) };
                let x = rng.range(0, 9);
                let mut fields = vec![("uid", Value::Int(i as i64)), ("x", Value::Int(x))];
                if let Some(k) = key {
                    fields.push(("k", Value::Int(k)));
                }
                let e = ev(&ty.to_string(), ts_ms(i as i64), &fields);
                hist.push((ty, key.unwrap_or(-1), x));
                let before = eng.stats().active_runs as i64;
                let res = catch(std::panic::AssertUnwindSafe(|| {
                    if c.use_result_api { eng.process_with_result(&e).matches } else { eng.process(&e) }
                }));
                let matches = match res {
                    Ok(m) => m,
                    Err(p) => {
                        out.violation(&format!("{}/panic", sig_base), "SaseEngine panicked", json!({"cfg": format!("{:?}", c), "panic": p, "site": panic_site(&last_panic_location()), "events_so_far": hist.len(), "tail": hist.iter().rev().take(30).collect::<Vec<_>>()}));
                        failed = true;
                        break;
                    }
                };
                let after = eng.stats().active_runs as i64;
                let pk = if c.partitioned { key.map(|k| k.to_string()).unwrap_or_default() } else { "*".into() };
                let cnt = per_key.entry(pk.clone()).or_insert(0);
                *cnt += after - before;
                out.add("events_observed", 1);
                if *cnt > c.max_runs as i64 {
                    out.violation(&format!("{}/runs-exceed-max", sig_base), "partial matches of one partition exceed max_runs", json!({"cfg": format!("{:?}", c), "partition": pk, "runs": *cnt, "max_runs": c.max_runs, "event_index": i, "tail": hist.iter().rev().take(40).collect::<Vec<_>>()}));
                    failed = true;
                    break;
                }
                if *cnt < 0 {
                    out.violation(&format!("{}/tracking-negative", sig_base), "run count of another partition changed while processing this event (monitor assumption broken)", json!({"cfg": format!("{:?}", c), "partition": pk, "event_index": i}));
                    failed = true;
                    break;
                }
                if *cnt == c.max_runs as i64 {
                    at_limit += 1;
                }
                let ext = eng.extended_stats();
                if ext.active_runs as i64 != after {
                    out.violation(&format!("{}/stats-disagree", sig_base), "stats() and extended_stats() disagree", json!({"cfg": format!("{:?}", c)}));
                }
                // caps on what a completion emits
                if c.pattern == 1 && matches.len() > c.cap_results * (c.max_runs.max(1)) {
                    out.violation(&format!("{}/results-exceed-cap", sig_base), "a completion emitted more matches than max_enumeration_results per run", json!({"cfg": format!("{:?}", c), "matches": matches.len()}));
                }
                for m in &matches {
                    let nb = m.stack.iter().filter(|s| &*s.event.event_type == "B").count();
                    if (c.pattern == 1 || c.pattern == 2) && nb > c.cap_events as usize {
                        out.violation(&format!("{}/kleene-events-exceed-cap", sig_base), "a match keeps more Kleene events than max_kleene_events", json!({"cfg": format!("{:?}", c), "kleene_events": nb}));
                    }
                }
            }
            if !failed && at_limit >= 3 {
                out.nontrivial(&(format!("{:?}", c), hist.len(), hash64(&hist)));
                if out.samples.len() < 3 {
                    out.sample(json!({"cfg": format!("{:?}", c), "events": hist.len(), "times_at_limit": at_limit, "final_runs_per_partition": per_key, "extended_stats": format!("{:?}", eng.extended_stats())}));
                }
            }
            out.add("times_at_limit", at_limit);
        }
        out
    });
    for p in parts {
        rep.merge(p);
    }
    std::process::exit(rep.finish());
}
