//! C31 — file paths accepted by the server always stay inside the work directory.
//!
//! Monitor: random directory trees (files, nested dirs, symlinks pointing inside,
//! outside, to each other, dangling, looping; a sibling directory whose name has the
//! work directory's name as a string prefix) and path strings from a grammar are given
//! to the real `varpulis_cli::security::validate_path` and to the real WebSocket
//! `LoadFile` handler (the only server entry point that takes a file path).
//! Oracle (independent of `canonicalize`): the set of (dev, inode) pairs reached by
//! walking the work directory WITHOUT following symlinks. Whatever is accepted must
//! `stat` (kernel path resolution) to a member of that set — both the returned path
//! (this is what the server opens) and the requested path resolved against the workdir.
use serde_json::json;
use std::collections::BTreeSet;
use std::os::unix::fs::MetadataExt;
use std::path::{Path, PathBuf};
use std::sync::Arc;
use tokio::sync::RwLock;
use varpulis_cli::security::{validate_path, SecurityError};
use varpulis_cli::websocket::{handle_message, ServerState, WsMessage};
use vh::*;

const DIR_NAMES: &[&str] = &["a", "b", "sub", "d.e", "caf\u{e9}", "%2e%2e", "sp ace", "...", "x\\y", "\u{ff0e}\u{ff0e}", "..%2f", "\u{c0}\u{ae}"];
const FILE_NAMES: &[&str] = &["f.vpl", "g.vpl", "h", "\u{fffd}bad.vpl", "%2e%2e%2fsecret.vpl", "..secret", "n\u{e9}.vpl", "\u{202e}lpv.x", "~", "c:\\q.vpl"];
const LINK_NAMES: &[&str] = &["l0", "l1", "l2", "l3", "l4", "l5", "l6", "l7"];

fn vpl(marker: &str) -> String {
    format!("stream {} = Ev .where(x > 1)\n", marker)
}

#[derive(Clone, Debug)]
struct Entry {
    /// path relative to the work directory
    rel: String,
    kind: &'static str, // dir | file | link
    target: String,
    target_class: &'static str,
}

struct Tree {
    root: PathBuf,
    work: PathBuf,
    entries: Vec<Entry>,
}

fn symlink(target: &str, at: &Path) -> bool {
    std::os::unix::fs::symlink(target, at).is_ok()
}

fn build_tree(root: &Path, rng: &mut Rng) -> std::io::Result<Tree> {
    let _ = std::fs::remove_dir_all(root);
    std::fs::create_dir_all(root.join("outside/od"))?;
    std::fs::write(root.join("outside/secret.vpl"), vpl("OutsideSecret"))?;
    std::fs::write(root.join("outside/od/inner.vpl"), vpl("OutsideInner"))?;
    // sibling whose name has the workdir name as a *string* prefix
    std::fs::create_dir_all(root.join("work2"))?;
    std::fs::write(root.join("work2/x.vpl"), vpl("SiblingPrefix"))?;
    std::fs::create_dir_all(root.join("work-evil"))?;
    std::fs::write(root.join("work-evil/y.vpl"), vpl("SiblingDash"))?;
    let work = root.join("work");
    std::fs::create_dir_all(&work)?;
    let _ = symlink("work", &root.join("wl")); // workdir reachable through a symlink
    let mut entries: Vec<Entry> = vec![];
    let mut dirs: Vec<String> = vec![String::new()];
    // directories
    let nd = 1 + rng.below(5);
    for _ in 0..nd {
        let parent = rng.pick(&dirs).clone();
        if parent.matches('/').count() >= 2 {
            continue;
        }
        let name = *rng.pick(DIR_NAMES);
        let rel = if parent.is_empty() { name.to_string() } else { format!("{}/{}", parent, name) };
        if std::fs::create_dir(work.join(&rel)).is_ok() {
            dirs.push(rel.clone());
            entries.push(Entry { rel, kind: "dir", target: String::new(), target_class: "" });
        }
    }
    // files
    let nf = 1 + rng.below(6);
    for i in 0..nf {
        let parent = rng.pick(&dirs).clone();
        let name = *rng.pick(FILE_NAMES);
        let rel = if parent.is_empty() { name.to_string() } else { format!("{}/{}", parent, name) };
        let p = work.join(&rel);
        if p.symlink_metadata().is_err() && std::fs::write(&p, vpl(&format!("Inside{}", i))).is_ok() {
            entries.push(Entry { rel, kind: "file", target: String::new(), target_class: "" });
        }
    }
    // symlinks
    let nl = 1 + rng.below(7);
    let root_s = root.to_string_lossy().to_string();
    let work_s = work.to_string_lossy().to_string();
    for _ in 0..nl {
        let parent = rng.pick(&dirs).clone();
        let depth = if parent.is_empty() { 0 } else { parent.matches('/').count() + 1 };
        let up: String = "../".repeat(depth);
        let name = *rng.pick(LINK_NAMES);
        let rel = if parent.is_empty() { name.to_string() } else { format!("{}/{}", parent, name) };
        let inside_any = if entries.is_empty() { None } else { Some(rng.pick(&entries).rel.clone()) };
        let (target, class): (String, &'static str) = match rng.below(16) {
            0 => (format!("{}/outside/secret.vpl", root_s), "abs-outside-file"),
            1 => (format!("{}/outside", root_s), "abs-outside-dir"),
            2 => (format!("{}../outside/secret.vpl", up), "rel-outside-file"),
            3 => (format!("{}../outside/od", up), "rel-outside-dir"),
            4 => (format!("{}..", up), "rel-parent-of-workdir"),
            5 => ("/".to_string(), "fs-root"),
            6 => (format!("{}../work2/x.vpl", up), "rel-sibling-prefix-file"),
            7 => (format!("{}/work2", root_s), "abs-sibling-prefix-dir"),
            8 => (format!("{}/work-evil", root_s), "abs-sibling-dash-dir"),
            9 => ("nope/missing".to_string(), "dangling"),
            10 => (name.to_string(), "self-loop"),
            11 => (LINK_NAMES[rng.below(LINK_NAMES.len())].to_string(), "other-link-same-dir"),
            12 => match &inside_any {
                Some(r) => (format!("{}/{}", work_s, r), "abs-inside"),
                None => (work_s.clone(), "abs-inside"),
            },
            13 => match &inside_any {
                Some(r) => (format!("{}{}", up, r), "rel-inside"),
                None => (".".to_string(), "rel-inside"),
            },
            14 => (if up.is_empty() { ".".to_string() } else { up.clone() }, "rel-workdir-itself"),
            _ => ("/etc/passwd".to_string(), "abs-etc-passwd"),
        };
        if symlink(&target, &work.join(&rel)) {
            entries.push(Entry { rel, kind: "link", target, target_class: class });
        }
    }
    Ok(Tree { root: root.to_path_buf(), work, entries })
}

/// (dev, ino) of everything inside `work`, walking WITHOUT following symlinks.
fn inside_set(work: &Path) -> std::io::Result<BTreeSet<(u64, u64)>> {
    let mut set = BTreeSet::new();
    let m = std::fs::symlink_metadata(work)?;
    set.insert((m.dev(), m.ino()));
    let mut stack = vec![work.to_path_buf()];
    while let Some(d) = stack.pop() {
        for e in std::fs::read_dir(&d)? {
            let e = e?;
            let p = e.path();
            let m = std::fs::symlink_metadata(&p)?;
            if m.file_type().is_symlink() {
                continue; // a symlink is a name, not content; stat never yields its inode
            }
            set.insert((m.dev(), m.ino()));
            if m.is_dir() {
                stack.push(p);
            }
        }
    }
    Ok(set)
}

fn tree_json(t: &Tree) -> serde_json::Value {
    json!({
        "root": t.root.to_string_lossy(),
        "fixed": ["outside/secret.vpl", "outside/od/inner.vpl", "work2/x.vpl", "work-evil/y.vpl", "wl -> work"],
        "work_entries": t.entries.iter().map(|e| json!({"rel": e.rel, "kind": e.kind, "target": e.target})).collect::<Vec<_>>(),
    })
}

/// One path string from the grammar; returns (path, form).
fn gen_path(t: &Tree, workdir_arg: &str, rng: &mut Rng) -> (String, &'static str) {
    let mut comps: Vec<String> = vec![];
    let n = 1 + rng.below(6);
    if rng.chance(1, 2) {
        // guided walk over what the OS lists, so deep existing paths are reached often
        let mut cur = t.work.clone();
        for _ in 0..n {
            // only list directories of the scratch tree (listing the real file system, e.g. /proc,
            // would make the generated paths depend on the machine state)
            let in_scratch = cur.canonicalize().map(|c| c.starts_with(&t.root)).unwrap_or(false);
            let mut names: Vec<String> = if !in_scratch {
                vec!["etc".into(), "passwd".into(), "tmp".into()]
            } else {
                match std::fs::read_dir(&cur) {
                    Ok(rd) => rd.filter_map(|e| e.ok()).map(|e| e.file_name().to_string_lossy().to_string()).collect(),
                    Err(_) => break,
                }
            };
            names.sort();
            names.push("..".into());
            names.push(".".into());
            if rng.chance(1, 6) {
                names.push("".into());
            }
            let c = rng.pick(&names).clone();
            cur = cur.join(&c);
            comps.push(c);
        }
    } else {
        for _ in 0..n {
            let c = match rng.below(12) {
                0 | 1 | 2 => "..".to_string(),
                3 => ".".to_string(),
                4 => "".to_string(),
                5 => "outside".to_string(),
                6 => ["secret.vpl", "work", "work2", "x.vpl", "wl", "od", "inner.vpl", "%2e%2e", "..%2f..", "..\\..", "\u{ff0e}\u{ff0e}", "a\0b", "~", "\u{fffd}", "....", ".. "][rng.below(16)].to_string(),
                _ => {
                    if t.entries.is_empty() {
                        "f.vpl".to_string()
                    } else {
                        let e = rng.pick(&t.entries);
                        // any single component of an existing entry
                        let parts: Vec<&str> = e.rel.split('/').collect();
                        parts[rng.below(parts.len())].to_string()
                    }
                }
            };
            comps.push(c);
        }
    }
    let sep = if rng.chance(1, 8) { "//" } else { "/" };
    let mut rel = comps.join(sep);
    if rng.chance(1, 6) {
        rel = format!("./{}", rel);
    }
    if rng.chance(1, 6) {
        rel.push('/');
    }
    if rng.chance(1, 12) {
        rel.push_str("/.");
    }
    let root_s = t.root.to_string_lossy().to_string();
    match rng.below(10) {
        0 | 1 => (format!("{}/{}", t.work.to_string_lossy(), rel), "absolute-under-workdir"),
        2 => (format!("{}/{}", workdir_arg, rel), "absolute-under-workdir-arg"),
        3 => (format!("{}/{}", root_s, rel), "absolute-under-parent"),
        4 => (format!("/{}", rel), "absolute-from-fs-root"),
        5 => {
            let fixed = ["work2/x.vpl", "work-evil/y.vpl", "outside/secret.vpl", "work/../outside/secret.vpl", "wl/../outside/od/inner.vpl", "work2", "work/"];
            (format!("{}/{}", root_s, rng.pick(&fixed)), "absolute-fixed-neighbour")
        }
        _ => (rel, "relative"),
    }
}

/// Features of an accepted path for signatures / non-triviality (lexical walk with lstat).
fn path_features(path: &str, workdir: &Path) -> (bool, bool) {
    let has_dotdot = Path::new(path).components().any(|c| matches!(c, std::path::Component::ParentDir));
    let abs = if Path::new(path).is_absolute() { PathBuf::from(path) } else { workdir.join(path) };
    let mut cur = PathBuf::new();
    let mut via_link = false;
    for c in abs.components() {
        cur.push(c.as_os_str());
        if let Ok(m) = std::fs::symlink_metadata(&cur) {
            if m.file_type().is_symlink() {
                via_link = true;
            }
        }
    }
    (has_dotdot, via_link)
}

fn absrel(form: &str) -> &'static str {
    if form == "relative" { "relative" } else { "absolute" }
}

/// Oracle self-test only (`--mutant string-prefix|parent-only`): deliberately broken validators
/// of the two shapes named in DESIGN section 6, judged by the same oracle. Never used for a verdict on /repo.
fn mutant_validate(kind: &str, path: &str, workdir: &Path) -> Result<PathBuf, SecurityError> {
    let req = PathBuf::from(path);
    let abs = if req.is_absolute() { req } else { workdir.join(req) };
    let wd = workdir.canonicalize().map_err(|e| SecurityError::InvalidWorkdir { path: String::new(), reason: e.to_string() })?;
    let inv = |e: std::io::Error| SecurityError::InvalidPath { path: path.to_string(), reason: e.to_string() };
    match kind {
        "string-prefix" => {
            let c = abs.canonicalize().map_err(inv)?;
            if c.to_string_lossy().starts_with(&*wd.to_string_lossy()) { Ok(c) } else { Err(SecurityError::PathTraversal { path: path.to_string() }) }
        }
        _ => {
            // canonicalise only the parent, then append the last component unresolved
            let parent = abs.parent().unwrap_or(Path::new("/")).canonicalize().map_err(inv)?;
            let c = match abs.file_name() { Some(n) => parent.join(n), None => parent };
            std::fs::metadata(&c).map_err(inv)?;
            if c.starts_with(&wd) { Ok(c) } else { Err(SecurityError::PathTraversal { path: path.to_string() }) }
        }
    }
}

fn main() {
    let args = Args::parse();
    install_quiet_panic_hook();
    watchdog("C31", args.pick(600, 3600));
    let mut rep = Report::new("C31", "exploration", &args);
    rep.rule = "random trees under a scratch dir (work dir with <=5 nested dirs, <=6 files, <=7 symlinks to inside/outside/parent/fs-root/sibling-with-prefix-name/each other/dangling/self; workdir argument given directly, through a symlink, or with ./.. segments) x path strings from a grammar (guided walks over real directory listings and free mixes of existing names, .., ., empty, encoded/odd-unicode/NUL names; relative, absolute under workdir/parent/fs-root; //, ./, trailing /). Non-trivial: a path ACCEPTED by validate_path (or read by LoadFile) that contains `..` or traverses >=1 symlink; distinct by (tree, workdir form, path string).".into();
    rep.assume("kernel path resolution (stat) and a no-follow directory walk define 'inside the work directory' by (dev, inode)");
    rep.assume("no concurrent modification of the scratch tree between validation and the stat");
    rep.assume("validate_path and the WebSocket LoadFile handler are the only places where the server accepts a file path (sanitize_filename/is_suspicious_path have no callers)");

    let target = std::env::var("CARGO_TARGET_DIR").map(PathBuf::from).unwrap_or_else(|_| args.verif_dir.join("target"));
    let scratch = target.join("tmp-c31").join(format!("{}-{}-{}", args.tier, args.seed, std::process::id()));
    if let Err(e) = std::fs::create_dir_all(&scratch) {
        rep.inconclusive(&format!("cannot create scratch dir {}: {}", scratch.display(), e));
        std::process::exit(rep.finish());
    }
    let mutant: Option<String> = args.opt("--mutant");
    if mutant.is_some() {
        rep.args.replay = Some(PathBuf::from("--mutant")); // self-test: do not overwrite the evidence file
        rep.property = "C31-selftest".into();
    }
    let threads = ncpu();
    let trees_per_thread = args.pick(16usize, 300usize);
    let paths_per_tree = args.pick(200usize, 500usize);
    let scratch2 = scratch.clone();
    let parts = parallel(threads, args.seed, move |ti, mut rng| {
        let mut out = Partial::default();
        let rt = tokio::runtime::Builder::new_current_thread().enable_all().build().expect("rt");
        for ci in 0..trees_per_thread {
            let root = scratch2.join(format!("t{}", ti)).join(format!("c{}", ci));
            let tree = match build_tree(&root, &mut rng) {
                Ok(t) => t,
                Err(e) => {
                    out.inconclusive(&format!("tree build failed: {}", e));
                    continue;
                }
            };
            let inside = match inside_set(&tree.work) {
                Ok(s) => s,
                Err(e) => {
                    out.inconclusive(&format!("walk failed: {}", e));
                    continue;
                }
            };
            let root_s = tree.root.to_string_lossy().to_string();
            let first_dir = tree.entries.iter().find(|e| e.kind == "dir" && !e.rel.contains('/')).map(|e| e.rel.clone());
            let (workdir_arg, wd_form): (String, &'static str) = match rng.below(5) {
                0 => (format!("{}/wl", root_s), "workdir-via-symlink"),
                1 => (format!("{}/work/.", root_s), "workdir-with-dot"),
                2 => match &first_dir {
                    Some(d) => (format!("{}/work/{}/..", root_s, d), "workdir-with-dotdot"),
                    None => (format!("{}/outside/../work", root_s), "workdir-with-dotdot"),
                },
                _ => (format!("{}/work", root_s), "workdir-plain"),
            };
            let workdir = PathBuf::from(&workdir_arg);
            let (tx, _rx) = tokio::sync::mpsc::channel(16);
            let state = Arc::new(RwLock::new(ServerState::new(tx, workdir.clone())));
            if ci == 0 && ti == 0 {
                out.sample(json!({"tree": tree_json(&tree), "workdir_arg": workdir_arg}));
            }
            for pi in 0..paths_per_tree {
                let (path, form) = gen_path(&tree, &workdir_arg, &mut rng);
                out.eval();
                let res = catch(std::panic::AssertUnwindSafe(|| match &mutant {
                    None => validate_path(&path, &workdir),
                    Some(k) => mutant_validate(k, &path, &workdir),
                }));
                let res = match res {
                    Ok(r) => r,
                    Err(p) => {
                        out.violation("validate_path/panic", "validate_path panicked", json!({"tree": tree_json(&tree), "workdir_arg": workdir_arg, "path": path, "panic": p}));
                        continue;
                    }
                };
                let requested_abs = if Path::new(&path).is_absolute() { PathBuf::from(&path) } else { workdir.join(&path) };
                let mut accepted = false;
                match &res {
                    Ok(returned) => {
                        accepted = true;
                        out.add("accepted", 1);
                        let (dd, vl) = path_features(&path, &workdir);
                        if dd || vl {
                            out.nontrivial(&(ti, ci, wd_form, path.clone()));
                            out.add(if vl { "accepted_via_symlink" } else { "accepted_with_dotdot" }, 1);
                        }
                        let via = match (dd, vl) { (true, true) => "dotdot+symlink", (true, false) => "dotdot", (false, true) => "symlink", _ => "plain" };
                        for (which, p) in [("returned-path", returned.clone()), ("requested-path", requested_abs.clone())] {
                            out.add("stat_comparisons", 1);
                            match std::fs::metadata(&p) {
                                Ok(m) => {
                                    if !inside.contains(&(m.dev(), m.ino())) {
                                        out.violation(
                                            &format!("validate_path/{}/{}/{}/escapes-workdir", absrel(form), via, which),
                                            "validate_path accepted a path that resolves (stat) to a file or directory that is not inside the work directory",
                                            json!({"tree": tree_json(&tree), "workdir_arg": workdir_arg, "workdir_form": wd_form, "path_form": form, "path": path, "returned": returned.to_string_lossy(), "stat_of": p.to_string_lossy(), "dev_ino": [m.dev(), m.ino()], "expected": "member of the (dev,ino) set of a no-follow walk of work/"}),
                                        );
                                    }
                                }
                                Err(e) => {
                                    out.violation(
                                        &format!("validate_path/{}/{}/{}/does-not-resolve", absrel(form), via, which),
                                        "validate_path accepted a path that does not resolve",
                                        json!({"tree": tree_json(&tree), "workdir_arg": workdir_arg, "path": path, "returned": returned.to_string_lossy(), "stat_of": p.to_string_lossy(), "error": e.to_string()}),
                                    );
                                }
                            }
                        }
                        if pi < 2 && ci == 1 && ti == 0 {
                            out.sample(json!({"workdir_arg": workdir_arg, "path": path, "accepted_as": returned.to_string_lossy()}));
                        }
                    }
                    Err(SecurityError::PathTraversal { .. }) => out.add("rejected_traversal", 1),
                    Err(SecurityError::InvalidPath { .. }) => out.add("rejected_invalid", 1),
                    Err(_) => out.add("rejected_other", 1),
                }
                // The real server entry point: WebSocket LoadFile. If the handler got as far as
                // parsing/loading, it has read the file the path designates.
                if mutant.is_none() && (accepted || rng.chance(1, 8)) {
                    let msg = WsMessage::LoadFile { path: path.clone() };
                    let r = rt.block_on(handle_message(msg, &state));
                    out.add("loadfile_calls", 1);
                    if let WsMessage::LoadResult { success, error, .. } = &r {
                        let read = *success || error.as_deref().map(|e| e.starts_with("Parse error")).unwrap_or(false);
                        if read {
                            out.add("loadfile_read_a_file", 1);
                            let (dd, vl) = path_features(&path, &workdir);
                            if dd || vl {
                                out.nontrivial(&("ws", ti, ci, wd_form, path.clone()));
                            }
                            let via = match (dd, vl) { (true, true) => "dotdot+symlink", (true, false) => "dotdot", (false, true) => "symlink", _ => "plain" };
                            let ok = std::fs::metadata(&requested_abs).map(|m| inside.contains(&(m.dev(), m.ino()))).unwrap_or(false);
                            if !ok {
                                out.violation(
                                    &format!("ws-load-file/{}/{}/read-outside-workdir", absrel(form), via),
                                    "the WebSocket LoadFile handler read a file that is not inside the work directory",
                                    json!({"tree": tree_json(&tree), "workdir_arg": workdir_arg, "path": path, "reply": serde_json::to_value(&r).unwrap_or_default()}),
                                );
                            }
                        }
                    }
                }
            }
            let _ = std::fs::remove_dir_all(&root);
        }
        out
    });
    for p in parts {
        rep.merge(p);
    }
    let _ = std::fs::remove_dir_all(&scratch);
    let _ = std::fs::remove_dir(target.join("tmp-c31"));
    std::process::exit(rep.finish());
}
