//! C33 — pipelines are only placed on available workers and failures are detected.
//!
//! Histories over 1-4 workers of: advance virtual time (back-dating the public
//! `WorkerNode.last_heartbeat`), heartbeat, health sweep (+ the automatic failover main.rs runs for
//! newly unhealthy workers), status change (draining/unhealthy as delivered by an in-flight drain or
//! a Raft sync), deregister / re-register, drain, rebalance, deploy (plan_deploy_group +
//! commit_deploy_group with fabricated task results) with affinities, manual migrate
//! (plan_migrate_pipeline + commit_migrate_pipeline: what the REST handler does).
//! Automatic migrations (failover, drain, rebalance) run for real against mock workers on loopback.
//!
//! Oracle (a model of worker statuses, independent of `is_available`):
//!  * every placement decision (deploy task, migration target) names a registered worker whose
//!    status is Ready in the model — never unhealthy, draining or deregistered;
//!  * a pinned pipeline is placed on its pinned worker whenever that worker is registered, Ready
//!    and under capacity (manual migration with an explicit target is exempt);
//!  * a sweep marks a Ready worker unhealthy iff its heartbeat age exceeds the timeout; the age is
//!    bracketed by two clock reads around the sweep ([age_lo, age_hi]); a verdict is drawn only when
//!    the whole bracket is on one side of the timeout (otherwise the step is counted undetermined);
//!  * a heartbeat refreshes `last_heartbeat` (bracketed) and turns Unhealthy into Ready.
#[path = "../clustermock.rs"]
mod clustermock;

use clustermock::*;
use serde_json::{json, Value as J};
use std::collections::{BTreeMap, BTreeSet};
use std::sync::Arc;
use std::time::{Duration, Instant};
use varpulis_cluster::coordinator::{DeployResponse, DeployTaskResult};
use varpulis_cluster::{
    Coordinator, HeartbeatRequest, MigrationReason, PipelineGroupSpec, PipelinePlacement, WorkerId, WorkerNode, WorkerStatus,
};
use vh::*;

/// Oracle self-test switch (`--perturb <name>`, never set by the driver): deliberately wrong
/// expectations used to confirm that the monitor fires. Run with `--verif-dir <scratch>`.
static PERTURB: std::sync::OnceLock<String> = std::sync::OnceLock::new();
fn perturb(name: &str) -> bool {
    PERTURB.get().map(|p| p == name).unwrap_or(false)
}

#[derive(Clone, Copy, Debug, PartialEq, Eq)]
enum MS {
    Ready,
    Unhealthy,
    Draining,
}

fn ms_name(s: Option<MS>) -> &'static str {
    match s {
        Some(MS::Ready) => "ready",
        Some(MS::Unhealthy) => "unhealthy",
        Some(MS::Draining) => "draining",
        None => "deregistered",
    }
}

fn real_status(coord: &Coordinator, w: &str) -> Option<MS> {
    coord.workers.get(&WorkerId(w.to_string())).map(|n| match n.status {
        WorkerStatus::Ready => MS::Ready,
        WorkerStatus::Unhealthy => MS::Unhealthy,
        WorkerStatus::Draining => MS::Draining,
        WorkerStatus::Registering => MS::Unhealthy, // never produced by the harness
    })
}

struct World {
    coord: Coordinator,
    model: BTreeMap<String, MS>, // absent = deregistered / never registered
    names: Vec<String>,          // universe of worker ids (some may never be registered)
    addr: BTreeMap<String, String>,
    timeout: Duration,
    history: Vec<J>,
    groups: Vec<String>,
    unhealthy_transitions: u64,
    placements_while_unavailable: u64,
    placements_checked: u64,
    undetermined: u64,
    uid: u64,
    tag: String,
}

impl World {
    fn ages_ms(&self) -> J {
        let now = Instant::now();
        let m: BTreeMap<String, J> = self
            .names
            .iter()
            .map(|n| {
                let v = match self.coord.workers.get(&WorkerId(n.clone())) {
                    Some(w) => json!({"status": w.status.to_string(), "age_ms": now.saturating_duration_since(w.last_heartbeat).as_millis() as u64, "running": w.capacity.pipelines_running, "max": w.capacity.max_pipelines}),
                    None => json!("deregistered"),
                };
                (n.clone(), v)
            })
            .collect();
        json!(m)
    }
    fn witness(&self, extra: J) -> J {
        json!({"heartbeat_timeout_ms": self.timeout.as_millis() as u64, "workers": self.names, "history": self.history, "at_failure": extra, "state": self.ages_ms()})
    }
    /// model vs real status of every worker; reports drift with the op kind in the signature
    fn drift(&mut self, op: &str, out: &mut Partial) -> bool {
        for n in self.names.clone() {
            let r = real_status(&self.coord, &n);
            let m = self.model.get(&n).copied();
            if r != m {
                out.violation(
                    &format!("status-drift/{}/{}-expected-{}", op, ms_name(r), ms_name(m)),
                    "worker status after the operation differs from the status model",
                    self.witness(json!({"worker": n, "expected": ms_name(m), "observed": ms_name(r)})),
                );
                return true;
            }
        }
        false
    }
    fn under_capacity(&self, w: &str, need: usize) -> bool {
        self.coord.workers.get(&WorkerId(w.to_string())).map(|n| n.capacity.pipelines_running + need <= n.capacity.max_pipelines).unwrap_or(false)
    }
    fn affinity_of(&self, gid: &str, pname: &str) -> Option<String> {
        let g = self.coord.pipeline_groups.get(gid)?;
        let logical = pname.rsplit_once('#').map(|(b, _)| b).unwrap_or(pname);
        g.spec.pipelines.iter().find(|p| p.name == logical).and_then(|p| p.worker_affinity.clone())
    }
    fn placements_on(&self, w: &str) -> Vec<(String, String)> {
        let mut v = vec![];
        for (gid, g) in &self.coord.pipeline_groups {
            for (p, d) in &g.placements {
                if d.worker_id.0 == w {
                    v.push((gid.clone(), p.clone()));
                }
            }
        }
        v.sort();
        v
    }
    fn all_placements(&self) -> BTreeMap<(String, String), String> {
        let mut m = BTreeMap::new();
        for (gid, g) in &self.coord.pipeline_groups {
            for (p, d) in &g.placements {
                m.insert((gid.clone(), p.clone()), d.worker_id.0.clone());
            }
        }
        m
    }
}

/// Check one placement decision. `kind` = deploy | manual | failover | drain | rebalance.
/// `pinned_demand`: Some(worker) when the pin is binding by the oracle's reading.
fn check_placement(w: &mut World, kind: &str, pipeline: &str, chosen: &str, model_before: &BTreeMap<String, MS>, pinned: Option<&str>, pinned_demand: bool, out: &mut Partial) -> bool {
    w.placements_checked += 1;
    out.add("placements_checked", 1);
    if w.names.iter().any(|n| model_before.get(n) != Some(&MS::Ready)) {
        w.placements_while_unavailable += 1;
    }
    let st = model_before.get(chosen).copied();
    let pin_class = match (pinned, pinned_demand) {
        (None, _) => "unpinned",
        (Some(_), true) => "pinned-available",
        (Some(_), false) => "pinned-unavailable",
    };
    let prefix = if kind == "deploy" { "deploy".to_string() } else { format!("migrate/{}", kind) };
    if st != Some(MS::Ready) {
        // a manual migration names its target: the pin plays no role in the signature
        let sig = if kind == "manual" { format!("{}/placed-on-{}", prefix, ms_name(st)) } else { format!("{}/{}/placed-on-{}", prefix, pin_class, ms_name(st)) };
        out.violation(
            &sig,
            "a new or migrated pipeline was placed on a worker that is unhealthy, draining or deregistered",
            w.witness(json!({"operation": kind, "pipeline": pipeline, "chosen_worker": chosen, "chosen_worker_status": ms_name(st), "pinned_to": pinned})),
        );
        return false;
    }
    if let (Some(p), true) = (pinned, pinned_demand) {
        if chosen != p {
            out.violation(
                &format!("{}/pinned-available/not-chosen", prefix),
                "a pinned pipeline was not placed on its pinned worker although that worker was registered, ready and under capacity",
                w.witness(json!({"operation": kind, "pipeline": pipeline, "chosen_worker": chosen, "pinned_to": p})),
            );
            return false;
        }
    }
    true
}

fn register(w: &mut World, name: &str, max: usize) {
    let mut node = WorkerNode::new(WorkerId(name.to_string()), w.addr[name].clone(), "key".into());
    node.capacity.max_pipelines = max;
    node.capacity.cpu_cores = 4;
    w.coord.register_worker(node);
    w.model.insert(name.to_string(), MS::Ready);
}

/// returns false when the case must stop (violation found or inconclusive)
fn step(w: &mut World, rt: &tokio::runtime::Runtime, rng: &mut Rng, out: &mut Partial) -> bool {
    let t = w.timeout;
    let registered: Vec<String> = w.names.iter().filter(|n| w.model.contains_key(*n)).cloned().collect();
    let op = rng.below(100);
    match op {
        // ---------------------------------------------------------------- advance virtual time
        0..=17 => {
            let dt = t.mul_f64(*rng.pick(&[0.3, 0.6, 1.2]));
            do_advance(w, dt, out)
        }
        // ---------------------------------------------------------------- heartbeat
        18..=35 => {
            if w.names.is_empty() {
                return true;
            }
            let n = rng.pick(&w.names).clone();
            do_heartbeat(w, &n, out)
        }
        // ---------------------------------------------------------------- sweep (+ failover as in main.rs) / boundary probe
        36..=55 => {
            let probe = op >= 52 && !registered.is_empty();
            if probe {
                // dedicated boundary probe: put one ready worker delta below / above the timeout
                let n = rng.pick(&registered).clone();
                let delta = Duration::from_millis(*rng.pick(&[5u64, 20, 45]));
                let below = rng.chance(1, 2);
                let age = if below { t - delta } else { t + delta };
                let node = w.coord.workers.get_mut(&WorkerId(n.clone())).unwrap();
                match Instant::now().checked_sub(age) {
                    Some(x) => node.last_heartbeat = x,
                    None => {
                        out.inconclusive("could not back-date last_heartbeat (monotonic clock too small)");
                        return false;
                    }
                }
                w.history.push(json!({"op": "set-age", "worker": n, "age_ms": age.as_millis() as u64}));
            }
            let failover = rng.chance(3, 4);
            do_sweep(w, rt, probe, failover, out)
        }
        // ---------------------------------------------------------------- status change
        56..=62 => {
            if registered.is_empty() {
                return true;
            }
            let n = rng.pick(&registered).clone();
            let (st, ms) = if rng.chance(2, 3) { (WorkerStatus::Draining, MS::Draining) } else { (WorkerStatus::Unhealthy, MS::Unhealthy) };
            set_status(w, &n, st, ms);
            true
        }
        // ---------------------------------------------------------------- deregister / register
        63..=68 => {
            if w.names.is_empty() {
                return true;
            }
            let n = rng.pick(&w.names).clone();
            if w.model.contains_key(&n) {
                let _ = w.coord.deregister_worker(&WorkerId(n.clone()));
                w.model.remove(&n);
                w.history.push(json!({"op": "deregister", "worker": n}));
            } else {
                let max = *rng.pick(&[2usize, 3, 100, 100]);
                register(w, &n, max);
                w.history.push(json!({"op": "register", "worker": n, "max_pipelines": max}));
            }
            !w.drift("register", out)
        }
        // ---------------------------------------------------------------- drain
        69..=72 => {
            if registered.is_empty() {
                return true;
            }
            let n = rng.pick(&registered).clone();
            auto_migrate(w, rt, "drain", &n, out)
        }
        // ---------------------------------------------------------------- rebalance
        73..=76 => auto_migrate(w, rt, "rebalance", "", out),
        // ---------------------------------------------------------------- deploy
        77..=89 => {
            let npipes = 1 + rng.below(3);
            let mut pipelines = vec![];
            for i in 0..npipes {
                let aff = match rng.below(5) {
                    0 | 1 => None,
                    2 => Some("ghost".to_string()),
                    _ => Some(rng.pick(&w.names).clone()),
                };
                pipelines.push(PipelinePlacement { name: format!("p{}", i), source: "stream S = E".into(), worker_affinity: aff, replicas: 1 + rng.below(2), partition_key: None });
            }
            let fail_idx = if rng.chance(1, 5) { Some(rng.below(8)) } else { None };
            do_deploy(w, pipelines, fail_idx, out)
        }
        // ---------------------------------------------------------------- manual migrate
        _ => {
            let all = w.all_placements();
            if all.is_empty() {
                return true;
            }
            let keys: Vec<&(String, String)> = all.keys().collect();
            let (gid, pname) = (*rng.pick(&keys)).clone();
            let mut targets = w.names.clone();
            targets.push("ghost".into());
            let target = rng.pick(&targets).clone();
            let model_before = w.model.clone();
            out.eval();
            let r = w.coord.plan_migrate_pipeline(&pname, &gid, &WorkerId(target.clone()), MigrationReason::Manual);
            w.history.push(json!({"op": "manual-migrate", "pipeline": pname, "from": all[&(gid.clone(), pname.clone())], "target": target, "target_status": ms_name(model_before.get(&target).copied()),
                "plan": match &r { Ok(_) => "accepted".to_string(), Err(e) => format!("error: {e}") }}));
            match r {
                Err(_) => {
                    out.add("manual_migrations_refused", 1);
                    true
                }
                Ok(plan) => {
                    let aff = w.affinity_of(&gid, &pname);
                    if !check_placement(w, "manual", &pname, &target, &model_before, aff.as_deref(), false, out) {
                        // violation recorded; the refused-by-the-oracle migration is not committed and the history goes on
                        return true;
                    }
                    w.uid += 1;
                    let id = format!("{}-m{}", w.tag, w.uid);
                    w.coord.commit_migrate_pipeline(&plan, &id, true, None);
                    !w.drift("manual-migrate", out)
                }
            }
        }
    }
}

fn do_advance(w: &mut World, dt: Duration, out: &mut Partial) -> bool {
    let registered: Vec<String> = w.names.iter().filter(|n| w.model.contains_key(*n)).cloned().collect();
    for n in &registered {
        let node = w.coord.workers.get_mut(&WorkerId(n.clone())).unwrap();
        match node.last_heartbeat.checked_sub(dt) {
            Some(x) => node.last_heartbeat = x,
            None => {
                out.inconclusive("could not back-date last_heartbeat (monotonic clock too small)");
                return false;
            }
        }
    }
    w.history.push(json!({"op": "advance", "ms": dt.as_millis() as u64}));
    true
}

fn do_heartbeat(w: &mut World, n: &str, out: &mut Partial) -> bool {
    let n = n.to_string();
    let wid = WorkerId(n.clone());
    let running = w.coord.workers.get(&wid).map(|x| x.capacity.pipelines_running).unwrap_or(0);
    let before = w.model.get(&n).copied();
    let t0 = Instant::now();
    let r = w.coord.heartbeat(&wid, &HeartbeatRequest { events_processed: 0, pipelines_running: running, pipeline_metrics: vec![] });
    let t1 = Instant::now();
    w.history.push(json!({"op": "heartbeat", "worker": n, "status_before": ms_name(before), "result": r.as_ref().map(|_| "ok").unwrap_or("error")}));
    out.eval();
    match before {
        None => true, // unknown worker: nothing demanded
        Some(st) => {
            if r.is_err() {
                out.violation("heartbeat/registered/error", "heartbeat of a registered worker is refused", w.witness(json!({"worker": n})));
                return false;
            }
            let hb = w.coord.workers[&wid].last_heartbeat;
            if hb < t0 || hb > t1 {
                out.violation("heartbeat/timestamp-not-refreshed", "heartbeat did not set last_heartbeat to the time of the call", w.witness(json!({"worker": n})));
                return false;
            }
            if st == MS::Unhealthy && !perturb("heartbeat-does-not-restore") {
                w.model.insert(n.clone(), MS::Ready);
                if real_status(&w.coord, &n) != Some(MS::Ready) {
                    out.violation("heartbeat/unhealthy/not-restored", "a heartbeat from an unhealthy worker did not make it ready again", w.witness(json!({"worker": n, "observed": ms_name(real_status(&w.coord, &n))})));
                    return false;
                }
                out.add("recoveries", 1);
            }
            !w.drift("heartbeat", out)
        }
    }
}

fn do_sweep(w: &mut World, rt: &tokio::runtime::Runtime, probe: bool, failover: bool, out: &mut Partial) -> bool {
    let t = if perturb("sweep-half-timeout") { w.timeout / 2 } else { w.timeout };
    let registered: Vec<String> = w.names.iter().filter(|n| w.model.contains_key(*n)).cloned().collect();
    let pre: Vec<(String, Instant)> = registered.iter().map(|n| (n.clone(), w.coord.workers[&WorkerId(n.clone())].last_heartbeat)).collect();
    let model_before = w.model.clone();
    let t0 = Instant::now();
    let res = w.coord.health_sweep();
    let t1 = Instant::now();
    let marked: BTreeSet<String> = res.workers_marked_unhealthy.iter().map(|x| x.0.clone()).collect();
    out.eval();
    let mut ages = BTreeMap::new();
    for (n, hb) in &pre {
        let lo = t0.saturating_duration_since(*hb);
        let hi = t1.saturating_duration_since(*hb);
        ages.insert(n.clone(), json!({"age_lo_ms": lo.as_millis() as u64, "age_hi_ms": hi.as_millis() as u64, "status_before": ms_name(model_before.get(n).copied())}));
    }
    w.history.push(json!({"op": "sweep", "ages": ages, "marked_unhealthy": marked}));
    for (n, hb) in &pre {
        if model_before.get(n) != Some(&MS::Ready) {
            continue;
        }
        let lo = t0.saturating_duration_since(*hb);
        let hi = t1.saturating_duration_since(*hb);
        let is_marked = marked.contains(n);
        out.add("sweep_decisions", 1);
        if lo > t {
            if !is_marked {
                out.violation("sweep/stale-ready/not-marked", "a ready worker whose last heartbeat is older than the timeout was not marked unhealthy by the sweep", w.witness(json!({"worker": n, "age_lo_ms": lo.as_millis() as u64})));
                return false;
            }
        } else if hi <= t {
            if is_marked {
                out.violation("sweep/fresh-ready/marked-early", "a ready worker was marked unhealthy although its last heartbeat is not older than the timeout", w.witness(json!({"worker": n, "age_hi_ms": hi.as_millis() as u64})));
                return false;
            }
        } else {
            w.undetermined += 1;
            out.add("sweep_undetermined", 1);
        }
        if is_marked {
            w.model.insert(n.clone(), MS::Unhealthy);
            w.unhealthy_transitions += 1;
            out.add("unhealthy_transitions", 1);
            if probe {
                out.add("boundary_probes_marked", 1);
            }
        } else if probe {
            out.add("boundary_probes_unmarked", 1);
        }
    }
    if w.drift("sweep", out) {
        return false;
    }
    // automatic failover for newly unhealthy workers (main.rs health loop)
    if !marked.is_empty() && failover {
        for n in marked {
            if !auto_migrate(w, rt, "failover", &n, out) {
                return false;
            }
        }
    }
    true
}

fn do_deploy(w: &mut World, pipelines: Vec<PipelinePlacement>, fail_idx: Option<usize>, out: &mut Partial) -> bool {
    w.uid += 1;
    let spec = PipelineGroupSpec { name: format!("{}-g{}", w.tag, w.uid), pipelines, routes: vec![] };
    let model_before = w.model.clone();
    let spec_json = json!(spec.pipelines.iter().map(|p| json!({"name": p.name, "affinity": p.worker_affinity, "replicas": p.replicas})).collect::<Vec<_>>());
    out.eval();
    match w.coord.plan_deploy_group(&spec) {
        Err(e) => {
            w.history.push(json!({"op": "deploy", "pipelines": spec_json, "plan": format!("error: {e}")}));
            // a pinned pipeline whose pinned worker is available must be placeable
            for p in &spec.pipelines {
                if let Some(a) = &p.worker_affinity {
                    if model_before.get(a) == Some(&MS::Ready) && w.under_capacity(a, 1) {
                        out.violation("deploy/pinned-available/plan-error", "deploy planning fails although the pinned worker of a pipeline is registered, ready and under capacity", w.witness(json!({"pipeline": p.name, "pinned_to": a, "error": e.to_string()})));
                        return false;
                    }
                }
            }
            out.add("deploy_plan_errors", 1);
            true
        }
        Ok(plan) => {
            let tasks_json: Vec<J> = plan.tasks.iter().map(|t| json!({"replica": t.replica_name, "worker": t.worker_id.0})).collect();
            w.history.push(json!({"op": "deploy", "pipelines": spec_json, "plan": tasks_json}));
            for t in &plan.tasks {
                let aff = spec.pipelines.iter().find(|p| p.name == t.pipeline_name).and_then(|p| p.worker_affinity.clone());
                let demand = aff.as_ref().map(|a| (model_before.get(a) == Some(&MS::Ready) || (perturb("pin-binds-always") && model_before.contains_key(a))) && w.under_capacity(a, 1)).unwrap_or(false);
                // a violation is recorded; the history goes on (the state stays consistent)
                check_placement(w, "deploy", &t.replica_name, &t.worker_id.0.clone(), &model_before, aff.as_deref(), demand, out);
            }
            // commit with fabricated results (one failure now and then)
            let ntasks = plan.tasks.len().max(1);
            let fail_idx = fail_idx.map(|f| f % ntasks);
            let results: Vec<DeployTaskResult> = plan
                .tasks
                .iter()
                .enumerate()
                .map(|(i, t)| {
                    w.uid += 1;
                    DeployTaskResult {
                        replica_name: t.replica_name.clone(),
                        pipeline_name: t.pipeline_name.clone(),
                        worker_id: t.worker_id.clone(),
                        worker_address: t.worker_address.clone(),
                        worker_api_key: t.worker_api_key.clone(),
                        replica_count: t.replica_count,
                        outcome: if Some(i) == fail_idx { Err("HTTP 500 - scripted".into()) } else { Ok(DeployResponse { id: format!("{}-d{}", w.tag, w.uid), name: t.replica_name.clone(), status: "running".into() }) },
                    }
                })
                .collect();
            match w.coord.commit_deploy_group(plan, results) {
                Ok(gid) => w.groups.push(gid),
                Err(e) => {
                    out.inconclusive(&format!("commit_deploy_group failed: {e}"));
                    return false;
                }
            }
            !w.drift("deploy", out)
        }
    }
}

fn set_status(w: &mut World, n: &str, st: WorkerStatus, ms: MS) {
    w.coord.workers.get_mut(&WorkerId(n.to_string())).unwrap().status = st;
    w.model.insert(n.to_string(), ms);
    w.history.push(json!({"op": "set-status", "worker": n, "status": ms_name(Some(ms))}));
}

fn new_world(names: Vec<String>, mocks: &[MockWorker], timeout: Duration, tag: &str) -> World {
    let addr: BTreeMap<String, String> = names.iter().enumerate().map(|(i, n)| (n.clone(), mocks[i].address.clone())).collect();
    let mut coord = Coordinator::new();
    coord.heartbeat_timeout = timeout;
    World {
        coord,
        model: BTreeMap::new(),
        names,
        addr,
        timeout,
        history: vec![],
        groups: vec![],
        unhealthy_transitions: 0,
        placements_while_unavailable: 0,
        placements_checked: 0,
        undetermined: 0,
        uid: 0,
        tag: tag.to_string(),
    }
}

/// Deterministic scenario: a pipeline pinned to w1 is deployed while w1 is unhealthy (so it falls
/// back to another worker), w1 recovers by heartbeat, then the worker hosting the pipeline is
/// drained / fails. The pinned worker is ready, under capacity and not the least loaded one.
fn scripted_pinned_return(rt: &tokio::runtime::Runtime, mocks: &[MockWorker], kind: &str, out: &mut Partial) {
    let names: Vec<String> = (0..3).map(|i| format!("w{}", i)).collect();
    let mut w = new_world(names.clone(), mocks, Duration::from_secs(5), &format!("scripted-{}", kind));
    for n in &names {
        register(&mut w, n, 100);
        w.history.push(json!({"op": "register", "worker": n, "max_pipelines": 100}));
    }
    let pin = |name: &str, replicas: usize| PipelinePlacement { name: name.into(), source: "stream S = E".into(), worker_affinity: Some("w1".into()), replicas, partition_key: None };
    if !do_deploy(&mut w, vec![pin("q", 2)], None, out) {
        return;
    }
    set_status(&mut w, "w1", WorkerStatus::Unhealthy, MS::Unhealthy);
    if !do_deploy(&mut w, vec![pin("p", 1)], None, out) {
        return;
    }
    let host = match w.all_placements().iter().find(|(k, _)| k.1 == "p") {
        Some((_, h)) => h.clone(),
        None => {
            out.inconclusive("scripted scenario: pipeline p was not placed");
            return;
        }
    };
    if !do_heartbeat(&mut w, "w1", out) {
        return;
    }
    if kind == "drain" {
        auto_migrate(&mut w, rt, "drain", &host, out);
    } else {
        if !do_advance(&mut w, Duration::from_millis(6000), out) {
            return;
        }
        for n in &names {
            if *n != host && !do_heartbeat(&mut w, n, out) {
                return;
            }
        }
        do_sweep(&mut w, rt, false, true, out);
    }
    out.add("scripted_scenarios", 1);
}

/// failover(worker) / drain(worker) / rebalance: run the real async operation against the mock
/// workers and check every placement that changed.
fn auto_migrate(w: &mut World, rt: &tokio::runtime::Runtime, kind: &str, worker: &str, out: &mut Partial) -> bool {
    let model_before = w.model.clone();
    let before = w.all_placements();
    let affected = if kind == "rebalance" { vec![] } else { w.placements_on(worker) };
    // pins that are binding: pinned worker != the failed/drained one, ready, with room for all affected
    let room_needed = affected.len().max(1);
    let mut pins: BTreeMap<(String, String), (String, bool)> = BTreeMap::new();
    for (gid, p) in before.keys() {
        if let Some(a) = w.affinity_of(gid, p) {
            let demand = a != worker && model_before.get(&a) == Some(&MS::Ready) && w.under_capacity(&a, room_needed);
            pins.insert((gid.clone(), p.clone()), (a, demand));
        }
    }
    out.eval();
    let wid = WorkerId(worker.to_string());
    let mut errors: Vec<String> = vec![];
    match kind {
        "failover" => {
            for r in rt.block_on(w.coord.handle_worker_failure(&wid)) {
                if let Err(e) = r {
                    errors.push(e.to_string());
                }
            }
        }
        "drain" => match rt.block_on(w.coord.drain_worker(&wid, None)) {
            Ok(_) => {
                // drain_worker on a worker that is already draining returns early (idempotent)
                // without deregistering it; otherwise the worker is gone afterwards.
                if model_before.get(worker) != Some(&MS::Draining) {
                    w.model.remove(worker);
                }
            }
            Err(e) => errors.push(e.to_string()),
        },
        _ => {
            if let Err(e) = rt.block_on(w.coord.rebalance()) {
                errors.push(e.to_string());
            }
        }
    }
    let after = w.all_placements();
    let mut moved = vec![];
    for (k, old) in &before {
        if let Some(new) = after.get(k) {
            if new != old {
                moved.push(json!({"pipeline": k.1, "from": old, "to": new}));
            }
        }
    }
    w.history.push(json!({"op": kind, "worker": worker, "affected": affected.iter().map(|a| a.1.clone()).collect::<Vec<_>>(), "moved": moved, "errors": errors}));
    for e in &errors {
        if e.contains("Migration failed") {
            out.inconclusive(&format!("migration against the mock workers failed: {e}"));
            return false;
        }
    }
    for (k, old) in &before {
        let new = match after.get(k) {
            Some(n) => n,
            None => continue,
        };
        if new == old {
            continue;
        }
        out.add("automatic_migrations", 1);
        let (pin, demand) = match pins.get(k) {
            Some((a, d)) => (Some(a.as_str()), *d),
            None => (None, false),
        };
        check_placement(w, kind, &k.1, new, &model_before, pin, demand, out);
    }
    !w.drift(kind, out)
}

fn run_case(rt: &tokio::runtime::Runtime, mocks: &[MockWorker], tag: &str, rng: &mut Rng, out: &mut Partial) {
    let nworkers = 1 + rng.below(4);
    let names: Vec<String> = (0..nworkers).map(|i| format!("w{}", i)).collect();
    let timeout = Duration::from_millis(*rng.pick(&[2000u64, 3000, 5000, 10_000]));
    let mut w = new_world(names.clone(), mocks, timeout, tag);
    for n in &names {
        if rng.chance(5, 6) {
            let max = *rng.pick(&[2usize, 3, 100, 100, 100]);
            register(&mut w, n, max);
            w.history.push(json!({"op": "register", "worker": n, "max_pipelines": max}));
        }
    }
    let steps = 10 + rng.below(25);
    for _ in 0..steps {
        if !step(&mut w, rt, rng, out) {
            break;
        }
    }
    if w.unhealthy_transitions >= 1 && w.placements_while_unavailable >= 1 {
        out.nontrivial(&w.history.iter().map(|h| h.to_string()).collect::<Vec<_>>());
    }
    if out.samples.len() < 2 && w.unhealthy_transitions >= 1 && w.placements_checked >= 2 {
        out.sample(json!({"heartbeat_timeout_ms": timeout.as_millis() as u64, "workers": names, "history": w.history}));
    }
    // forget what the mocks recorded for this case
    for m in mocks {
        m.drain(|_| true);
    }
}

fn main() {
    let args = Args::parse();
    install_quiet_panic_hook();
    watchdog("C33", args.pick(600, 3600));
    if let Some(p) = args.opt("--perturb") {
        let _ = PERTURB.set(p);
    }
    let mut rep = Report::new("C33", "exploration", &args);
    rep.rule = "random histories (10-34 steps) over 1-4 workers (capacity 2/3/100, heartbeat_timeout 2/3/5/10 s): advance virtual time by 0.3/0.6/1.2 x timeout (back-dating last_heartbeat of every worker), heartbeat, sweep (+ automatic failover of newly unhealthy workers as main.rs does), boundary probes (age = timeout -/+ 5/20/45 ms then sweep), status change to draining/unhealthy, deregister/re-register, drain, rebalance, deploy of 1-3 pipelines (replicas 1-2; affinity none / a worker / a never-registered id) through plan_deploy_group+commit_deploy_group, manual migration to a random worker id through plan_migrate_pipeline+commit_migrate_pipeline. Non-trivial: a history with >=1 sweep-detected unhealthy transition and >=1 placement decision taken while some worker of the universe is unhealthy, draining or deregistered; distinct by history.".into();
    rep.assume("'available' for the pin clause = registered, status ready, pipelines_running (+ pending moves) below max_pipelines; a manual migration names its target explicitly and is exempt from the pin clause");
    rep.assume("status changes to draining/unhealthy are applied by writing the public WorkerNode.status field (what an in-flight drain or sync_from_raft does)");
    rep.assume("sweep verdicts use the age bracket [t_before_sweep - last_heartbeat, t_after_sweep - last_heartbeat]; equality with the timeout cannot be produced with a real clock, so `>` vs `>=` at exact equality is not observed");
    let rt = Arc::new(tokio::runtime::Builder::new_multi_thread().worker_threads(4).enable_all().build().expect("tokio runtime"));
    let mut mocks = vec![];
    for i in 0..4 {
        match spawn_mock_worker(&rt, &format!("mw{}", i)) {
            Ok(w) => mocks.push(w),
            Err(e) => {
                rep.inconclusive(&format!("cannot start mock worker on loopback: {e}"));
                std::process::exit(rep.finish());
            }
        }
    }
    let mocks = Arc::new(mocks);
    let threads = ncpu();
    let n_cases = args.pick(8000usize, 200_000usize) / threads + 1;
    let (rt2, m2) = (rt.clone(), mocks.clone());
    let parts = parallel(threads, args.seed, move |ti, mut rng| {
        let mut out = Partial::default();
        if ti == 0 {
            for kind in ["drain", "failover"] {
                if let Err(p) = catch(std::panic::AssertUnwindSafe(|| scripted_pinned_return(&rt2, &m2, kind, &mut out))) {
                    out.violation("panic", "panic in a coordinator operation", json!({"panic": p, "site": panic_site(&last_panic_location())}));
                }
            }
        }
        for c in 0..n_cases {
            let tag = format!("t{}c{}", ti, c);
            let r = catch(std::panic::AssertUnwindSafe(|| run_case(&rt2, &m2, &tag, &mut rng, &mut out)));
            if let Err(p) = r {
                out.violation("panic", "panic in a coordinator operation", json!({"panic": p, "site": panic_site(&last_panic_location())}));
            }
            out.add("histories", 1);
            if !out.inconclusive.is_empty() {
                break;
            }
        }
        out
    });
    for p in parts {
        rep.merge(p);
    }
    std::process::exit(rep.finish());
}
