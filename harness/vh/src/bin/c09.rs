//! C09 — a filter selects the same events in a stream's `.where(...)` and as a sequence-step filter.
//! Differential between two real paths of the engine: `stream W = E.where(f).emit(u: uid)` (VPL
//! evaluator) and the same `f` as the filter of a sequence step (compiled by
//! `expr_to_sase_predicate`, evaluated by the SASE predicate evaluator), in two placements:
//!   first step : `sequence(e: E where f, t: Tick)`      (the arrow form takes no filter on its first step)
//!   later step : `Tick as t -> E where f as e`
//! fed `Tick E1 Tick E2 Tick ...` so that every E is judged alone; the accepted uid sets must be equal.
use serde_json::{json, Value as J};
use std::collections::BTreeSet;
use vh::eng::*;
use vh::*;
use varpulis_core::ast::{BinOp, Expr, Program, Stmt, StreamOp, StreamSource, UnaryOp};
use varpulis_core::Value;
use varpulis_runtime::engine::Engine;
use varpulis_runtime::event::Event;

const FIELDS: [&str; 3] = ["fa", "fb", "fc"];

#[derive(Clone, Debug, Hash, PartialEq, Eq)]
enum V {
    I(i64),
    F(u64), // bits
    S(&'static str),
    B(bool),
    Missing,
}
impl V {
    fn ty(&self) -> &'static str {
        match self {
            V::I(_) => "int",
            V::F(_) => "float",
            V::S(_) => "str",
            V::B(_) => "bool",
            V::Missing => "missing",
        }
    }
    fn value(&self) -> Option<Value> {
        match self {
            V::I(i) => Some(Value::Int(*i)),
            V::F(b) => Some(Value::Float(f64::from_bits(*b))),
            V::S(s) => Some(Value::Str((*s).into())),
            V::B(b) => Some(Value::Bool(*b)),
            V::Missing => None,
        }
    }
    fn json(&self) -> J {
        match self {
            V::I(i) => json!({"int": i}),
            V::F(b) => json!({"float": format!("{:?}", f64::from_bits(*b))}),
            V::S(s) => json!({"str": s}),
            V::B(b) => json!({"bool": b}),
            V::Missing => json!("missing"),
        }
    }
    fn from_json(j: &J) -> V {
        if let Some(i) = j.get("int").and_then(|x| x.as_i64()) {
            V::I(i)
        } else if let Some(f) = j.get("float").and_then(|x| x.as_str()) {
            V::F(f.parse::<f64>().unwrap_or(0.0).to_bits())
        } else if let Some(s) = j.get("str").and_then(|x| x.as_str()) {
            V::S(Box::leak(s.to_string().into_boxed_str()))
        } else if let Some(b) = j.get("bool").and_then(|x| x.as_bool()) {
            V::B(b)
        } else {
            V::Missing
        }
    }
    /// literal text (only for non-missing)
    fn lit(&self) -> String {
        match self {
            V::I(i) => format!("{}", i),
            V::F(b) => {
                let f = f64::from_bits(*b);
                let mut s = format!("{:?}", f.abs());
                if let Some(p) = s.find('e') {
                    if !s[..p].contains('.') {
                        s.insert_str(p, ".0");
                    }
                } else if !s.contains('.') {
                    s.push_str(".0");
                }
                if f.is_sign_negative() {
                    format!("-{}", s)
                } else {
                    s
                }
            }
            V::S(s) => format!("\"{}\"", s),
            V::B(b) => format!("{}", b),
            V::Missing => unreachable!(),
        }
    }
}

#[derive(Clone, Copy, Debug, Hash, PartialEq, Eq)]
enum Op {
    Eq,
    Ne,
    Lt,
    Le,
    Gt,
    Ge,
}
const ALL_OPS: [Op; 6] = [Op::Eq, Op::Ne, Op::Lt, Op::Le, Op::Gt, Op::Ge];
impl Op {
    fn txt(&self) -> &'static str {
        match self {
            Op::Eq => "==",
            Op::Ne => "!=",
            Op::Lt => "<",
            Op::Le => "<=",
            Op::Gt => ">",
            Op::Ge => ">=",
        }
    }
    fn class(&self) -> &'static str {
        match self {
            Op::Eq | Op::Ne => "eq",
            Op::Lt | Op::Gt => "ord-strict",
            Op::Le | Op::Ge => "ord-nonstrict",
        }
    }
}

#[derive(Clone, Debug, Hash, PartialEq, Eq)]
enum Operand {
    Field(usize),
    Lit(V),
}
impl Operand {
    fn txt(&self) -> String {
        match self {
            Operand::Field(i) => FIELDS[*i].to_string(),
            Operand::Lit(v) => v.lit(),
        }
    }
    fn ty(&self, e: &GEv) -> &'static str {
        match self {
            Operand::Field(i) => e.vals[*i].ty(),
            Operand::Lit(v) => v.ty(),
        }
    }
    fn kind(&self) -> &'static str {
        match self {
            Operand::Field(_) => "field",
            Operand::Lit(_) => "lit",
        }
    }
}

#[derive(Clone, Debug, Hash, PartialEq, Eq)]
enum Filt {
    Cmp { op: Op, l: Operand, r: Operand },
    Not(Box<Filt>),
    And(Box<Filt>, Box<Filt>),
    Or(Box<Filt>, Box<Filt>),
}
impl Filt {
    fn is_leaf(&self) -> bool {
        matches!(self, Filt::Cmp { .. })
    }
    fn txt(&self) -> String {
        let sub = |f: &Filt| if f.is_leaf() { f.txt() } else { format!("({})", f.txt()) };
        match self {
            Filt::Cmp { op, l, r } => format!("{} {} {}", l.txt(), op.txt(), r.txt()),
            Filt::Not(c) => format!("not ({})", c.txt()),
            Filt::And(a, b) => format!("{} and {}", sub(a), sub(b)),
            Filt::Or(a, b) => format!("{} or {}", sub(a), sub(b)),
        }
    }
    fn children(&self) -> Vec<&Filt> {
        match self {
            Filt::Cmp { .. } => vec![],
            Filt::Not(c) => vec![c],
            Filt::And(a, b) | Filt::Or(a, b) => vec![a, b],
        }
    }
    fn opname(&self) -> &'static str {
        match self {
            Filt::Cmp { .. } => "leaf",
            Filt::Not(_) => "not",
            Filt::And(..) => "and",
            Filt::Or(..) => "or",
        }
    }
}

#[derive(Clone, Debug, Hash, PartialEq, Eq)]
struct GEv {
    uid: i64,
    vals: [V; 3],
}
impl GEv {
    fn event(&self, ts: i64) -> Event {
        let mut f: Vec<(&str, Value)> = vec![("uid", Value::Int(self.uid))];
        for (i, v) in self.vals.iter().enumerate() {
            if let Some(val) = v.value() {
                f.push((FIELDS[i], val));
            }
        }
        ev("E", ts_ms(ts), &f)
    }
    fn json(&self) -> J {
        json!({"type": "E", "uid": self.uid, "fa": self.vals[0].json(), "fb": self.vals[1].json(), "fc": self.vals[2].json()})
    }
}

// ------------------------------------------------------------------------------------------------
// generators
// ------------------------------------------------------------------------------------------------
fn fbits(f: f64) -> u64 {
    f.to_bits()
}

const BIG_INTS: [i64; 6] = [9007199254740992, 9007199254740993, 9007199254740994, i64::MAX, i64::MAX - 1, -9007199254740993];

fn gen_value(rng: &mut Rng) -> V {
    match rng.below(10) {
        0 | 1 => V::I(*rng.pick(&[0i64, 1, 2, 3, -1, 1, 2])),
        // integers that are distinct as i64 but not as f64
        2 => V::I(*rng.pick(&BIG_INTS)),
        3 | 4 | 5 => V::F(fbits(*rng.pick(&[0.5f64, 1.0, 1.5, 2.0, 0.3, 0.30000000000000004, 1e-20, 0.0, 1.0000000000000002, 3.0]))),
        6 | 7 => V::S(*rng.pick(&["p", "q", "", "pp"])),
        8 => V::B(rng.chance(1, 2)),
        _ => V::Missing,
    }
}

fn gen_lit(rng: &mut Rng) -> V {
    match rng.below(10) {
        0 | 1 | 2 => V::I(*rng.pick(&[0i64, 1, 2, 1, 2, -1])),
        3 => V::I(*rng.pick(&BIG_INTS)),
        4 | 5 | 6 => V::F(fbits(*rng.pick(&[0.3f64, 1.0, 1.5, 0.0, 2.0, 1.0]))),
        7 | 8 => V::S(*rng.pick(&["p", "q"])),
        _ => V::B(rng.chance(1, 2)),
    }
}

fn gen_leaf(rng: &mut Rng, nf: usize) -> Filt {
    let op = *rng.pick(&ALL_OPS);
    let f = Operand::Field(rng.below(nf));
    match rng.below(12) {
        0 => Filt::Cmp { op, l: Operand::Lit(gen_lit(rng)), r: f },
        1 => Filt::Cmp { op, l: f, r: Operand::Field(rng.below(nf)) },
        _ => Filt::Cmp { op, l: f, r: Operand::Lit(gen_lit(rng)) },
    }
}

fn gen_filt(rng: &mut Rng, depth: usize, nf: usize) -> Filt {
    if depth <= 1 {
        return gen_leaf(rng, nf);
    }
    match rng.below(10) {
        0 | 1 => gen_leaf(rng, nf),
        2 | 3 | 4 => Filt::Not(Box::new(gen_filt(rng, depth - 1, nf))),
        5 | 6 => Filt::And(Box::new(gen_filt(rng, depth - 1, nf)), Box::new(gen_filt(rng, depth - 1, nf))),
        _ => Filt::Or(Box::new(gen_filt(rng, depth - 1, nf)), Box::new(gen_filt(rng, depth - 1, nf))),
    }
}

// ------------------------------------------------------------------------------------------------
// filter -> AST / JSON
// ------------------------------------------------------------------------------------------------
impl Operand {
    fn expr(&self) -> Expr {
        match self {
            Operand::Field(i) => Expr::Ident(FIELDS[*i].to_string()),
            Operand::Lit(V::I(i)) => Expr::Int(*i),
            Operand::Lit(V::F(b)) => Expr::Float(f64::from_bits(*b)),
            Operand::Lit(V::S(s)) => Expr::Str(s.to_string()),
            Operand::Lit(V::B(b)) => Expr::Bool(*b),
            Operand::Lit(V::Missing) => Expr::Null,
        }
    }
    fn json(&self) -> J {
        match self {
            Operand::Field(i) => json!({"field": FIELDS[*i]}),
            Operand::Lit(v) => json!({"lit": v.json()}),
        }
    }
    fn from_json(j: &J) -> Operand {
        if let Some(f) = j.get("field").and_then(|x| x.as_str()) {
            Operand::Field(FIELDS.iter().position(|n| *n == f).unwrap_or(0))
        } else {
            Operand::Lit(V::from_json(&j["lit"]))
        }
    }
}

impl Filt {
    fn has_not(&self) -> bool {
        matches!(self, Filt::Not(_)) || self.children().iter().any(|c| c.has_not())
    }
    fn expr(&self) -> Expr {
        let bin = |op: BinOp, a: Expr, b: Expr| Expr::Binary { op, left: Box::new(a), right: Box::new(b) };
        match self {
            Filt::Cmp { op, l, r } => bin(
                match op {
                    Op::Eq => BinOp::Eq,
                    Op::Ne => BinOp::NotEq,
                    Op::Lt => BinOp::Lt,
                    Op::Le => BinOp::Le,
                    Op::Gt => BinOp::Gt,
                    Op::Ge => BinOp::Ge,
                },
                l.expr(),
                r.expr(),
            ),
            Filt::Not(c) => Expr::Unary { op: UnaryOp::Not, expr: Box::new(c.expr()) },
            Filt::And(a, b) => bin(BinOp::And, a.expr(), b.expr()),
            Filt::Or(a, b) => bin(BinOp::Or, a.expr(), b.expr()),
        }
    }
    fn json(&self) -> J {
        match self {
            Filt::Cmp { op, l, r } => json!(["cmp", op.txt(), l.json(), r.json()]),
            Filt::Not(c) => json!(["not", c.json()]),
            Filt::And(a, b) => json!(["and", a.json(), b.json()]),
            Filt::Or(a, b) => json!(["or", a.json(), b.json()]),
        }
    }
    fn from_json(j: &J) -> Filt {
        match j[0].as_str().unwrap_or("") {
            "not" => Filt::Not(Box::new(Filt::from_json(&j[1]))),
            "and" => Filt::And(Box::new(Filt::from_json(&j[1])), Box::new(Filt::from_json(&j[2]))),
            "or" => Filt::Or(Box::new(Filt::from_json(&j[1])), Box::new(Filt::from_json(&j[2]))),
            _ => Filt::Cmp {
                op: *ALL_OPS.iter().find(|o| Some(o.txt()) == j[1].as_str()).unwrap_or(&Op::Eq),
                l: Operand::from_json(&j[2]),
                r: Operand::from_json(&j[3]),
            },
        }
    }
    /// preorder list of all sub-filters (self first)
    fn nodes(&self) -> Vec<&Filt> {
        let mut v = vec![self];
        for c in self.children() {
            v.extend(c.nodes());
        }
        v
    }
}

// ------------------------------------------------------------------------------------------------
// running the two real paths
// ------------------------------------------------------------------------------------------------
#[derive(Clone, Copy, Debug, PartialEq, Eq, Hash)]
enum Placement {
    First,
    Later,
}
impl Placement {
    fn name(&self) -> &'static str {
        match self {
            Placement::First => "first-step",
            Placement::Later => "later-step",
        }
    }
}

/// How the filter gets into the program: as program text through the real parser, or — for filters
/// containing `not`, which the parser currently parses as if the `not` were absent — by parsing the
/// same program with a placeholder filter and substituting the filter's AST (`Expr::Unary{Not,..}`).
#[derive(Clone, Copy, Debug, PartialEq, Eq, Hash)]
enum Lane {
    Text,
    Ast,
}
impl Lane {
    fn name(&self) -> &'static str {
        match self {
            Lane::Text => "text",
            Lane::Ast => "ast-substitution",
        }
    }
}

const PLACEHOLDER: &str = "fa == 424242";

/// One program holding, for every filter i: `W<i>` (.where), `F<i>` (first-step filter), `L<i>`
/// (later-step filter) and, if `values`, one stream `G` emitting `r<i>: <filter i>` (value / no value
/// of the VPL evaluator). One program = one parse (the parser spawns a thread per parse).
fn program_text(filters: &[String], values: bool) -> String {
    let mut s = String::new();
    for (i, f) in filters.iter().enumerate() {
        s.push_str(&format!("stream W{} = E.where({}).emit(u: uid)\n", i, f));
        s.push_str(&format!("stream F{} = sequence(e: E where {}, t: Tick)\n    .emit(u: e.uid)\n", i, f));
        s.push_str(&format!("stream L{} = Tick as t -> E where {} as e\n    .emit(u: e.uid)\n", i, f));
    }
    if values {
        let fields: Vec<String> = filters.iter().enumerate().map(|(i, f)| format!("r{}: {}", i, f)).collect();
        s.push_str(&format!("stream G = E.emit(u: uid, {})\n", fields.join(", ")));
    }
    s
}

thread_local! {
    static PLACEHOLDER_PROGRAMS: std::cell::RefCell<std::collections::HashMap<(usize, bool), Program>> = std::cell::RefCell::new(std::collections::HashMap::new());
}

/// Build the program for `filters` in the given lane. Returns (program, text shown in witnesses).
fn build(lane: Lane, filters: &[&Filt], values: bool) -> Result<(Program, String), String> {
    match lane {
        Lane::Text => {
            let txt = program_text(&filters.iter().map(|f| f.txt()).collect::<Vec<_>>(), values);
            let p = varpulis_parser::parse(&txt).map_err(|e| format!("parse: {}", e))?;
            Ok((p, txt))
        }
        Lane::Ast => {
            let n = filters.len();
            let txt = program_text(&vec![PLACEHOLDER.to_string(); n], values);
            let cached = PLACEHOLDER_PROGRAMS.with(|c| c.borrow().get(&(n, values)).cloned());
            let mut p = match cached {
                Some(p) => p,
                None => {
                    let p = varpulis_parser::parse(&txt).map_err(|e| format!("parse: {}", e))?;
                    PLACEHOLDER_PROGRAMS.with(|c| c.borrow_mut().insert((n, values), p.clone()));
                    p
                }
            };
            let mut placed = 0usize;
            for st in p.statements.iter_mut() {
                if let Stmt::StreamDecl { name, source, ops, .. } = &mut st.node {
                    let idx = name[1..].parse::<usize>().unwrap_or(0);
                    match &name[..1] {
                        "W" => {
                            for o in ops.iter_mut() {
                                if let StreamOp::Where(e) = o {
                                    *e = filters[idx].expr();
                                    placed += 1;
                                }
                            }
                        }
                        "F" => {
                            if let StreamSource::Sequence(decl) = source {
                                decl.steps[0].filter = Some(filters[idx].expr());
                                placed += 1;
                            }
                        }
                        "L" => {
                            for o in ops.iter_mut() {
                                if let StreamOp::FollowedBy(c) = o {
                                    c.filter = Some(filters[idx].expr());
                                    placed += 1;
                                }
                            }
                        }
                        _ => {
                            for o in ops.iter_mut() {
                                if let StreamOp::Emit { fields, .. } = o {
                                    for (k, fa) in fields.iter_mut().skip(1).enumerate() {
                                        fa.value = filters[k].expr();
                                        placed += 1;
                                    }
                                }
                            }
                        }
                    }
                }
            }
            let want = n * 3 + if values { n } else { 0 };
            if placed != want {
                return Err(format!("ast substitution placed {} of {} filters", placed, want));
            }
            let shown = format!(
                "{}# each placeholder `{}` of W<i>/F<i>/L<i>/r<i> is replaced in the parsed AST by the expression tree of filter i: {}",
                txt,
                PLACEHOLDER,
                filters.iter().enumerate().map(|(i, f)| format!("[{}] `{}`", i, f.txt())).collect::<Vec<_>>().join(" ; ")
            );
            Ok((p, shown))
        }
    }
}

fn interleave(evs: &[GEv]) -> Vec<Event> {
    let mut out = vec![ev("Tick", ts_ms(0), &[("uid", Value::Int(0))])];
    for (i, g) in evs.iter().enumerate() {
        out.push(g.event(2 * i as i64 + 1));
        out.push(ev("Tick", ts_ms(2 * i as i64 + 2), &[("uid", Value::Int(0))]));
    }
    out
}

enum RunErr {
    Rejected(String),
    Panic(String, String),
}

fn run_program(rt: &tokio::runtime::Runtime, p: &Program, events: &[Event]) -> Result<Vec<Event>, RunErr> {
    let r = catch(std::panic::AssertUnwindSafe(|| -> Result<Vec<Event>, String> {
        let (tx, rx) = tokio::sync::mpsc::channel::<Event>(100_000);
        let mut engine = Engine::new(tx);
        engine.load(p).map_err(|e| format!("load: {}", e))?;
        let mut l = Loaded { engine, rx };
        let mut out = vec![];
        for e in events {
            rt.block_on(l.engine.process(e.clone())).map_err(|e| format!("process: {}", e))?;
            out.extend(l.drain());
        }
        Ok(out)
    }));
    match r {
        Ok(Ok(o)) => Ok(o),
        Ok(Err(e)) => Err(RunErr::Rejected(e)),
        Err(p) => {
            let site = panic_site(&last_panic_location());
            Err(RunErr::Panic(p, site.rsplit_once(':').map(|(f, _)| f.to_string()).unwrap_or(site)))
        }
    }
}

/// Accepted uid sets of streams `<prefix>0 .. <prefix>n-1`.
fn accepted_sets(outs: &[Event], prefix: &str, n: usize) -> Vec<BTreeSet<i64>> {
    let mut sets = vec![BTreeSet::new(); n];
    for o in outs {
        if let Some(idx) = o.event_type.strip_prefix(prefix).and_then(|s| s.parse::<usize>().ok()) {
            if let (true, Some(Value::Int(u))) = (idx < n, o.data.get("u")) {
                sets[idx].insert(*u);
            }
        }
    }
    sets
}

/// What the streams of one program accepted, per filter index.
struct Obs {
    w: Vec<BTreeSet<i64>>,
    f: Vec<BTreeSet<i64>>,
    l: Vec<BTreeSet<i64>>,
    /// uids for which the VPL evaluator produced a value for filter i (field r<i> present in G's output)
    v: Vec<BTreeSet<i64>>,
    shown: String,
}
impl Obs {
    fn seq(&self, p: Placement) -> &Vec<BTreeSet<i64>> {
        match p {
            Placement::First => &self.f,
            Placement::Later => &self.l,
        }
    }
}

fn run_all(rt: &tokio::runtime::Runtime, lane: Lane, filters: &[&Filt], events: &[Event], values: bool) -> Result<Obs, RunErr> {
    let (p, shown) = build(lane, filters, values).map_err(RunErr::Rejected)?;
    let outs = run_program(rt, &p, events)?;
    let n = filters.len();
    let mut v = vec![BTreeSet::new(); n];
    if values {
        for o in outs.iter().filter(|o| &*o.event_type == "G") {
            if let Some(Value::Int(u)) = o.data.get("u") {
                for (i, s) in v.iter_mut().enumerate() {
                    if o.data.get(format!("r{}", i).as_str()).is_some() {
                        s.insert(*u);
                    }
                }
            }
        }
    }
    Ok(Obs { w: accepted_sets(&outs, "W", n), f: accepted_sets(&outs, "F", n), l: accepted_sets(&outs, "L", n), v, shown })
}

fn leaf_reason(f: &Filt, e: &GEv) -> String {
    if let Filt::Cmp { op, l, r } = f {
        let (lt, rt_) = (l.ty(e), r.ty(e));
        if lt == "missing" || rt_ == "missing" {
            "missing-field".to_string()
        } else if op.class() == "eq" {
            "eq-novalue".to_string()
        } else if (lt == "int" && rt_ == "float") || (lt == "float" && rt_ == "int") {
            format!("{}-int-float", op.class())
        } else {
            "ord-non-numeric".to_string()
        }
    } else {
        "composite".to_string()
    }
}

/// index of the first child of node `i` and of the following ones, in preorder numbering
fn child_indices(nodes: &[&Filt], i: usize) -> Vec<usize> {
    let mut out = vec![];
    let mut k = i + 1;
    for c in nodes[i].children() {
        out.push(k);
        k += c.nodes().len();
    }
    out
}

fn novalue_reason(nodes: &[&Filt], obs: &Obs, i: usize, e: &GEv) -> String {
    if obs.v[i].contains(&e.uid) {
        return "has-value".to_string();
    }
    if nodes[i].is_leaf() {
        return leaf_reason(nodes[i], e);
    }
    for c in child_indices(nodes, i) {
        if !obs.v[c].contains(&e.uid) {
            return novalue_reason(nodes, obs, c, e);
        }
    }
    "composite".to_string()
}

/// Signature of a disagreement at node `i` on event `e`: descend to the smallest sub-filter on which
/// the two paths still disagree, then name its shape.
fn classify(nodes: &[&Filt], obs: &Obs, p: Placement, i: usize, e: &GEv) -> (String, String) {
    let kids = child_indices(nodes, i);
    for &c in &kids {
        if obs.w[c].contains(&e.uid) != obs.seq(p)[c].contains(&e.uid) {
            return classify(nodes, obs, p, c, e);
        }
    }
    let f = nodes[i];
    let sig = match f {
        Filt::Cmp { op, l, r } => format!("leaf/{}-{}/{}/{}-{}", l.kind(), r.kind(), op.class(), l.ty(e), r.ty(e)),
        Filt::Not(_) => format!("not/operand:{}", novalue_reason(nodes, obs, kids[0], e)),
        Filt::And(..) | Filt::Or(..) => {
            let mut rs: Vec<String> = kids.iter().map(|c| novalue_reason(nodes, obs, *c, e)).filter(|r| r != "has-value").collect();
            rs.sort();
            rs.dedup();
            format!("{}/operand:{}", f.opname(), if rs.is_empty() { "has-value".to_string() } else { rs.join("+") })
        }
    };
    (sig, f.txt())
}

fn evs_json(evs: &[GEv]) -> Vec<J> {
    evs.iter().map(|g| g.json()).collect()
}

/// Observations of one filter cut out of a group run (filters `lo..hi` of the group program).
fn slice_obs(o: &Obs, lo: usize, hi: usize) -> Obs {
    Obs { w: o.w[lo..hi].to_vec(), f: o.f[lo..hi].to_vec(), l: o.l[lo..hi].to_vec(), v: o.v[lo..hi].to_vec(), shown: o.shown.clone() }
}

/// Check a group of filters over the same batch with one program (one parser call) per step.
/// Returns the group's observations (for the lane self-check).
fn check_group(fs: &[&Filt], evs: &[GEv], lane: Lane, rt: &tokio::runtime::Runtime, out: &mut Partial) -> Option<Obs> {
    if fs.is_empty() {
        return None;
    }
    let events = interleave(evs);
    let root = match run_all(rt, lane, fs, &events, false) {
        Ok(o) => o,
        Err(RunErr::Rejected(e)) => {
            if fs.len() > 1 {
                // one filter may have spoiled the group: run them one by one
                for f in fs {
                    check_group(&[*f], evs, lane, rt, out);
                }
            } else {
                out.add("programs_rejected", 1);
                if out.samples.len() < 3 {
                    out.sample(json!({"rejected": program_text(&[fs[0].txt()], false), "error": e}));
                }
            }
            return None;
        }
        Err(RunErr::Panic(p, site)) => {
            if fs.len() > 1 {
                for f in fs {
                    check_group(&[*f], evs, lane, rt, out);
                }
            } else {
                out.violation(&format!("panic/{}", site), "engine panicked evaluating a filter", json!({"filter": fs[0].txt(), "filter_tree": fs[0].json(), "lane": lane.name(), "program": program_text(&[fs[0].txt()], false), "batch": evs_json(evs), "panic": p}));
            }
            return None;
        }
    };
    // which filters disagree somewhere?
    let mut bad: Vec<usize> = vec![];
    for (i, f) in fs.iter().enumerate() {
        out.eval();
        out.add(&format!("filters_{}", lane.name()), 1);
        out.add("events_judged", evs.len() as u64);
        out.add("placements_compared", 2);
        let w = &root.w[i];
        if !w.is_empty() && w.len() < evs.len() {
            out.nontrivial(&(f.txt(), evs.to_vec(), lane));
            if out.samples.len() < 2 {
                out.sample(json!({"filter": f.txt(), "lane": lane.name(), "events": evs_json(evs), "where_accepted_uids": w}));
            }
        }
        if &root.f[i] != w || &root.l[i] != w {
            bad.push(i);
        }
    }
    if bad.is_empty() {
        return Some(root);
    }
    // per-node observations (both paths + value/no-value of the VPL evaluator) of every disagreeing filter, one program
    let mut all_nodes: Vec<&Filt> = vec![];
    let mut ranges: Vec<(usize, usize)> = vec![];
    for &i in &bad {
        let n = fs[i].nodes();
        ranges.push((all_nodes.len(), all_nodes.len() + n.len()));
        all_nodes.extend(n);
    }
    let node_obs = run_all(rt, lane, &all_nodes, &events, true).ok();
    out.add("node_level_programs", 1);
    for (bi, &i) in bad.iter().enumerate() {
        let f = fs[i];
        let ft = f.txt();
        let nodes = f.nodes();
        let w = &root.w[i];
        let obs = node_obs.as_ref().map(|o| slice_obs(o, ranges[bi].0, ranges[bi].1)).filter(|o| &o.w[0] == w && o.f[0] == root.f[i] && o.l[0] == root.l[i]);
        for p in [Placement::First, Placement::Later] {
            let s = &root.seq(p)[i];
            if s == w {
                continue;
            }
            for g in evs {
                let (inw, ins) = (w.contains(&g.uid), s.contains(&g.uid));
                if inw == ins {
                    continue;
                }
                let (sig, minimal) = match &obs {
                    Some(o) => classify(&nodes, o, p, 0, g),
                    None => ("unclassified".to_string(), ft.clone()),
                };
                // a witness that will be stored is re-run with this filter alone, so that the replay is minimal and exact
                let stored = out.violations.iter().filter(|v| v.0 == sig).count() < 3;
                let witness = if stored {
                    let alone = run_all(rt, lane, &[f], &events, false).ok();
                    out.add("witnesses_rerun_alone", 1);
                    match alone {
                        Some(a) if a.w[0].contains(&g.uid) == inw && a.seq(p)[0].contains(&g.uid) == ins => json!({
                            "filter": ft,
                            "filter_tree": f.json(),
                            "lane": lane.name(),
                            "minimal_disagreeing_subfilter": minimal,
                            "placement": p.name(),
                            "program": a.shown,
                            "streams": {"where": "W0", "sequence": if p == Placement::First { "F0" } else { "L0" }},
                            "event": g.json(),
                            "stream": "Tick(uid 0) first, then every E of the batch followed by one Tick",
                            "batch": evs_json(evs),
                            "where_accepts": inw,
                            "sequence_accepts": ins,
                            "where_accepted_uids": a.w[0],
                            "sequence_accepted_uids": a.seq(p)[0],
                        }),
                        _ => json!({
                            "filter": ft,
                            "filter_tree": f.json(),
                            "lane": lane.name(),
                            "minimal_disagreeing_subfilter": minimal,
                            "placement": p.name(),
                            "note": "observed in a program holding several filters; the re-run with this filter alone did not show the same pair of answers",
                            "program": root.shown,
                            "streams": {"where": format!("W{}", i), "sequence": format!("{}{}", if p == Placement::First { "F" } else { "L" }, i)},
                            "event": g.json(),
                            "batch": evs_json(evs),
                            "where_accepts": inw,
                            "sequence_accepts": ins,
                            "where_accepted_uids": w,
                            "sequence_accepted_uids": s,
                        }),
                    }
                } else {
                    J::Null
                };
                out.violation(&sig, "the same filter accepts different events in .where and as a sequence-step filter", witness);
            }
        }
    }
    Some(root)
}

fn contains_not(e: &Expr) -> bool {
    match e {
        Expr::Unary { op: UnaryOp::Not, .. } => true,
        Expr::Unary { expr, .. } => contains_not(expr),
        Expr::Binary { left, right, .. } => contains_not(left) || contains_not(right),
        _ => false,
    }
}

fn gen_batch(rng: &mut Rng, n: usize, nf: usize) -> Vec<GEv> {
    (0..n)
        .map(|i| {
            let mut vals = [V::Missing, V::Missing, V::Missing];
            for v in vals.iter_mut().take(nf) {
                *v = gen_value(rng);
            }
            GEv { uid: i as i64 + 1, vals }
        })
        .collect()
}

fn replay(path: &std::path::Path) -> i32 {
    let doc: J = serde_json::from_str(&std::fs::read_to_string(path).expect("replay file")).expect("json");
    let w = &doc["witness"];
    let rt = rt();
    let f = Filt::from_json(&w["filter_tree"]);
    let lane = if w["lane"] == "text" { Lane::Text } else { Lane::Ast };
    let p = if w["placement"] == "first-step" { Placement::First } else { Placement::Later };
    let evs: Vec<GEv> = w["batch"]
        .as_array()
        .cloned()
        .unwrap_or_default()
        .iter()
        .map(|j| GEv { uid: j["uid"].as_i64().unwrap_or(0), vals: [V::from_json(&j["fa"]), V::from_json(&j["fb"]), V::from_json(&j["fc"])] })
        .collect();
    let events = interleave(&evs);
    match run_all(&rt, lane, &[&f], &events, false) {
        Ok(o) => println!("{}\naccepted uids now: where(W0) {:?} / {}({}) {:?}\n", o.shown, o.w[0], p.name(), if p == Placement::First { "F0" } else { "L0" }, o.seq(p)[0]),
        Err(_) => println!("program could not be run"),
    }
    println!("recorded: where {} / sequence {} ; disagreeing event {}", w["where_accepted_uids"], w["sequence_accepted_uids"], w["event"]);
    0
}

fn main() {
    let args = Args::parse();
    install_quiet_panic_hook();
    watchdog("C09", args.pick(600, 7200));
    if let Some(p) = args.replay.clone() {
        std::process::exit(replay(&p));
    }
    if let Some(ft) = args.opt("--filter") {
        // debugging aid: `c09 --filter "not (fa < 1)"` prints the parsed AST and what both paths accept (text lane)
        let txt = program_text(&[ft.clone()], true);
        println!("{:#?}", varpulis_parser::parse(&txt).map(|p| p.statements.into_iter().map(|s| s.node).collect::<Vec<_>>()));
        let rt = rt();
        let mut rng = Rng::new(args.seed);
        let evs = gen_batch(&mut rng, 12, 3);
        let events = interleave(&evs);
        for g in &evs {
            println!("{}", g.json());
        }
        let r = varpulis_parser::parse(&txt).ok().and_then(|p| run_program(&rt, &p, &events).ok());
        if let Some(o) = r {
            println!("where {:?}\nfirst {:?}\nlater {:?}", accepted_sets(&o, "W", 1), accepted_sets(&o, "F", 1), accepted_sets(&o, "L", 1));
        }
        std::process::exit(0);
    }
    let mut rep = Report::new("C09", "exploration", &args);
    rep.rule = "random filters of depth <=3 over == != < <= > >= and or not, 1-3 fields (field OP literal mostly; also literal OP field and field OP field), literal type independent of the field type; batches of events whose fields are int/float/string/bool/missing over small domains (incl. 0.1+0.2 vs 0.3, 1e-20 vs 0.0); the same filter is loaded as `E.where(f)` and as a sequence-step filter in first-step (`sequence(e: E where f, t: Tick)`) and later-step (`Tick as t -> E where f as e`) placement, stream Tick E1 Tick E2 ... so each E is judged alone; accepted uid sets compared. Filters without `not` go in as program text; filters with `not` go in by AST substitution (see assumptions). Non-trivial: the .where stream accepts some and rejects some events of the batch; distinct by (filter text, batch, lane).".into();
    rep.assume("each E is followed by a Tick, so a first-step run completes at once; each E is preceded by a Tick, so a later-step run is always waiting; uid sets (not multisets) are compared because a waiting later-step run of an earlier Tick also completes at the same E");
    rep.assume("the arrow form has no filter on its first step in the grammar; the first-step placement uses the sequence(...) form");
    rep.assume("the parser currently parses `not X` as `X` in all three expression grammars (counter text_not_dropped_by_parser), so a filter containing `not` cannot reach either evaluator from program text; such filters are placed by substituting Expr::Unary{Not} into the AST of the same programs parsed with a placeholder filter, and loaded through Engine::load — signatures `not/*` come from that lane only");
    let threads = ncpu();
    let filters = args.pick(4000usize, 120_000usize);
    let per_thread = filters / threads + 1;
    let batch = args.pick(10usize, 16usize);
    let parts = parallel(threads, args.seed ^ 0xC09, move |_ti, mut rng| {
        let mut out = Partial::default();
        let rt = rt();
        const GROUP: usize = 8;
        let groups = per_thread / GROUP + 1;
        for k in 0..groups {
            // GROUP filters over one batch of events (all three fields drawn; a filter uses its first 1-3)
            let filts: Vec<Filt> = (0..GROUP)
                .map(|_| {
                    let nf = 1 + rng.below(3);
                    let depth = 1 + rng.below(3);
                    gen_filt(&mut rng, depth, nf)
                })
                .collect();
            let evs = gen_batch(&mut rng, batch, 3);
            let with_not: Vec<&Filt> = filts.iter().filter(|f| f.has_not()).collect();
            let plain: Vec<&Filt> = filts.iter().filter(|f| !f.has_not()).collect();
            // filters without `not`: program text
            let t = check_group(&plain, &evs, Lane::Text, &rt, &mut out);
            // filters with `not`: AST substitution (the parser drops `not`, see assumptions)
            check_group(&with_not, &evs, Lane::Ast, &rt, &mut out);
            if k % 4 == 0 {
                // the text as the parser reads it today (i.e. without the `not`s) must agree with itself too
                if let Some(f) = with_not.first() {
                    if let Ok(p) = varpulis_parser::parse(&format!("stream W0 = E.where({}).emit(u: uid)\n", f.txt())) {
                        let kept = p.statements.iter().any(|s| match &s.node {
                            Stmt::StreamDecl { ops, .. } => ops.iter().any(|o| matches!(o, StreamOp::Where(e) if contains_not(e))),
                            _ => false,
                        });
                        out.add(if kept { "text_not_kept_by_parser" } else { "text_not_dropped_by_parser" }, 1);
                    }
                }
                check_group(&with_not, &evs, Lane::Text, &rt, &mut out);
                // harness self-check: for not-free filters the AST lane must be the same program as the text lane
                if let (Some(t), Ok(a)) = (&t, run_all(&rt, Lane::Ast, &plain, &interleave(&evs), false)) {
                    out.add("lane_equivalence_checked", plain.len() as u64);
                    if a.w != t.w || a.f != t.f || a.l != t.l {
                        out.inconclusive("AST-substitution lane and text lane differ for a group of not-free filters");
                    }
                }
            }
        }
        out
    });
    for p in parts {
        rep.merge(p);
    }
    std::process::exit(rep.finish());
}
