//! C17 — each stream processes each routed event exactly once.
//! Monitor: hook H4 routing trace (event popped at depth d / handed to stream S) on every
//! entry point, compared as a multiset of (stream, uid, depth) with the consumption relation
//! the harness computes itself from the program (source types, merge sources, derived stream
//! names, filters), closed over chain depth < 10.
#[path = "../proggen.rs"]
mod proggen;
use proggen::*;
use serde_json::json;
use std::collections::{BTreeMap, VecDeque};
use std::sync::Arc;
use varpulis_runtime::event::Event;
use vh::eng::*;
use vh::*;

type Entry = (String, i64, usize); // (stream, uid, depth)

/// Harness-side consumption model.
fn expected(p: &Prog, ins: &[In]) -> BTreeMap<Entry, i64> {
    let mut m: BTreeMap<Entry, i64> = BTreeMap::new();
    for i in ins {
        let mut q: VecDeque<(String, i64, i64, usize)> = VecDeque::new(); // (type, uid, x, depth)
        q.push_back((i.ty.to_string(), i.uid, i.x, 0));
        while let Some((ty, uid, x, d)) = q.pop_front() {
            if d >= 10 {
                continue;
            }
            for s in &p.streams {
                if !s.consumes().contains(&ty) {
                    continue;
                }
                *m.entry((s.name.clone(), uid, d)).or_insert(0) += 1;
                match &s.kind {
                    Kind::Filter { min_x, .. } => {
                        if min_x.map(|c| x >= c).unwrap_or(true) {
                            q.push_back((s.name.clone(), uid, x, d + 1));
                        }
                    }
                    Kind::Merge { left, left_min_x, right, .. } => {
                        let pass = if &ty == left && left != right { left_min_x.map(|c| x >= c).unwrap_or(true) } else { true };
                        if pass {
                            q.push_back((s.name.clone(), uid, x, d + 1));
                        }
                    }
                    _ => {} // windows / sequences / joins are terminal consumers in this grammar
                }
            }
        }
    }
    m
}

#[cfg(varpulis_verif)]
fn observed_of(log: Vec<varpulis_runtime::verif::RouteEntry>, m: &mut BTreeMap<Entry, i64>, unknown: &mut u64) {
    use varpulis_runtime::verif::RouteEntry;
    let mut cur: Option<(Option<i64>, usize)> = None;
    for e in log {
        match e {
            RouteEntry::Popped { event, depth } => cur = Some((get_i(&event, "uid"), depth)),
            RouteEntry::Stream(name) => match &cur {
                Some((Some(uid), d)) => *m.entry((name, *uid, *d)).or_insert(0) += 1,
                _ => *unknown += 1,
            },
        }
    }
}

fn run_path(path: &str, src: &str, events: &[Event], splits: &[usize], rt: &tokio::runtime::Runtime) -> Result<(BTreeMap<Entry, i64>, u64), String> {
    let mut l = load(src)?;
    let mut m = BTreeMap::new();
    let mut unknown = 0u64;
    #[cfg(varpulis_verif)]
    {
        use varpulis_runtime::verif::{route_log_start, route_log_take};
        if path == "process" {
            for e in events {
                route_log_start();
                let r = rt.block_on(l.engine.process(e.clone()));
                observed_of(route_log_take(), &mut m, &mut unknown);
                r?;
                l.drain();
            }
        } else {
            let mut i = 0;
            for &n in splits {
                let chunk: Vec<Event> = events[i..(i + n).min(events.len())].to_vec();
                i += n;
                if chunk.is_empty() {
                    continue;
                }
                route_log_start();
                let r = match path {
                    "process_batch" => rt.block_on(l.engine.process_batch(chunk)),
                    "process_batch_sync" => l.engine.process_batch_sync(chunk),
                    _ => rt.block_on(l.engine.process_batch_shared(chunk.into_iter().map(Arc::new).collect())),
                };
                observed_of(route_log_take(), &mut m, &mut unknown);
                r?;
                l.drain();
            }
        }
    }
    let _ = (path, events, splits, rt, &mut l);
    Ok((m, unknown))
}

fn main() {
    let args = Args::parse();
    install_quiet_panic_hook();
    watchdog("C17", args.pick(1500, 14400));
    let mut rep = Report::new("C17", "exploration", &args);
    rep.rule = "programs of 1-5 streams (+ optionally a stream named like the base type it consumes, which re-routes to itself up to the depth limit): filters with and without emit, merge sources with per-source filter, derived chains and diamonds, and terminal consumers (windows, sequences and joins over base types); random inputs of 5-30 events; all four entry points with random batch splits. For every (stream, event uid, depth) the number of times hook H4 saw the stream process that event instance must equal the harness's own consumption model (1 where the stream consumes the event's type or stream name within depth < 10, 0 elsewhere). Non-trivial: program with >=1 derived stream and >=1 event reaching depth >=2; distinct by (program, inputs).".into();
    rep.assume("sequences and joins are only generated over base event types: over derived streams the engine resolves them to the underlying type + filter, which is an internal choice the statement does not pin");
    rep.assume("derived events are identified by the uid field every generated stream carries through");
    #[cfg(not(varpulis_verif))]
    rep.inconclusive("built without --cfg varpulis_verif: routing not observable");
    let threads = ncpu();
    let cases = args.pick(1500usize, 80_000usize);
    let per_thread = cases / threads + 1;
    let parts = parallel(threads, args.seed ^ 0xC17, move |_ti, mut rng| {
        let mut out = Partial::default();
        let rt = rt();
        let opts = POpts { max_streams: 5, windows: true, time_windows: false, sequences: false, joins: false, stateful_pass: false, merges: true, self_named: true };
        for _ in 0..per_thread {
            let mut p = gen_prog(&mut rng, &opts);
            // terminal sequence / join consumers over base types only
            if rng.chance(1, 3) {
                let n = p.streams.len();
                p.streams.push(StreamDef { name: format!("Q{}", n), kind: Kind::Seq { t0: "A".into(), t1: "B".into(), cmp: ">=", partitioned: false, all: false } });
            }
            if rng.chance(1, 4) {
                let n = p.streams.len();
                p.streams.push(StreamDef { name: format!("J{}", n), kind: Kind::Join { left: "A".into(), right: "B".into(), window_ms: 5 } });
            }
            let src = p.vpl();
            let len = 5 + rng.below(26);
            let ins = gen_inputs(&mut rng, len);
            let events: Vec<Event> = ins.iter().map(|i| i.event()).collect();
            let mut splits = vec![];
            let mut left = events.len();
            while left > 0 {
                let n = 1 + rng.below(left.min(8));
                splits.push(n);
                left -= n;
            }
            let want = expected(&p, &ins);
            let deep = want.keys().any(|(_, _, d)| *d >= 2);
            let derived = p.streams.iter().any(|s| s.consumes().iter().any(|c| !BASE_TYPES.contains(&c.as_str()) || p.streams.iter().any(|t| &t.name == c)));
            for path in ["process", "process_batch", "process_batch_sync", "process_batch_shared"] {
                out.eval();
                let got = match catch(std::panic::AssertUnwindSafe(|| run_path(path, &src, &events, &splits, &rt))) {
                    Ok(Ok(g)) => g,
                    Ok(Err(e)) => {
                        out.add("programs_rejected", 1);
                        if out.counters["programs_rejected"] <= 2 { out.sample(json!({"rejected": src, "error": e})); }
                        break;
                    }
                    Err(pn) => {
                        out.violation(&format!("{}/panic", path), "engine panicked", json!({"program": src, "panic": pn, "site": panic_site(&last_panic_location())}));
                        continue;
                    }
                };
                let (obs, unknown) = got;
                out.add("stream_process_events_observed", obs.values().sum::<i64>() as u64);
                if unknown > 0 {
                    out.add("process_events_without_uid", unknown);
                }
                if derived && deep {
                    out.nontrivial(&(src.clone(), ins.iter().map(|i| (i.uid, i.ty, i.x)).collect::<Vec<_>>()));
                }
                if obs == want {
                    continue;
                }
                // classify
                let mut keys: Vec<&Entry> = obs.keys().chain(want.keys()).collect();
                keys.sort();
                keys.dedup();
                for k in keys {
                    let (o, w) = (obs.get(k).copied().unwrap_or(0), want.get(k).copied().unwrap_or(0));
                    if o == w {
                        continue;
                    }
                    let kind = p.streams.iter().find(|s| s.name == k.0).map(|s| s.kind_name()).unwrap_or("unknown");
                    let what = if w == 0 { "processed-by-non-consumer" } else if o == 0 { "not-processed" } else if o > w { "processed-more-than-once" } else { "processed-fewer-times" };
                    let lvl = if k.2 == 0 { "external" } else if k.2 >= 9 { "depth-limit" } else { "derived" };
                    out.violation(&format!("{}/{}/{}/{}", path, what, kind, lvl), "a stream did not process a routed event exactly once", json!({"program": src, "events": ins.iter().map(|i| i.json()).collect::<Vec<_>>(), "splits": splits, "stream": k.0, "uid": k.1, "depth": k.2, "observed": o, "expected": w}));
                    break;
                }
            }
            if out.samples.len() < 2 && derived && deep {
                out.sample(json!({"program": src, "events": ins.len(), "expected_process_events": want.values().sum::<i64>()}));
            }
        }
        out
    });
    for p in parts {
        rep.merge(p);
    }
    std::process::exit(rep.finish());
}
