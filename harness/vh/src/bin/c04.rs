//! C04 — partitioned patterns, windows and aggregates act as independent per-key runs.
//! Monitor (differential between two executions of the real engine): program P on stream S
//! versus the same P on each per-key sub-stream S|k in fresh engines; the output multisets
//! must be equal.
use serde_json::json;
use std::collections::BTreeMap;
use varpulis_core::Value;
use varpulis_runtime::event::Event;
use vh::eng::*;
use vh::seqgen::*;
use vh::*;

#[derive(Clone, Debug)]
enum Prog {
    Seq(SeqProg),
    Win { kind: &'static str, vpl: String },
}

fn win_prog(rng: &mut Rng) -> Prog {
    let kinds = ["count", "tumbling", "session", "sliding-count", "sliding", "aggregate"];
    let kind = *rng.pick(&kinds);
    let w = match kind {
        "count" => format!("    .window({})\n", 1 + rng.below(4)),
        "tumbling" => format!("    .window({}ms)\n", 1 + rng.below(5)),
        "session" => format!("    .window(session: {}ms)\n", 1 + rng.below(4)),
        "sliding-count" => format!("    .window({}, sliding: {})\n", 1 + rng.below(4), 1 + rng.below(3)),
        "sliding" => {
            let size = 2 + rng.below(5);
            format!("    .window({}ms, sliding: {}ms)\n", size, 1 + rng.below(size))
        }
        _ => String::new(),
    };
    let filt = if rng.chance(1, 3) { format!("    .where(x >= {})\n", rng.below(3)) } else { String::new() };
    let vpl = format!(
        "stream W = A\n{}    .partition_by(k)\n{}    .aggregate(n: count(), s: sum(uid), f: first(uid), l: last(uid), mx: max(x))\n    .emit(n: n, s: s, f: f, l: l, mx: mx)\n",
        filt, w
    );
    Prog::Win { kind, vpl }
}

fn canon(e: &Event) -> String {
    let mut m: BTreeMap<String, serde_json::Value> = BTreeMap::new();
    for (k, v) in e.data.iter() {
        m.insert(k.to_string(), val_json(v));
    }
    format!("{}:{}", e.event_type, serde_json::to_string(&m).unwrap())
}

fn multiset(es: &[Event]) -> BTreeMap<String, i64> {
    let mut m = BTreeMap::new();
    for e in es {
        *m.entry(canon(e)).or_insert(0) += 1;
    }
    m
}

fn main() {
    let args = Args::parse();
    install_quiet_panic_hook();
    watchdog("C04", args.pick(1200, 14400));
    let mut rep = Report::new("C04", "exploration", &args);
    rep.rule = "programs with partition_by(k): generated sequence programs (incl. .not and `all`), count / tumbling / session / sliding-count / time-sliding windows and window-less aggregates with uid-fingerprint aggregates (count, sum(uid), first(uid), last(uid), max(x)); streams of 10-60 events with 1-6 key values of one type (ints or strings that are neither \"\" nor \"default\") incl. events without the key; explicit timestamps with ties. Compared: multiset(out(S)) vs disjoint union of out(S|k) over fresh engines. Non-trivial: >=2 keys interleaved and >=1 output for >=2 keys; distinct by (program, stream).".into();
    rep.assume("outputs are compared by stream name and data fields (wall-clock emission timestamps excluded)");
    let threads = ncpu();
    let cases = args.pick(800usize, 80_000usize);
    let per_thread = cases / threads + 1;
    let parts = parallel(threads, args.seed ^ 0xC04, move |_ti, mut rng| {
        let mut out = Partial::default();
        let rt = rt();
        for _ in 0..per_thread {
            let prog = if rng.chance(1, 2) {
                let mut p = gen_prog(&mut rng, &GenOpts { allow_all: true, min_steps: 2, max_steps: 4 }, "S");
                p.partitioned = true;
                Prog::Seq(p)
            } else {
                win_prog(&mut rng)
            };
            let key_str = match &prog { Prog::Seq(p) => p.key_as_string, _ => rng.chance(1, 3) };
            let nkeys = 1 + rng.below(6);
            let len = 10 + rng.below(51);
            let with_not = matches!(&prog, Prog::Seq(p) if p.not.is_some());
            let miss = rng.chance(1, 2);
            let mut evs = gen_stream(&mut rng, len, nkeys, with_not, miss);
            if matches!(prog, Prog::Win { .. }) {
                for e in evs.iter_mut() {
                    e.ty = "A".into();
                }
            }
            let (src, kind) = match &prog {
                Prog::Seq(p) => (p.vpl(), if p.not.is_some() { "sequence-not" } else if p.has_all() { "sequence-all" } else { "sequence" }),
                Prog::Win { kind, vpl } => (vpl.clone(), *kind),
            };
            let events: Vec<Event> = evs.iter().map(|g| g.to_event(key_str)).collect();
            out.eval();
            let full = match catch(std::panic::AssertUnwindSafe(|| run_flat(&rt, &src, &events))) {
                Ok(Ok(o)) => o,
                Ok(Err(e)) => {
                    out.add("programs_rejected", 1);
                    if out.counters["programs_rejected"] <= 2 { out.sample(json!({"rejected": src, "error": e})); }
                    continue;
                }
                Err(p) => {
                    out.violation(&format!("{}/panic", kind), "engine panicked", json!({"program": src, "panic": p, "site": panic_site(&last_panic_location())}));
                    continue;
                }
            };
            // per-key sub-streams
            let mut keys: Vec<Option<i64>> = evs.iter().map(|g| g.key).collect();
            keys.sort();
            keys.dedup();
            let mut union: Vec<Event> = vec![];
            let mut keys_with_output = 0;
            let mut failed = false;
            for k in &keys {
                let sub: Vec<Event> = evs.iter().filter(|g| g.key == *k).map(|g| g.to_event(key_str)).collect();
                match catch(std::panic::AssertUnwindSafe(|| run_flat(&rt, &src, &sub))) {
                    Ok(Ok(o)) => {
                        if !o.is_empty() { keys_with_output += 1; }
                        union.extend(o);
                    }
                    _ => { failed = true; break; }
                }
            }
            if failed {
                out.inconclusive("sub-stream run failed although the combined run succeeded");
                continue;
            }
            out.add("outputs_compared", full.len() as u64);
            if keys.len() >= 2 && keys_with_output >= 2 {
                out.nontrivial(&(src.clone(), evs.iter().map(|g| (g.uid, g.ty.clone(), g.x, g.key, g.ts_ms)).collect::<Vec<_>>()));
            }
            let (a, b) = (multiset(&full), multiset(&union));
            if a != b {
                let missing: Vec<_> = b.iter().filter(|(k, c)| a.get(*k).copied().unwrap_or(0) < **c).map(|(k, _)| k.clone()).collect();
                let extra: Vec<_> = a.iter().filter(|(k, c)| b.get(*k).copied().unwrap_or(0) < **c).map(|(k, _)| k.clone()).collect();
                let what = match (missing.is_empty(), extra.is_empty()) { (false, true) => "missing-in-combined", (true, false) => "extra-in-combined", _ => "differs" };
                out.violation(&format!("{}/{}", kind, what), "combined run differs from the union of per-key runs", json!({"program": src, "key_as_string": key_str, "events": evs.iter().map(|g| g.json()).collect::<Vec<_>>(), "missing_in_combined": missing, "extra_in_combined": extra}));
            } else if out.samples.len() < 3 && keys_with_output >= 2 {
                out.sample(json!({"program": src, "events": evs.len(), "keys": keys, "outputs": full.len()}));
            }
        }
        out
    });
    for p in parts {
        rep.merge(p);
    }
    std::process::exit(rep.finish());
}
