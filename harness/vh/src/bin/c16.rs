//! C16 — all event-processing entry points produce the same outputs.
//! Monitor (differential between real code paths): the same program and event sequence through
//! process (one by one), process_batch, process_batch_sync, process_batch_shared with random
//! batch splits; the ordered output sequences must be equal.
#[path = "../proggen.rs"]
mod proggen;
use proggen::*;
use serde_json::json;
use std::collections::BTreeMap;
use std::sync::Arc;
use varpulis_runtime::event::Event;
use vh::eng::*;
use vh::*;

fn run_path(path: &str, src: &str, events: &[Event], splits: &[usize], rt: &tokio::runtime::Runtime) -> Result<Vec<Event>, String> {
    let mut l = load(src)?;
    let mut out = vec![];
    if path == "process" {
        for e in events {
            #[cfg(varpulis_verif)]
            varpulis_runtime::verif::route_log_start();
            let r = rt.block_on(l.engine.process(e.clone()));
            #[cfg(varpulis_verif)]
            {
                let mut cur: Option<(String, usize)> = None;
                for ent in varpulis_runtime::verif::route_log_take() {
                    match ent {
                        varpulis_runtime::verif::RouteEntry::Popped { event, depth } => cur = Some((event.event_type.to_string(), depth)),
                        varpulis_runtime::verif::RouteEntry::Stream(name) => {
                            if let Some((ty, d)) = &cur {
                                TRACE.with(|t| {
                                    let mut t = t.borrow_mut();
                                    let ent = t.entry(name).or_default();
                                    ent.0.insert(*d);
                                    ent.1.insert(ty.clone());
                                });
                            }
                        }
                    }
                }
            }
            r?;
            out.extend(l.drain());
        }
        return Ok(out);
    }
    let mut i = 0;
    for &n in splits {
        let chunk: Vec<Event> = events[i..(i + n).min(events.len())].to_vec();
        i += n;
        if chunk.is_empty() {
            continue;
        }
        match path {
            "process_batch" => rt.block_on(l.engine.process_batch(chunk))?,
            "process_batch_sync" => l.engine.process_batch_sync(chunk)?,
            _ => rt.block_on(l.engine.process_batch_shared(chunk.into_iter().map(Arc::new).collect()))?,
        }
        out.extend(l.drain());
    }
    Ok(out)
}

thread_local! {
    /// per stream: (depths at which it processed events, event types it processed) — from hook H4
    static TRACE: std::cell::RefCell<BTreeMap<String, (std::collections::BTreeSet<usize>, std::collections::BTreeSet<String>)>> = const { std::cell::RefCell::new(BTreeMap::new()) };
}

/// Did stream `name`, or a stream whose outputs it consumed, process events at more than one
/// chain depth on the one-by-one path (observed through hook H4)?
fn mixed_depth(name: &str) -> bool {
    fn rec(t: &BTreeMap<String, (std::collections::BTreeSet<usize>, std::collections::BTreeSet<String>)>, name: &str, fuel: usize) -> bool {
        if fuel == 0 {
            return false;
        }
        match t.get(name) {
            None => false,
            Some((depths, types)) => depths.len() >= 2 || types.iter().any(|ty| ty != name && t.contains_key(ty) && rec(t, ty, fuel - 1)),
        }
    }
    TRACE.with(|t| rec(&t.borrow(), name, 8))
}

fn per_stream(es: &[Event]) -> BTreeMap<String, Vec<String>> {
    let mut m: BTreeMap<String, Vec<String>> = BTreeMap::new();
    for e in es {
        m.entry(e.event_type.to_string()).or_default().push(canon(e));
    }
    m
}

fn main() {
    let args = Args::parse();
    install_quiet_panic_hook();
    watchdog("C16", args.pick(1500, 14400));
    let mut rep = Report::new("C16", "exploration", &args);
    rep.rule = "programs of 1-5 streams from a grammar (filters with/without emit, merge sources, count/sliding-count/tumbling/sliding/session windows with uid-fingerprint aggregates, plain and partitioned; 2-step sequences incl. `all`; 2-way joins; distinct/limit; derived chains; a self-named stream) x random event sequences (10-50 events, explicit timestamps with ties) x random batch splits; each of process_batch / process_batch_sync / process_batch_shared compared with the one-by-one path as ordered sequences. A disagreement is classified by per-stream projection: order-only (every stream's own sequence equal, interleaving across streams differs) or content (some stream's own sequence differs; signature carries that stream's kind). Non-trivial: program with >=2 streams and >=1 output on the reference path; distinct by (program, events, split).".into();
    rep.assume("outputs compared by stream name and data fields; emission wall-clock timestamps excluded");
    let threads = ncpu();
    let cases = args.pick(1200usize, 60_000usize);
    let per_thread = cases / threads + 1;
    let parts = parallel(threads, args.seed ^ 0xC16, move |_ti, mut rng| {
        let mut out = Partial::default();
        let rt = rt();
        let opts = POpts { max_streams: 5, windows: true, time_windows: true, sequences: true, joins: true, stateful_pass: true, merges: true, self_named: true };
        for _ in 0..per_thread {
            let p = gen_prog(&mut rng, &opts);
            let src = p.vpl();
            let len = 10 + rng.below(41);
            let ins = gen_inputs(&mut rng, len);
            let events: Vec<Event> = ins.iter().map(|i| i.event()).collect();
            // random split
            let mut splits = vec![];
            let mut left = events.len();
            while left > 0 {
                let n = 1 + rng.below(left.min(12));
                splits.push(n);
                left -= n;
            }
            out.eval();
            TRACE.with(|t| t.borrow_mut().clear());
            let reference = match catch(std::panic::AssertUnwindSafe(|| run_path("process", &src, &events, &splits, &rt))) {
                Ok(Ok(o)) => o,
                Ok(Err(e)) => {
                    out.add("programs_rejected", 1);
                    if out.counters["programs_rejected"] <= 2 { out.sample(json!({"rejected": src, "error": e})); }
                    continue;
                }
                Err(pn) => {
                    out.violation("process/panic", "engine panicked on the one-by-one path", json!({"program": src, "panic": pn, "site": panic_site(&last_panic_location())}));
                    continue;
                }
            };
            if p.streams.len() >= 2 && !reference.is_empty() {
                out.nontrivial(&(src.clone(), ins.iter().map(|i| (i.uid, i.ty, i.x, i.k, i.ts_ms)).collect::<Vec<_>>(), splits.clone()));
            }
            let ref_seq: Vec<String> = reference.iter().map(canon).collect();
            let ref_ps = per_stream(&reference);
            for path in ["process_batch", "process_batch_sync", "process_batch_shared"] {
                let got = match catch(std::panic::AssertUnwindSafe(|| run_path(path, &src, &events, &splits, &rt))) {
                    Ok(Ok(o)) => o,
                    Ok(Err(e)) => {
                        out.violation(&format!("{}/error", path), "batch path fails where the one-by-one path succeeds", json!({"program": src, "error": e}));
                        continue;
                    }
                    Err(pn) => {
                        out.violation(&format!("{}/panic", path), "engine panicked on a batch path", json!({"program": src, "panic": pn, "site": panic_site(&last_panic_location())}));
                        continue;
                    }
                };
                out.add("outputs_compared", got.len() as u64);
                let got_seq: Vec<String> = got.iter().map(canon).collect();
                if got_seq == ref_seq {
                    continue;
                }
                let got_ps = per_stream(&got);
                let wit = |extra: serde_json::Value| json!({"program": src, "events": ins.iter().map(|i| i.json()).collect::<Vec<_>>(), "splits": splits, "path": path, "reference_outputs": ref_seq, "path_outputs": got_seq, "detail": extra});
                if got_ps == ref_ps {
                    out.violation(&format!("{}/order-only", path), "same per-stream output sequences, different interleaving across streams", wit(json!({})));
                } else {
                    // first stream (definition order) whose own sequence differs
                    let bad = p.streams.iter().map(|s| s.name.clone()).find(|n| ref_ps.get(n) != got_ps.get(n)).unwrap_or_default();
                    let kind = p.streams.iter().find(|s| s.name == bad).map(|s| s.kind_name()).unwrap_or("unknown");
                    let (r, g) = (ref_ps.get(&bad).cloned().unwrap_or_default(), got_ps.get(&bad).cloned().unwrap_or_default());
                    let how = if g.len() < r.len() { "fewer" } else if g.len() > r.len() { "more" } else { "different" };
                    // Root cause known from reading (DESIGN C16): the batch paths drain every depth-0
                    // event before any derived event, the one-by-one path finishes each event's chain
                    // first. Only a stream that (transitively) consumes inputs of different chain
                    // depths can observe that. Anything else is an unexplained content difference.
                    let sig = if path == "process_batch_sync" && kind == "join" {
                        format!("{}/join-source-skipped", path)
                    } else if mixed_depth(&bad) {
                        format!("{}/level-order-vs-depth-first/mixed-depth-consumer", path)
                    } else {
                        format!("{}/content/{}/{}", path, kind, how)
                    };
                    out.violation(&sig, "a stream's own output sequence differs between entry points", wit(json!({"stream": bad, "stream_kind": kind, "reference": r, "path": g})));
                }
            }
            if out.samples.len() < 2 && p.streams.len() >= 3 && reference.len() >= 3 {
                out.sample(json!({"program": src, "events": ins.len(), "splits": splits, "reference_outputs": reference.len()}));
            }
        }
        out
    });
    for p in parts {
        rep.merge(p);
    }
    std::process::exit(rep.finish());
}
