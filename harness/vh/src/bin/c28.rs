//! C28 — tenants cannot see or affect each other's pipelines.
//!
//! Monitor: request sequences (<= 12) through the real warp routes over a real
//! `TenantManager` with 2-3 tenants, every pipeline endpoint, own / foreign / unknown
//! pipeline ids. Oracle: (a) a request carrying tenant X's key for a pipeline owned by
//! Y != X is never carried out (2xx, or an opened log stream; for inject-batch a 2xx with
//! accepted > 0 or outputs, because that endpoint answers 200/accepted:0 when it did nothing); (b) no response to X contains
//! data of another tenant (tenant id, key, name, pipeline ids/names/sources, markers
//! emitted by its pipelines); (c) the complete snapshot of every other tenant, read
//! through the public TenantManager API (pipelines, sources, statuses, usage counters,
//! engine counters, pending outputs, log subscribers, engine checkpoints), is identical
//! before and after the request.
#[path = "../apih.rs"]
mod apih;
use apih::{Resp, Routes};
use serde_json::{json, Value as J};
use std::sync::Arc;
use tokio::sync::RwLock;
use varpulis_runtime::tenant::{SharedTenantManager, TenantId, TenantManager, TenantQuota};
use vh::*;

#[derive(Clone, Copy, Debug, PartialEq, Eq, Hash)]
enum Ep {
    Deploy,
    List,
    Get,
    Delete,
    Inject,
    InjectBatch,
    Checkpoint,
    Restore,
    Metrics,
    Reload,
    Logs,
    Usage,
}

const EPS_WITH_ID: &[Ep] = &[Ep::Get, Ep::Delete, Ep::Inject, Ep::InjectBatch, Ep::Checkpoint, Ep::Restore, Ep::Metrics, Ep::Reload, Ep::Logs];

impl Ep {
    fn name(&self) -> &'static str {
        match self {
            Ep::Deploy => "deploy",
            Ep::List => "list",
            Ep::Get => "get",
            Ep::Delete => "delete",
            Ep::Inject => "inject",
            Ep::InjectBatch => "inject-batch",
            Ep::Checkpoint => "checkpoint",
            Ep::Restore => "restore",
            Ep::Metrics => "metrics",
            Ep::Reload => "reload",
            Ep::Logs => "logs",
            Ep::Usage => "usage",
        }
    }
}

struct Ten {
    id: TenantId,
    key: String,
    name: String,
    /// a valid RestoreRequest body obtained from one of the tenant's own pipelines
    restore_body: String,
}

fn source(t: usize, serial: usize, variant: usize, reloaded: bool) -> String {
    let m = format!("{}_T{}P{}", if reloaded { "RELOADED" } else { "MARK" }, t, serial);
    match variant % 3 {
        0 => format!("stream {m}Out = Ev\n    .where(x > {})\n    .emit(uid: uid, tag: \"{m}\")", serial),
        1 => format!("stream {m}Win = Ev\n    .window(4)\n    .aggregate(total: sum(x), n: count())\n    .emit(total: total, n: n, tag: \"{m}\")"),
        _ => format!("stream {m}Seq = A as a\n    -> B as b\n    .emit(ua: a.uid, ub: b.uid, tag: \"{m}\")"),
    }
}

fn event_body(uid: u64, rng: &mut Rng) -> String {
    let ty = *rng.pick(&["Ev", "Ev", "A", "B"]);
    format!("{{\"event_type\":\"{}\",\"fields\":{{\"uid\":{},\"x\":{}}}}}", ty, uid, rng.range(1, 50))
}

/// Generalise a diff path for signatures: ids -> *, at most 3 segments.
fn component(path: &str) -> String {
    let segs: Vec<String> = path
        .split('/')
        .filter(|s| !s.is_empty())
        .map(|s| if s.len() == 36 && s.matches('-').count() == 4 { "*".to_string() } else { s.to_string() })
        .take(3)
        .collect();
    segs.join(".")
}

async fn snapshots(mgr: &SharedTenantManager, tens: &[Ten]) -> Vec<J> {
    let mut v = vec![];
    for t in tens {
        v.push(apih::tenant_snapshot(mgr, &t.id, true).await);
    }
    v
}

fn pipeline_ids(snap: &J) -> Vec<String> {
    snap["pipelines"].as_object().map(|o| o.keys().cloned().collect()).unwrap_or_default()
}

async fn run_case(rng: &mut Rng, out: &mut Partial, want_sample: bool, flip_oracle: bool) {
    // ---------------- setup ----------------
    let nt = 2 + rng.below(2);
    let mut mgr = TenantManager::new();
    let mut tens: Vec<Ten> = vec![];
    for t in 0..nt {
        let key = format!("SECRETKEY-T{}-{:08x}", t, rng.next_u64() as u32);
        let name = format!("TENANT{}NAME", t);
        let q = TenantQuota { max_pipelines: 4, max_events_per_second: 0, max_streams_per_pipeline: 10 };
        match mgr.create_tenant(name.clone(), key.clone(), q) {
            Ok(id) => tens.push(Ten { id, key, name, restore_body: String::new() }),
            Err(e) => {
                out.inconclusive(&format!("setup: create_tenant failed: {}", e));
                return;
            }
        }
    }
    let mgr: SharedTenantManager = Arc::new(RwLock::new(mgr));
    let routes: Routes = apih::routes(mgr.clone(), Some("ADMINKEY".into()));
    let mut log: Vec<J> = vec![];
    let mut serial = 0usize;
    let mut uid = 0u64;
    for t in 0..nt {
        let np = 1 + rng.below(2);
        for _ in 0..np {
            serial += 1;
            let src = source(t, serial, rng.below(3), false);
            let body = json!({"name": format!("MARK_T{}P{}_name", t, serial), "source": src}).to_string();
            let r = apih::call(&routes, "POST", "/api/v1/pipelines", &[("x-api-key", &tens[t].key)], Some(body.as_bytes())).await;
            if r.status != 201 {
                out.inconclusive(&format!("setup: deploy failed: {} {}", r.status, r.text()));
                return;
            }
            let pid = r.json().map(|j| j["id"].as_str().unwrap_or("").to_string()).unwrap_or_default();
            log.push(json!({"setup": "deploy", "tenant": t, "pipeline_id": pid, "source": src}));
            // a different number of events per tenant so that counters identify the tenant
            for _ in 0..(1 + t + rng.below(3)) {
                uid += 1;
                let eb = event_body(uid, rng);
                let r = apih::call(&routes, "POST", &format!("/api/v1/pipelines/{}/events", pid), &[("x-api-key", &tens[t].key)], Some(eb.as_bytes())).await;
                if r.status != 200 {
                    out.inconclusive(&format!("setup: inject failed: {} {}", r.status, r.text()));
                    return;
                }
            }
            if tens[t].restore_body.is_empty() {
                let r = apih::call(&routes, "POST", &format!("/api/v1/pipelines/{}/checkpoint", pid), &[("x-api-key", &tens[t].key)], None).await;
                match r.json() {
                    Some(mut j) if r.status == 200 => {
                        j["checkpoint"]["events_processed"] = json!(777_000 + t);
                        tens[t].restore_body = json!({"checkpoint": j["checkpoint"]}).to_string();
                    }
                    _ => {
                        out.inconclusive(&format!("setup: checkpoint failed: {} {}", r.status, r.text()));
                        return;
                    }
                }
            }
        }
    }
    let tenants_json: Vec<J> = tens.iter().enumerate().map(|(i, t)| json!({"tenant": i, "id": t.id.as_str(), "key": t.key, "name": t.name})).collect();

    // ---------------- request sequence ----------------
    let len = 4 + rng.below(9); // 4..=12
    let mut shape: Vec<(usize, &'static str, &'static str)> = vec![];
    let mut had_foreign = false;
    for _step in 0..len {
        let before = snapshots(&mgr, &tens).await;
        let x = rng.below(nt);
        let ep = match rng.below(10) {
            0 => Ep::Deploy,
            1 => Ep::List,
            2 => Ep::Usage,
            _ => *rng.pick(EPS_WITH_ID),
        };
        // ownership truth from the TenantManager itself
        let own: Vec<String> = pipeline_ids(&before[x]);
        let mut foreign: Vec<(usize, String)> = vec![];
        for (y, s) in before.iter().enumerate() {
            if y != x {
                for p in pipeline_ids(s) {
                    foreign.push((y, p));
                }
            }
        }
        let (target, pid): (&'static str, String) = if matches!(ep, Ep::Deploy | Ep::List | Ep::Usage) {
            ("none", String::new())
        } else {
            let c = rng.below(20);
            if c < 11 && !foreign.is_empty() {
                ("foreign", rng.pick(&foreign).1.clone())
            } else if c < 17 && !own.is_empty() {
                ("own", rng.pick(&own).clone())
            } else {
                ("unknown", format!("00000000-0000-4000-8000-{:012x}", rng.next_u64() & 0xffff_ffff_ffff))
            }
        };
        let key = tens[x].key.clone();
        let hdr = [("x-api-key", key.as_str())];
        let base = format!("/api/v1/pipelines/{}", pid);
        let (method, path, body): (&str, String, Option<String>) = match ep {
            Ep::Deploy => {
                serial += 1;
                let src = source(x, serial, rng.below(3), false);
                ("POST", "/api/v1/pipelines".into(), Some(json!({"name": format!("MARK_T{}P{}_name", x, serial), "source": src}).to_string()))
            }
            Ep::List => ("GET", if rng.chance(1, 3) { "/api/v1/pipelines?limit=50&offset=0".into() } else { "/api/v1/pipelines".into() }, None),
            Ep::Usage => ("GET", "/api/v1/usage".into(), None),
            Ep::Get => ("GET", base, None),
            Ep::Delete => ("DELETE", base, None),
            Ep::Inject => {
                uid += 1;
                ("POST", format!("{}/events", base), Some(event_body(uid, rng)))
            }
            Ep::InjectBatch => {
                let n = 1 + rng.below(3);
                let evs: Vec<String> = (0..n).map(|_| { uid += 1; event_body(uid, rng) }).collect();
                ("POST", format!("{}/events-batch", base), Some(format!("{{\"events\":[{}]}}", evs.join(","))))
            }
            Ep::Checkpoint => ("POST", format!("{}/checkpoint", base), None),
            Ep::Restore => ("POST", format!("{}/restore", base), Some(tens[x].restore_body.clone())),
            Ep::Metrics => ("GET", format!("{}/metrics", base), None),
            Ep::Reload => {
                serial += 1;
                ("POST", format!("{}/reload", base), Some(json!({"source": source(x, serial, rng.below(3), true)}).to_string()))
            }
            Ep::Logs => ("GET", format!("{}/logs", base), None),
        };
        let r: Resp = if ep == Ep::Logs {
            apih::call_head(&routes, method, &path, &hdr, body.as_deref().map(|b| b.as_bytes())).await
        } else {
            apih::call(&routes, method, &path, &hdr, body.as_deref().map(|b| b.as_bytes())).await
        };
        let after = snapshots(&mgr, &tens).await;
        out.eval();
        out.add(&format!("requests_{}_{}", ep.name(), target), 1);
        shape.push((x, ep.name(), target));
        let owner_of_target: J = match target {
            "foreign" => json!(foreign.iter().find(|(_, p)| *p == pid).map(|(y, _)| *y)),
            "own" => json!(x),
            _ => J::Null,
        };
        log.push(json!({"actor_tenant": x, "endpoint": ep.name(), "target": target, "target_owner": owner_of_target, "method": method, "path": path, "body": body, "response": r.brief()}));
        // "performed": the endpoint did what it is for. inject-batch answers 200 with accepted:0 and no
        // outputs when every event failed (e.g. pipeline not found) - that did not inject anything.
        let accepted = if ep == Ep::InjectBatch && r.is_2xx() {
            match r.json() {
                Some(j) => j["accepted"].as_u64().unwrap_or(1) > 0 || j["output_events"].as_array().map(|a| !a.is_empty()).unwrap_or(true),
                None => true,
            }
        } else {
            r.is_2xx() || r.streaming
        };
        if ep == Ep::InjectBatch && r.is_2xx() && !accepted {
            out.add("inject_batch_200_with_zero_accepted", 1);
        }
        if target == "own" && accepted {
            out.add("own_requests_accepted", 1);
        }
        let mut is_foreign = target == "foreign";
        if flip_oracle {
            is_foreign = target == "own"; // oracle self-test only
        }
        let wit = |what: &str, extra: J| json!({"tenants": tenants_json, "history": log, "violated": what, "detail": extra});
        // (a) foreign pipeline: never 2xx
        if is_foreign {
            had_foreign = true;
            out.add("foreign_requests_checked", 1);
            if accepted {
                out.violation(
                    &format!("{}/foreign/performed", ep.name()),
                    "a request with one tenant's key was carried out on a pipeline of another tenant",
                    wit("the request must not succeed (2xx with effect / data / opened stream)", json!({"status": r.status, "streaming": r.streaming})),
                );
            }
        }
        // (b) no data of another tenant in the response
        let text = r.text();
        if !text.is_empty() {
            for (y, ty) in tens.iter().enumerate() {
                if y == x {
                    continue;
                }
                let mut needles: Vec<(String, &'static str)> = vec![
                    (ty.id.as_str().to_string(), "tenant-id"),
                    (ty.key.clone(), "api-key"),
                    (ty.name.clone(), "tenant-name"),
                    (format!("MARK_T{}P", y), "pipeline-marker"),
                    (format!("RELOADED_T{}P", y), "pipeline-marker"),
                ];
                for p in pipeline_ids(&before[y]) {
                    if p != pid {
                        needles.push((p, "pipeline-id"));
                    }
                }
                out.add("leak_checks", needles.len() as u64);
                for (n, what) in needles {
                    if text.contains(&n) {
                        out.violation(
                            &format!("{}/{}/leaks-{}", ep.name(), target, what),
                            "a response to one tenant contains data of another tenant",
                            wit("response must not contain another tenant's data", json!({"other_tenant": y, "found": n})),
                        );
                    }
                }
            }
            if ep == Ep::Usage && r.status == 200 {
                if let Some(j) = r.json() {
                    if j["tenant_id"].as_str() != Some(tens[x].id.as_str()) {
                        out.violation("usage/none/wrong-tenant", "usage endpoint answered for a different tenant", wit("tenant_id must be the caller's", j.clone()));
                    }
                }
            }
            if ep == Ep::List && r.status == 200 {
                if let Some(j) = r.json() {
                    for p in j["pipelines"].as_array().cloned().unwrap_or_default() {
                        let id = p["id"].as_str().unwrap_or("").to_string();
                        if !own.contains(&id) {
                            out.violation("list/none/lists-foreign-pipeline", "list returned a pipeline that is not the caller's", wit("only own pipelines", json!({"listed": id})));
                        }
                    }
                }
            }
        }
        // (c) every other tenant unchanged
        for y in 0..nt {
            if y == x {
                continue;
            }
            out.add("snapshot_comparisons", 1);
            if let Some(d) = apih::first_diff(&before[y], &after[y], "") {
                out.violation(
                    &format!("{}/{}/other-tenant-changed/{}", ep.name(), target, component(&d)),
                    "a request with one tenant's key changed the state of another tenant",
                    wit("snapshot of the other tenant identical before and after", json!({"other_tenant": y, "first_difference_at": d, "before": before[y], "after": after[y]})),
                );
            }
        }
    }
    if had_foreign {
        out.nontrivial(&shape);
    }
    if want_sample {
        out.sample(json!({"tenants": tenants_json.len(), "history": log}));
    }
}

fn main() {
    let args = Args::parse();
    install_quiet_panic_hook();
    watchdog("C28", args.pick(600, 3600));
    let mut rep = Report::new("C28", "exploration", &args);
    rep.rule = "per case: 2-3 tenants (own keys, unlimited rate), 1-2 pipelines each (filter / count-window / 2-step sequence, tagged with tenant markers) with a tenant-specific number of injected events, then 4-12 requests: random acting tenant x endpoint (deploy, list, get, delete, inject, inject-batch, checkpoint, restore, metrics, reload, logs, usage) x target (pipeline of another tenant 55%, own 30%, unknown id 15%). Non-trivial: a sequence with >=1 request for a foreign pipeline id; distinct by the sequence of (actor, endpoint, target kind). Counters requests_<endpoint>_<target> give the per-endpoint coverage.".into();
    rep.assume("TenantManager's public read API (get_tenant, pipelines, usage, engine.create_checkpoint, output_rx.len, log_broadcast.receiver_count) shows all tenant state a request could affect");
    rep.assume("ownership of a pipeline id is what TenantManager::get_tenant(..).pipelines says immediately before the request");
    let flip = args.has_flag("--selftest-flip-ownership");
    if flip {
        rep.args.replay = Some(std::path::PathBuf::from("--selftest"));
        rep.property = "C28-selftest".into();
    }
    let threads = ncpu();
    let cases_per_thread = args.pick(60usize, 1500usize);
    let parts = parallel(threads, args.seed, move |ti, mut rng| {
        let mut out = Partial::default();
        let rt = apih::rt();
        for c in 0..cases_per_thread {
            rt.block_on(run_case(&mut rng, &mut out, ti == 0 && c < 2, flip));
        }
        out
    });
    for p in parts {
        rep.merge(p);
    }
    std::process::exit(rep.finish());
}
