//! C34 — event routing to pipelines and replicas is deterministic and sticky.
//!
//! Lane A (exhaustive): `event_type_matches` / `find_target_pipeline` over every table of two
//!   routes (one pattern each) and every one-route/two-pattern table, patterns = words of
//!   length <=2 over {a,b,A} taken exactly or with a trailing `*`, types = words of length <=3.
//! Lane A2 (random): larger tables observed through `Coordinator::resolve_inject_target`.
//! Lane B/C: a real Coordinator, groups deployed through plan_deploy_group/commit_deploy_group
//!   (deploy results fabricated), mock workers on loopback recording which replica's pipeline id
//!   received which uid on the batch path; every event goes through the single path
//!   (`resolve_inject_target`, request parsed from JSON text) and the batch path (`inject_batch`,
//!   `.evt` text). Oracle: equal key value => one replica over both paths; round-robin loads over
//!   every contiguous run of injections differ by <=1.
#[path = "../clustermock.rs"]
mod clustermock;

use clustermock::*;
use serde_json::{json, Value as J};
use std::collections::{BTreeMap, BTreeSet};
use std::sync::Arc;
use varpulis_cluster::coordinator::{DeployResponse, DeployTaskResult, InjectBatchRequest};
use varpulis_cluster::{
    event_type_matches, find_target_pipeline, Coordinator, DeployedPipelineGroup, InjectEventRequest,
    InterPipelineRoute, PipelineDeployment, PipelineDeploymentStatus, PipelineGroupSpec, PipelinePlacement,
    WorkerId, WorkerNode,
};
use vh::*;

// ---------------------------------------------------------------------------------------------
// reference
// ---------------------------------------------------------------------------------------------
/// Oracle self-test switch (`--perturb <name>`, never set by the driver): deliberately wrong
/// expectations used to confirm that the monitor fires. Run with `--verif-dir <scratch>`.
static PERTURB: std::sync::OnceLock<String> = std::sync::OnceLock::new();
fn perturb(name: &str) -> bool {
    PERTURB.get().map(|p| p == name).unwrap_or(false)
}

fn ref_matches(ty: &str, pat: &str) -> bool {
    match pat.char_indices().last() {
        Some((i, '*')) => ty.len() >= i && ty.as_bytes()[..i] == pat.as_bytes()[..i],
        _ => ty == pat,
    }
}

fn pat_kind(p: &str) -> &'static str {
    if p == "*" {
        "star"
    } else if p.ends_with('*') {
        "prefix-star"
    } else {
        "exact"
    }
}

/// (expected pipeline, index of first matching route or None, matching pattern)
fn ref_target(pipelines: &[String], routes: &[(Vec<String>, String)], ty: &str) -> (Option<String>, Option<usize>, Option<String>) {
    let mut order: Vec<usize> = (0..routes.len()).collect();
    if perturb("last-match") {
        order.reverse();
    }
    for i in order {
        let (pats, to) = &routes[i];
        for p in pats {
            if ref_matches(ty, p) {
                return (Some(to.clone()), Some(i), Some(p.clone()));
            }
        }
    }
    (pipelines.first().cloned(), None, None)
}

fn words(alpha: &[char], maxlen: usize) -> Vec<String> {
    let mut out = vec![String::new()];
    let mut layer = vec![String::new()];
    for _ in 0..maxlen {
        let mut next = vec![];
        for w in &layer {
            for c in alpha {
                let mut s = w.clone();
                s.push(*c);
                next.push(s);
            }
        }
        out.extend(next.iter().cloned());
        layer = next;
    }
    out
}

fn mk_spec(pipelines: &[String], routes: &[(Vec<String>, String)]) -> PipelineGroupSpec {
    PipelineGroupSpec {
        name: "g".into(),
        pipelines: pipelines
            .iter()
            .map(|n| PipelinePlacement { name: n.clone(), source: String::new(), worker_affinity: None, replicas: 1, partition_key: None })
            .collect(),
        routes: routes
            .iter()
            .map(|(pats, to)| InterPipelineRoute { from_pipeline: "_external".into(), to_pipeline: to.clone(), event_types: pats.clone(), nats_subject: None })
            .collect(),
    }
}

fn table_json(pipelines: &[String], routes: &[(Vec<String>, String)]) -> J {
    json!({"pipelines": pipelines, "routes": routes.iter().map(|(p, t)| json!({"event_types": p, "to_pipeline": t})).collect::<Vec<_>>()})
}

fn classify_route(
    pipelines: &[String],
    routes: &[(Vec<String>, String)],
    ty: &str,
    exp_idx: Option<usize>,
    exp_pat: &Option<String>,
    got: Option<&str>,
) -> String {
    let expected = if exp_idx.is_some() { "first-matching-route" } else { "default-first-pipeline" };
    let pk = exp_pat.as_deref().map(pat_kind).unwrap_or("none");
    let observed = match got {
        None => "none",
        Some(g) => {
            // which routes have g as target?
            let mut later_match = false;
            let mut nonmatch = false;
            for (i, (pats, to)) in routes.iter().enumerate() {
                if to == g {
                    let m = pats.iter().any(|p| ref_matches(ty, p));
                    if m && exp_idx.map(|e| i > e).unwrap_or(false) {
                        later_match = true;
                    } else if !m {
                        nonmatch = true;
                    }
                }
            }
            if later_match {
                "later-matching-route"
            } else if pipelines.first().map(|f| f == g).unwrap_or(false) {
                "default-first-pipeline"
            } else if nonmatch {
                "non-matching-route"
            } else {
                "other-pipeline"
            }
        }
    };
    format!("route/{}/{}/{}", pk, expected, observed)
}

fn check_table(pipelines: &[String], routes: &[(Vec<String>, String)], types: &[String], lane: &str, out: &mut Partial) {
    let group = DeployedPipelineGroup::new("gid".into(), "g".into(), mk_spec(pipelines, routes));
    let mut targets_of_type: Vec<usize> = vec![];
    for ty in types {
        out.eval();
        let (want, idx, pat) = ref_target(pipelines, routes, ty);
        let got = find_target_pipeline(&group, ty);
        if got.map(|s| s.to_string()) != want {
            let sig = classify_route(pipelines, routes, ty, idx, &pat, got);
            out.violation(
                &sig,
                "find_target_pipeline does not return the pipeline of the first matching route / the first pipeline",
                json!({"lane": lane, "table": table_json(pipelines, routes), "event_type": ty, "expected": want, "observed": got}),
            );
        }
        // how many routes with different targets match this type?
        let m: BTreeSet<&String> = routes.iter().filter(|(p, _)| p.iter().any(|p| ref_matches(ty, p))).map(|(_, t)| t).collect();
        targets_of_type.push(m.len());
    }
    if targets_of_type.iter().any(|n| *n >= 2) {
        out.nontrivial(&("table", pipelines.to_vec(), routes.to_vec()));
        out.add("tables_with_overlap", 1);
    }
    out.add("tables", 1);
}

// ---------------------------------------------------------------------------------------------
// keys
// ---------------------------------------------------------------------------------------------
#[derive(Clone, Debug, PartialEq, Eq, Hash, PartialOrd, Ord)]
enum Key {
    Missing,
    Int(i64),
    /// identity = bits of the f64 the text denotes (Rust's parser); text spellings may differ
    Float(u64),
    Str(String),
}

impl Key {
    fn kind(&self) -> &'static str {
        match self {
            Key::Missing => "missing",
            Key::Int(_) => "int",
            Key::Float(_) => "float",
            Key::Str(_) => "string",
        }
    }
    fn json(&self) -> J {
        match self {
            Key::Missing => json!({"missing": true}),
            Key::Int(i) => json!({"int": i}),
            Key::Float(b) => json!({"float": f64::from_bits(*b)}),
            Key::Str(s) => json!({"string": s}),
        }
    }
}

/// A key occurrence: identity + the text used in the JSON body and in the .evt line.
#[derive(Clone, Debug)]
struct KeyOcc {
    key: Key,
    json_text: Option<String>,
    evt_text: Option<String>,
}

fn evt_quote(s: &str) -> String {
    let mut o = String::from("\"");
    for c in s.chars() {
        match c {
            '"' => o.push_str("\\\""),
            '\\' => o.push_str("\\\\"),
            '\n' => o.push_str("\\n"),
            '\t' => o.push_str("\\t"),
            c => o.push(c),
        }
    }
    o.push('"');
    o
}

const STRS: &[&str] = &[
    "", "a", "A", "b", "1", "01", "1.0", "-3", "true", "null", "a b", "a,b", "k: v", "q\"uote", "back\\slash", "tail\\", "line\nbreak",
    "tab\there", "\u{fc}n\u{ef}", "{x}", "[1,2]", "'s'", "a#b", "end}", "x;", "\u{4e2d}\u{6587}", "@0s", "BATCH",
];
const INTS: &[i64] = &[0, 1, -1, 2, 3, 7, 10, 42, 100, -100, 65536, i64::MAX, i64::MIN, 1_000_000_007];
/// float spellings (<= 6 significant digits, so every correct or fast parser yields the same f64)
const FLOATS: &[&[&str]] = &[
    &["1.0", "1.00", "1e0", "10e-1"],
    &["2.5", "2.50", "25e-1", "0.25e1"],
    &["-0.75", "-0.750", "-75e-2"],
    &["100.0", "1e2", "1.0e2"],
    &["0.1", "0.10", "1e-1"],
    &["3.14159", "314159e-5"],
    &["1e21", "1.0e21"],
    &["-1e-7", "-0.0000001"],
    &["0.0", "0.00", "0e0"],
    &["7.0"],
    &["42.0", "4.2e1"],
];

fn gen_key_pool(rng: &mut Rng) -> Vec<Key> {
    let n = 4 + rng.below(9);
    let mut pool = vec![];
    for _ in 0..n {
        let k = match rng.below(10) {
            0 => Key::Missing,
            1..=3 => Key::Int(*rng.pick(INTS)),
            4..=6 => {
                let f: f64 = rng.pick(FLOATS)[0].parse().unwrap();
                Key::Float(f.to_bits())
            }
            _ => Key::Str(rng.pick(STRS).to_string()),
        };
        pool.push(k);
    }
    pool
}

fn occ(key: &Key, rng: &mut Rng) -> KeyOcc {
    match key {
        Key::Missing => KeyOcc { key: key.clone(), json_text: None, evt_text: None },
        Key::Int(i) => KeyOcc { key: key.clone(), json_text: Some(i.to_string()), evt_text: Some(i.to_string()) },
        Key::Float(b) => {
            let f = f64::from_bits(*b);
            let sp = FLOATS.iter().find(|sp| sp[0].parse::<f64>().unwrap().to_bits() == f.to_bits()).unwrap();
            KeyOcc { key: key.clone(), json_text: Some(rng.pick(sp).to_string()), evt_text: Some(rng.pick(sp).to_string()) }
        }
        Key::Str(s) => KeyOcc { key: key.clone(), json_text: Some(serde_json::to_string(s).unwrap()), evt_text: Some(evt_quote(s)) },
    }
}

#[derive(Clone, Debug)]
struct GEv {
    uid: i64,
    ty: String,
    k: KeyOcc,
}

impl GEv {
    fn json_body(&self) -> String {
        match &self.k.json_text {
            Some(t) => format!("{{\"event_type\":{},\"fields\":{{\"uid\":{},\"k\":{}}}}}", serde_json::to_string(&self.ty).unwrap(), self.uid, t),
            None => format!("{{\"event_type\":{},\"fields\":{{\"uid\":{}}}}}", serde_json::to_string(&self.ty).unwrap(), self.uid),
        }
    }
    fn evt_line(&self) -> String {
        match &self.k.evt_text {
            Some(t) => format!("{} {{ uid: {}, k: {} }}", self.ty, self.uid, t),
            None => format!("{} {{ uid: {} }}", self.ty, self.uid),
        }
    }
    fn witness(&self) -> J {
        json!({"uid": self.uid, "type": self.ty, "key": self.k.key.json(), "json_body": self.json_body(), "evt_line": self.evt_line()})
    }
}

/// Does the real .evt parser decode our rendering to the intended key? (harness self-check;
/// the parser defines what the .evt text means)
fn evt_render_ok(e: &GEv) -> bool {
    use varpulis_core::Value;
    let parsed = match varpulis_runtime::event_file::EventFileParser::parse(&e.evt_line()) {
        Ok(p) if p.len() == 1 => p,
        _ => return false,
    };
    let ev = &parsed[0].event;
    if &*ev.event_type != e.ty.as_str() {
        return false;
    }
    if ev.data.get("uid") != Some(&Value::Int(e.uid)) {
        return false;
    }
    match (&e.k.key, ev.data.get("k")) {
        (Key::Missing, None) => true,
        (Key::Int(i), Some(Value::Int(j))) => i == j,
        (Key::Float(b), Some(Value::Float(f))) => f.to_bits() == *b,
        (Key::Str(s), Some(Value::Str(t))) => s.as_str() == &**t,
        _ => false,
    }
}

fn json_render_ok(e: &GEv, req: &InjectEventRequest) -> bool {
    if req.event_type != e.ty || req.fields.get("uid").and_then(|u| u.as_i64()) != Some(e.uid) {
        return false;
    }
    match (&e.k.key, req.fields.get("k")) {
        (Key::Missing, None) => true,
        (Key::Int(i), Some(v)) => v.is_i64() && v.as_i64() == Some(*i),
        (Key::Float(b), Some(v)) => v.is_f64() && v.as_f64().map(|f| f.to_bits()) == Some(*b),
        (Key::Str(s), Some(v)) => v.as_str() == Some(s.as_str()),
        _ => false,
    }
}

#[derive(Clone, Debug)]
struct Obs {
    uid: i64,
    path: &'static str, // "single" | "batch"
    replica: String,
}

fn logical_of(replica: &str) -> &str {
    replica.rsplit_once('#').map(|(b, _)| b).unwrap_or(replica)
}

struct Case {
    r_hash: usize,
    r_rr: usize,
    events: Vec<GEv>,
    /// segments (start, end, is_batch) over `events`, phase 1; phase 2 flips is_batch
    segs: Vec<(usize, usize, bool)>,
}

fn gen_case(rng: &mut Rng) -> Case {
    let r_hash = 1 + rng.below(5);
    let r_rr = 1 + rng.below(5);
    let pool = gen_key_pool(rng);
    let n = 12 + rng.below(40);
    let mut events = vec![];
    for i in 0..n {
        let ty = match rng.below(10) {
            0..=4 => "H1",
            5 => "H2",
            6 => "Zdefault", // no route: first pipeline (= the hash pipeline)
            _ => "R1",
        };
        let key = rng.pick(&pool).clone();
        events.push(GEv { uid: i as i64 + 1, ty: ty.to_string(), k: occ(&key, rng) });
    }
    let mut segs = vec![];
    let mut i = 0;
    while i < n {
        let len = 1 + rng.below(8);
        let j = (i + len).min(n);
        segs.push((i, j, rng.chance(1, 2)));
        i = j;
    }
    Case { r_hash, r_rr, events, segs }
}

fn run_case(rt: &tokio::runtime::Runtime, workers: &[MockWorker], case_tag: &str, case: &Case, out: &mut Partial) {
    let mut coord = Coordinator::new();
    for (i, w) in workers.iter().enumerate() {
        coord.register_worker(WorkerNode::new(WorkerId(format!("w{}", i)), w.address.clone(), "key".into()));
    }
    let spec = PipelineGroupSpec {
        name: "g".into(),
        pipelines: vec![
            PipelinePlacement { name: "ph".into(), source: "stream S = H1".into(), worker_affinity: None, replicas: case.r_hash, partition_key: Some("k".into()) },
            PipelinePlacement { name: "pr".into(), source: "stream S = R1".into(), worker_affinity: None, replicas: case.r_rr, partition_key: None },
        ],
        routes: vec![
            InterPipelineRoute { from_pipeline: "_external".into(), to_pipeline: "ph".into(), event_types: vec!["H*".into()], nats_subject: None },
            InterPipelineRoute { from_pipeline: "_external".into(), to_pipeline: "pr".into(), event_types: vec!["R1".into()], nats_subject: None },
        ],
    };
    let plan = match coord.plan_deploy_group(&spec) {
        Ok(p) => p,
        Err(e) => {
            out.inconclusive(&format!("plan_deploy_group failed in the harness set-up: {e}"));
            return;
        }
    };
    let mut pid_to_replica: BTreeMap<String, String> = BTreeMap::new();
    let results: Vec<DeployTaskResult> = plan
        .tasks
        .iter()
        .enumerate()
        .map(|(i, t)| {
            let pid = format!("{}-{}", case_tag, i);
            pid_to_replica.insert(pid.clone(), t.replica_name.clone());
            DeployTaskResult {
                replica_name: t.replica_name.clone(),
                pipeline_name: t.pipeline_name.clone(),
                worker_id: t.worker_id.clone(),
                worker_address: t.worker_address.clone(),
                worker_api_key: t.worker_api_key.clone(),
                replica_count: t.replica_count,
                outcome: Ok(DeployResponse { id: pid, name: t.replica_name.clone(), status: "running".into() }),
            }
        })
        .collect();
    let gid = match coord.commit_deploy_group(plan, results) {
        Ok(g) => g,
        Err(e) => {
            out.inconclusive(&format!("commit_deploy_group failed in the harness set-up: {e}"));
            return;
        }
    };
    // harness self-check of the renderings
    for e in &case.events {
        if !evt_render_ok(e) {
            out.add("render_mismatch_evt", 1);
            out.inconclusive(&format!("harness .evt rendering is not decoded to the intended key: {}", e.evt_line()));
            return;
        }
    }

    let mut obs: Vec<Obs> = vec![];
    let config = json!({"replicas_hash_pipeline": case.r_hash, "replicas_round_robin_pipeline": case.r_rr, "partition_key": "k",
        "routes": [{"event_types": ["H*"], "to": "ph"}, {"event_types": ["R1"], "to": "pr"}], "pipelines": ["ph", "pr"]});
    for phase in 0..2 {
        for (a, b, is_batch0) in &case.segs {
            let is_batch = *is_batch0 ^ (phase == 1);
            let seg = &case.events[*a..*b];
            if !is_batch {
                for e in seg {
                    let req: InjectEventRequest = match serde_json::from_str(&e.json_body()) {
                        Ok(r) => r,
                        Err(err) => {
                            out.inconclusive(&format!("harness JSON body does not deserialize: {err}"));
                            return;
                        }
                    };
                    if !json_render_ok(e, &req) {
                        out.inconclusive(&format!("harness JSON rendering is not decoded to the intended key: {}", e.json_body()));
                        return;
                    }
                    out.eval();
                    match coord.resolve_inject_target(&gid, &req) {
                        Ok(t) => obs.push(Obs { uid: e.uid, path: "single", replica: t.target_name }),
                        Err(err) => {
                            out.violation(
                                "inject/single/error",
                                "resolve_inject_target fails for a deployed group",
                                json!({"config": config, "event": e.witness(), "error": err.to_string()}),
                            );
                            return;
                        }
                    }
                }
            } else {
                let text: String = seg.iter().map(|e| e.evt_line()).collect::<Vec<_>>().join("\n");
                let resp = rt.block_on(coord.inject_batch(&gid, InjectBatchRequest { events_text: text.clone() }));
                let resp = match resp {
                    Ok(r) => r,
                    Err(err) => {
                        out.inconclusive(&format!("inject_batch failed: {err} on {text:?}"));
                        return;
                    }
                };
                if resp.events_failed != 0 || resp.events_sent != seg.len() {
                    out.inconclusive(&format!("mock workers did not accept the whole batch: sent={} failed={} errors={:?}", resp.events_sent, resp.events_failed, resp.errors));
                    return;
                }
                let mut seen: BTreeMap<i64, String> = BTreeMap::new();
                for w in workers {
                    for c in w.drain(|c| pid_to_replica.contains_key(&c.pid)) {
                        if c.kind != "events-batch" {
                            continue;
                        }
                        let replica = pid_to_replica[&c.pid].clone();
                        for ev in c.body.get("events").and_then(|e| e.as_array()).cloned().unwrap_or_default() {
                            if let Some(uid) = ev.get("fields").and_then(|f| f.get("uid")).and_then(|u| u.as_i64()) {
                                if seen.insert(uid, replica.clone()).is_some() {
                                    out.violation("inject/batch/duplicate-delivery", "one event of a batch was delivered twice", json!({"config": config, "uid": uid, "events_text": text}));
                                }
                            }
                        }
                    }
                }
                for e in seg {
                    out.eval();
                    match seen.get(&e.uid) {
                        Some(r) => obs.push(Obs { uid: e.uid, path: "batch", replica: r.clone() }),
                        None => {
                            out.inconclusive(&format!("batch event uid {} was not seen by any mock worker", e.uid));
                            return;
                        }
                    }
                }
            }
        }
    }

    let by_uid: BTreeMap<i64, &GEv> = case.events.iter().map(|e| (e.uid, e)).collect();
    // (1) pipeline choice on both paths
    for o in &obs {
        let e = by_uid[&o.uid];
        let want = if ref_matches(&e.ty, "H*") { "ph" } else if ref_matches(&e.ty, "R1") { "pr" } else { "ph" };
        if logical_of(&o.replica) != want {
            out.violation(
                &format!("inject/{}/wrong-pipeline", o.path),
                "injected event did not go to the pipeline of the first matching route / first pipeline",
                json!({"config": config, "event": e.witness(), "path": o.path, "expected_pipeline": want, "observed_target": o.replica}),
            );
        }
    }
    // (2) key stickiness on the hash pipeline
    let mut per_key: BTreeMap<Key, Vec<&Obs>> = BTreeMap::new();
    for o in &obs {
        if logical_of(&o.replica) == "ph" {
            let mut key = by_uid[&o.uid].k.key.clone();
            if perturb("merge-int-string") {
                if let Key::Str(s) = &key {
                    if let Ok(i) = s.parse::<i64>() {
                        key = Key::Int(i);
                    }
                }
            }
            per_key.entry(key).or_default().push(o);
        }
    }
    let mut both_paths = 0;
    for (key, os) in &per_key {
        let paths: BTreeSet<&str> = os.iter().map(|o| o.path).collect();
        if paths.len() == 2 {
            both_paths += 1;
        }
        out.add("key_comparisons", os.len() as u64);
        let first = os[0];
        if let Some(other) = os.iter().find(|o| o.replica != first.replica) {
            // prefer a cross-path pair for the witness/signature when one exists
            let cross = os.iter().flat_map(|a| os.iter().map(move |b| (a, b))).find(|(a, b)| a.path != b.path && a.replica != b.replica);
            let same_single = os.iter().flat_map(|a| os.iter().map(move |b| (a, b))).find(|(a, b)| a.path == "single" && b.path == "single" && a.replica != b.replica);
            let same_batch = os.iter().flat_map(|a| os.iter().map(move |b| (a, b))).find(|(a, b)| a.path == "batch" && b.path == "batch" && a.replica != b.replica);
            let (rel, a, b) = if let Some((a, b)) = same_single {
                ("single-vs-single", *a, *b)
            } else if let Some((a, b)) = same_batch {
                ("batch-vs-batch", *a, *b)
            } else if let Some((a, b)) = cross {
                ("single-vs-batch", *a, *b)
            } else {
                ("single-vs-batch", first, *other)
            };
            out.violation(
                &format!("key-hash/{}/{}", key.kind(), rel),
                "two events with the same key value reached different replicas under key-hash partitioning",
                json!({"config": config, "key": key.json(),
                    "event_a": by_uid[&a.uid].witness(), "path_a": a.path, "replica_a": a.replica,
                    "event_b": by_uid[&b.uid].witness(), "path_b": b.path, "replica_b": b.replica}),
            );
        }
    }
    if case.r_hash >= 2 && both_paths >= 1 {
        out.nontrivial(&(
            "sticky",
            case.r_hash,
            case.r_rr,
            case.events.iter().map(|e| (e.ty.clone(), e.k.key.clone(), e.k.json_text.clone(), e.k.evt_text.clone())).collect::<Vec<_>>(),
            case.segs.clone(),
        ));
    }
    out.add("keys_seen_on_both_paths", both_paths);
    // (3) round-robin balance over every contiguous run of injections into pr
    let rr: Vec<&Obs> = obs.iter().filter(|o| logical_of(&o.replica) == "pr").collect();
    let names: Vec<String> = if case.r_rr > 1 { (0..case.r_rr).map(|i| format!("pr#{}", i)).collect() } else { vec!["pr".into()] };
    'outer: for i in 0..rr.len() {
        let mut cnt: BTreeMap<&str, i64> = names.iter().map(|n| (n.as_str(), 0)).collect();
        for j in i..rr.len() {
            match cnt.get_mut(rr[j].replica.as_str()) {
                Some(c) => *c += 1,
                None => {
                    out.violation("round-robin/unknown-replica", "an event was routed to a name that is not a replica of the pipeline", json!({"config": config, "target": rr[j].replica}));
                    break 'outer;
                }
            }
            out.add("rr_windows", 1);
            let mx = cnt.values().max().copied().unwrap_or(0);
            let mn = cnt.values().min().copied().unwrap_or(0);
            if mx - mn > if perturb("rr-zero") { 0 } else { 1 } {
                let paths: BTreeSet<&str> = rr[i..=j].iter().map(|o| o.path).collect();
                let p = if paths.len() == 2 { "mixed" } else if paths.contains("single") { "single-only" } else { "batch-only" };
                out.violation(
                    &format!("round-robin/{}/imbalance", p),
                    "over a contiguous run of injections the round-robin replica loads differ by more than one",
                    json!({"config": config, "run": rr[i..=j].iter().map(|o| json!({"uid": o.uid, "path": o.path, "replica": o.replica})).collect::<Vec<_>>(), "loads": cnt}),
                );
                break 'outer;
            }
        }
    }
    if out.samples.len() < 2 {
        out.sample(json!({"lane": "inject", "config": config,
            "events": case.events.iter().take(6).map(|e| e.witness()).collect::<Vec<_>>(),
            "observed": obs.iter().take(12).map(|o| json!({"uid": o.uid, "path": o.path, "replica": o.replica})).collect::<Vec<_>>()}));
    }
}

fn main() {
    let args = Args::parse();
    install_quiet_panic_hook();
    watchdog("C34", args.pick(600, 3600));
    if let Some(p) = args.opt("--perturb") {
        let _ = PERTURB.set(p);
    }
    let mut rep = Report::new("C34", "exploration", &args);
    rep.rule = "lane A: exhaustive over all 2-route tables (one pattern each; patterns = words of length <=2 over {a,b,A}, exact or with trailing *; targets (p1,p2),(p2,p1),(p1,p1); pipelines [p0,p1,p2]) and all 1-route/2-pattern tables x all 40 event types of length <=3; lane A2: random tables (2-5 routes, 1-3 patterns, 2-4 pipelines, permuted pipeline order) through resolve_inject_target; lane B/C: groups with a key-hash pipeline (1-5 replicas) and a round-robin pipeline (1-5 replicas) deployed via plan/commit, every event injected through the single path (JSON body text) and the batch path (.evt text) in random interleaved segments. Non-trivial: a table in which some event type is matched by routes with >=2 different targets; an inject case with >=2 hash replicas and >=1 key value observed on both paths.".into();
    rep.assume("a key value is its typed scalar: int by value, float by the f64 its text denotes (<=6 significant digits so every parser agrees), string by content, or missing; an int and a float of equal magnitude are different key values (nothing demanded)");
    rep.assume("the .evt and JSON renderings are validated per event against the real parsers (EventFileParser::parse, serde_json) before they count");
    rep.assume("events of one batch are selected in text order (needed only to order the round-robin run)");
    let threads = ncpu();
    let seed = args.seed;

    // ------------------------------ lane A: exhaustive ------------------------------
    let alpha = ['a', 'b', 'A'];
    let types = Arc::new(words(&alpha, 3));
    let mut pats: Vec<String> = vec![];
    for w in words(&alpha, 2) {
        pats.push(w.clone());
        pats.push(format!("{}*", w));
    }
    let pats = Arc::new(pats);
    {
        // event_type_matches directly
        let mut out = Partial::default();
        for p in pats.iter() {
            for t in types.iter() {
                out.eval();
                let got = event_type_matches(t, p);
                let want = ref_matches(t, p);
                if got != want {
                    out.violation(
                        &format!("match/{}/{}", pat_kind(p), if got { "false-positive" } else { "false-negative" }),
                        "event_type_matches disagrees with exact / trailing-wildcard matching",
                        json!({"event_type": t, "pattern": p, "expected": want, "observed": got}),
                    );
                }
            }
        }
        out.add("pattern_type_pairs", (pats.len() * types.len()) as u64);
        rep.merge(out);
    }
    let (ty2, pa2) = (types.clone(), pats.clone());
    let parts = parallel(threads, seed, move |ti, _rng| {
        let mut out = Partial::default();
        let pipelines: Vec<String> = vec!["p0".into(), "p1".into(), "p2".into()];
        let np = pa2.len();
        let mut idx = ti;
        while idx < np * np {
            let (a, b) = (&pa2[idx / np], &pa2[idx % np]);
            for (t1, t2) in [("p1", "p2"), ("p2", "p1"), ("p1", "p1")] {
                let routes = vec![(vec![a.clone()], t1.to_string()), (vec![b.clone()], t2.to_string())];
                check_table(&pipelines, &routes, &ty2, "exhaustive-2-routes", &mut out);
            }
            let routes = vec![(vec![a.clone(), b.clone()], "p2".to_string())];
            check_table(&pipelines, &routes, &ty2, "exhaustive-1-route-2-patterns", &mut out);
            if ti == 0 && idx == 7 * np + 3 {
                out.sample(json!({"lane": "exhaustive", "table": table_json(&pipelines, &[(vec![a.clone()], "p1".into()), (vec![b.clone()], "p2".into())])}));
            }
            idx += threads;
        }
        out
    });
    for p in parts {
        rep.merge(p);
    }
    rep.exhaustive = Some(true);

    // ------------------------------ lane A2: random tables via resolve_inject_target ------------------------------
    let n_tables = args.pick(3000usize, 100_000usize) / threads + 1;
    let (ty2, pa2) = (types.clone(), pats.clone());
    let parts = parallel(threads, seed ^ 0xA2, move |_ti, mut rng| {
        let mut out = Partial::default();
        let mut coord = Coordinator::new();
        for _ in 0..n_tables {
            let npipes = 2 + rng.below(3);
            let mut pipelines: Vec<String> = (0..npipes).map(|i| format!("p{}", i)).collect();
            rng.shuffle(&mut pipelines);
            let nroutes = 2 + rng.below(4);
            let mut routes = vec![];
            for _ in 0..nroutes {
                let np = 1 + rng.below(3);
                let ps: Vec<String> = (0..np).map(|_| rng.pick(&pa2).clone()).collect();
                routes.push((ps, rng.pick(&pipelines).clone()));
            }
            let mut group = DeployedPipelineGroup::new("gid".into(), "g".into(), mk_spec(&pipelines, &routes));
            for p in &pipelines {
                group.placements.insert(
                    p.clone(),
                    PipelineDeployment { worker_id: WorkerId("w0".into()), worker_address: "http://127.0.0.1:1".into(), worker_api_key: "k".into(), pipeline_id: format!("id-{}", p), status: PipelineDeploymentStatus::Running, epoch: 0 },
                );
            }
            coord.pipeline_groups.insert("gid".into(), group);
            let mut overlap = false;
            for ty in ty2.iter() {
                out.eval();
                let (want, idx, pat) = ref_target(&pipelines, &routes, ty);
                let req = InjectEventRequest { event_type: ty.clone(), fields: serde_json::Map::new() };
                let got = coord.resolve_inject_target("gid", &req).ok().map(|t| t.target_name);
                if got != want {
                    let sig = classify_route(&pipelines, &routes, ty, idx, &pat, got.as_deref());
                    out.violation(
                        &format!("resolve/{}", sig),
                        "resolve_inject_target does not pick the pipeline of the first matching route / the first pipeline",
                        json!({"lane": "random-table", "table": table_json(&pipelines, &routes), "event_type": ty, "expected": want, "observed": got}),
                    );
                }
                let m: BTreeSet<&String> = routes.iter().filter(|(p, _)| p.iter().any(|p| ref_matches(ty, p))).map(|(_, t)| t).collect();
                overlap |= m.len() >= 2;
            }
            if overlap {
                out.nontrivial(&("rtable", pipelines.clone(), routes.clone()));
            }
            out.add("random_tables", 1);
            if out.samples.is_empty() {
                out.sample(json!({"lane": "random-table", "table": table_json(&pipelines, &routes)}));
            }
        }
        out
    });
    for p in parts {
        rep.merge(p);
    }

    // ------------------------------ lane B/C: inject paths with mock workers ------------------------------
    let rt = Arc::new(tokio::runtime::Builder::new_multi_thread().worker_threads(4).enable_all().build().expect("tokio runtime"));
    let mut workers = vec![];
    for i in 0..2 {
        match spawn_mock_worker(&rt, &format!("mw{}", i)) {
            Ok(w) => workers.push(w),
            Err(e) => {
                rep.inconclusive(&format!("cannot start mock worker on loopback: {e}"));
                std::process::exit(rep.finish());
            }
        }
    }
    let workers = Arc::new(workers);
    let n_cases = args.pick(1600usize, 40_000usize) / threads + 1;
    let (rt2, w2) = (rt.clone(), workers.clone());
    let parts = parallel(threads, seed ^ 0xB34, move |ti, mut rng| {
        let mut out = Partial::default();
        for c in 0..n_cases {
            let case = gen_case(&mut rng);
            let tag = format!("c{}x{}", ti, c);
            let r = catch(std::panic::AssertUnwindSafe(|| run_case(&rt2, &w2, &tag, &case, &mut out)));
            if let Err(p) = r {
                out.violation("panic/inject", "panic while routing injected events", json!({"panic": p, "site": panic_site(&last_panic_location()), "events": case.events.iter().map(|e| e.witness()).collect::<Vec<_>>()}));
            }
            out.add("inject_cases", 1);
            if !out.inconclusive.is_empty() {
                break;
            }
        }
        out
    });
    for p in parts {
        rep.merge(p);
    }
    std::process::exit(rep.finish());
}
