//! C43 — language-server requests never crash and report valid ranges.
//! Monitor: invariant on the public handlers of varpulis-lsp (get_diagnostics, get_hover,
//! get_completions, get_definition, get_references, get_semantic_tokens, get_document_symbols)
//! over mutated real documents incl. multi-byte characters, with the positional handlers called
//! at EVERY position within and just past the text (every line 0..=last+1, every character
//! 0..=byte length + 1, plus far-out positions). Each call under catch_unwind; every range a
//! handler returns is checked against the document with the most permissive reading.
#[path = "../vplmut.rs"]
mod vplmut;

use serde_json::{json, Value as J};
use std::path::Path;
use tower_lsp::lsp_types::{CompletionTextEdit, Position, Range, Url};
use vh::*;

struct Doc<'a> {
    text: &'a str,
    lines: Vec<&'a str>,
}

impl<'a> Doc<'a> {
    fn new(text: &'a str) -> Self {
        // a trailing '\n' opens a last, empty line (permissive: the cursor can be there)
        Doc { text, lines: text.split('\n').collect() }
    }
    /// None if the position is inside the document under the most permissive reading:
    /// line <= last line; character <= the line's length in bytes (bytes >= UTF-16 units >= chars;
    /// a '\r' before the '\n' is counted as part of the line).
    fn pos_problem(&self, line: u64, character: u64) -> Option<&'static str> {
        if line as usize >= self.lines.len() {
            return Some("line-past-last-line");
        }
        if character > self.lines[line as usize].len() as u64 {
            return Some("character-past-line-end");
        }
        None
    }
    fn range_problems(&self, sl: u64, sc: u64, el: u64, ec: u64) -> Vec<&'static str> {
        let mut v = vec![];
        if let Some(p) = self.pos_problem(sl, sc) {
            v.push(p);
        }
        if let Some(p) = self.pos_problem(el, ec) {
            if !v.contains(&p) {
                v.push(p);
            }
        }
        if (sl, sc) > (el, ec) {
            v.push("start-after-end");
        }
        v
    }
    fn lsp_range_problems(&self, r: &Range) -> Vec<&'static str> {
        self.range_problems(r.start.line as u64, r.start.character as u64, r.end.line as u64, r.end.character as u64)
    }
}

fn rj(r: &Range) -> J {
    json!({"start": [r.start.line, r.start.character], "end": [r.end.line, r.end.character]})
}

struct Ctx<'a> {
    doc: Doc<'a>,
    origin: &'a str,
    ops: &'a [&'static str],
    /// what produced the diagnostics: parse-error variant or "semantic"
    diag_source: String,
}

impl<'a> Ctx<'a> {
    fn witness(&self, extra: J) -> J {
        let mut w = json!({
            "document": self.doc.text,
            "document_lines": self.doc.lines.len(),
            "line_byte_lengths": self.doc.lines.iter().take(40).map(|l| l.len()).collect::<Vec<_>>(),
            "origin": self.origin,
            "mutations": self.ops,
        });
        if let (Some(o), Some(e)) = (w.as_object_mut(), extra.as_object()) {
            for (k, v) in e {
                o.insert(k.clone(), v.clone());
            }
        }
        w
    }
    fn report_ranges(&self, handler: &str, r: &Range, pos: Option<Position>, out: &mut Partial) {
        out.add("ranges_checked", 1);
        for p in self.doc.lsp_range_problems(r) {
            out.violation(
                &format!("{}/range/{}", handler, p),
                "a handler returned a range outside the document",
                self.witness(json!({"handler": handler, "range": rj(r), "cursor": pos.map(|p| json!([p.line, p.character]))})),
            );
        }
    }
    fn report_panic(&self, handler: &str, msg: &str, pos: Option<Position>, out: &mut Partial) {
        let site = panic_site(&vplmut::last_panic_here());
        out.violation(
            &format!("{}/panic/{}", handler, site),
            "a handler panicked",
            self.witness(json!({"handler": handler, "panic": msg.chars().take(300).collect::<String>(), "site": site, "cursor": pos.map(|p| json!([p.line, p.character]))})),
        );
    }
}

fn parse_variant(text: &str) -> String {
    use varpulis_parser::ParseError as E;
    match catch(std::panic::AssertUnwindSafe(|| varpulis_parser::parse(text))) {
        Ok(Ok(_)) => "semantic".into(),
        Ok(Err(e)) => match e {
            E::Located { .. } => "Located",
            E::UnexpectedToken { .. } => "UnexpectedToken",
            E::UnexpectedEof => "UnexpectedEof",
            E::InvalidToken { .. } => "InvalidToken",
            E::InvalidNumber(_) => "InvalidNumber",
            E::InvalidDuration(_) => "InvalidDuration",
            E::InvalidTimestamp(_) => "InvalidTimestamp",
            E::UnterminatedString(_) => "UnterminatedString",
            E::InvalidEscape(_) => "InvalidEscape",
            E::Custom { .. } => "Custom",
        }
        .into(),
        Err(_) => "parse-panicked".into(),
    }
}

fn check_document(origin: &str, ops: &[&'static str], text: &str, all_positions: bool, rng: &mut Rng, out: &mut Partial) {
    let uri = Url::parse("file:///doc.vpl").unwrap();
    let ctx = Ctx { doc: Doc::new(text), origin, ops, diag_source: parse_variant(text) };
    let doc_hash = hash64(&text);
    out.add("documents", 1);
    if !text.is_ascii() {
        out.add("documents_with_multibyte", 1);
    }

    // ---- whole-document handlers ----
    out.eval();
    match catch(std::panic::AssertUnwindSafe(|| varpulis_lsp::diagnostics::get_diagnostics(text))) {
        Ok(ds) => {
            if !ds.is_empty() {
                out.nontrivial(&(doc_hash, "diagnostics"));
            }
            out.add("diagnostics_returned", ds.len() as u64);
            let h = format!("diagnostics/{}", ctx.diag_source);
            for d in &ds {
                ctx.report_ranges(&h, &d.range, None, out);
                if let Some(rel) = &d.related_information {
                    for r in rel {
                        ctx.report_ranges(&h, &r.location.range, None, out);
                    }
                }
            }
        }
        Err(m) => ctx.report_panic("diagnostics", &m, None, out),
    }
    out.eval();
    match catch(std::panic::AssertUnwindSafe(|| varpulis_lsp::semantic::get_semantic_tokens(text))) {
        Ok(ts) => {
            if !ts.is_empty() {
                out.nontrivial(&(doc_hash, "semantic"));
            }
            out.add("semantic_tokens_returned", ts.len() as u64);
            let (mut line, mut ch) = (0u64, 0u64);
            for t in &ts {
                if t.delta_line > 0 {
                    line += t.delta_line as u64;
                    ch = t.delta_start as u64;
                } else {
                    ch += t.delta_start as u64;
                }
                out.add("ranges_checked", 1);
                for p in ctx.doc.range_problems(line, ch, line, ch + t.length as u64) {
                    out.violation(
                        &format!("semantic_tokens/range/{}", p),
                        "a semantic token lies outside the document",
                        ctx.witness(json!({"handler": "semantic_tokens", "token": {"line": line, "start": ch, "length": t.length, "type": t.token_type}})),
                    );
                }
            }
        }
        Err(m) => ctx.report_panic("semantic_tokens", &m, None, out),
    }
    out.eval();
    match catch(std::panic::AssertUnwindSafe(|| varpulis_lsp::semantic::get_document_symbols(text))) {
        Ok(ss) => {
            if !ss.is_empty() {
                out.nontrivial(&(doc_hash, "symbols"));
            }
            out.add("document_symbols_returned", ss.len() as u64);
            for s in &ss {
                ctx.report_ranges("document_symbols", &s.location.range, None, out);
            }
        }
        Err(m) => ctx.report_panic("document_symbols", &m, None, out),
    }

    // ---- positional handlers at every position within and just past the text ----
    let mut positions: Vec<Position> = vec![];
    let nl = ctx.doc.lines.len();
    for l in 0..=nl {
        let len = ctx.doc.lines.get(l).map(|s| s.len()).unwrap_or(0);
        for c in 0..=(len + 1) {
            positions.push(Position { line: l as u32, character: c as u32 });
        }
    }
    let last = nl.saturating_sub(1) as u32;
    for p in [(0, u32::MAX), (u32::MAX, 0), (u32::MAX, u32::MAX), (last, u32::MAX), (last, u32::MAX - 1), (nl as u32 + 1, 0), (0, 1 << 16), (1 << 16, 0)] {
        positions.push(Position { line: p.0, character: p.1 });
    }
    for (pi, pos) in positions.iter().enumerate() {
        let pos = *pos;
        let mut nonempty = false;
        out.eval();
        match catch(std::panic::AssertUnwindSafe(|| varpulis_lsp::hover::get_hover(text, pos))) {
            Ok(h) => {
                if let Some(h) = h {
                    nonempty = true;
                    out.add("hovers_returned", 1);
                    if let Some(r) = &h.range {
                        ctx.report_ranges("hover", r, Some(pos), out);
                    }
                }
            }
            Err(m) => ctx.report_panic("hover", &m, Some(pos), out),
        }
        out.eval();
        match catch(std::panic::AssertUnwindSafe(|| varpulis_lsp::completion::get_completions(text, pos))) {
            Ok(items) => {
                if !items.is_empty() {
                    nonempty = true;
                    out.add("completion_lists_returned", 1);
                }
                for it in &items {
                    match &it.text_edit {
                        Some(CompletionTextEdit::Edit(e)) => ctx.report_ranges("completion", &e.range, Some(pos), out),
                        Some(CompletionTextEdit::InsertAndReplace(e)) => {
                            ctx.report_ranges("completion", &e.insert, Some(pos), out);
                            ctx.report_ranges("completion", &e.replace, Some(pos), out);
                        }
                        None => {}
                    }
                    if let Some(es) = &it.additional_text_edits {
                        for e in es {
                            ctx.report_ranges("completion", &e.range, Some(pos), out);
                        }
                    }
                }
            }
            Err(m) => ctx.report_panic("completion", &m, Some(pos), out),
        }
        // definition / references parse the document on every call: on large documents every
        // third position plus all far-out ones, on small ones every position
        if all_positions || pi % 3 == 0 || pi + 8 >= positions.len() || rng.chance(1, 16) {
            out.eval();
            match catch(std::panic::AssertUnwindSafe(|| varpulis_lsp::navigation::get_definition(text, pos, &uri))) {
                Ok(Some(loc)) => {
                    nonempty = true;
                    out.add("definitions_returned", 1);
                    ctx.report_ranges("definition", &loc.range, Some(pos), out);
                }
                Ok(None) => {}
                Err(m) => ctx.report_panic("definition", &m, Some(pos), out),
            }
            out.eval();
            match catch(std::panic::AssertUnwindSafe(|| varpulis_lsp::navigation::get_references(text, pos, &uri))) {
                Ok(Some(locs)) => {
                    if !locs.is_empty() {
                        nonempty = true;
                        out.add("reference_lists_returned", 1);
                    }
                    for loc in &locs {
                        ctx.report_ranges("references", &loc.range, Some(pos), out);
                    }
                }
                Ok(None) => {}
                Err(m) => ctx.report_panic("references", &m, Some(pos), out),
            }
        }
        if nonempty {
            out.nontrivial(&(doc_hash, pos.line, pos.character));
        }
    }
    out.add("positions", positions.len() as u64);
}

/// Keep '\r' only as part of "\r\n": a lone '\r' is a line break for LSP clients but not for
/// `str::lines`, which would make "the line's length" ambiguous.
fn sanitize(s: &str) -> String {
    let cs: Vec<char> = s.chars().collect();
    let mut o = String::with_capacity(s.len());
    for (i, c) in cs.iter().enumerate() {
        if *c == '\r' && cs.get(i + 1) != Some(&'\n') {
            o.push(' ');
        } else {
            o.push(*c);
        }
    }
    o
}

fn insert_multibyte(rng: &mut Rng, s: &str) -> String {
    let cs: Vec<char> = s.chars().collect();
    let k = 1 + rng.below(3);
    let mut out: Vec<char> = cs;
    for _ in 0..k {
        let piece = *rng.pick(&["\u{e9}", "\u{fc}", "\u{2192}", "\u{1F4A5}", "\u{65e5}\u{672c}", "e\u{301}", "\u{3b1}", "\u{201c}", "\u{ab}", "\u{1F600}"]);
        let p = rng.below(out.len() + 1);
        for (o, ch) in piece.chars().enumerate() {
            out.insert(p + o, ch);
        }
    }
    out.into_iter().collect()
}

fn main() {
    let args = Args::parse();
    vplmut::install_silent_hook();
    watchdog("C43", args.pick(900, 7200));
    let mut rep = Report::new("C43", "exploration", &args);
    rep.rule = format!("documents = chunks (<= 300 bytes quick / 700 thorough) of: {}; half of the documents additionally get 1-3 multi-byte characters at random places; lone CRs removed. Every document: diagnostics, semantic tokens, document symbols once; hover and completion at every (line 0..=last+1, character 0..=byte length+1) plus 8 far-out positions; a quarter of the documents are left well-formed; definition and references at every position on documents <= 120 bytes, else at every third position, a random sixteenth and the far-out ones. Non-trivial: a (document, position) at which some positional handler returned a non-empty result, or a (document, whole-document handler) with a non-empty result; distinct by (document, position).", vplmut::describe());
    rep.assume("a position is inside the document iff line <= last line (text split at '\\n'; a trailing newline opens a last empty line) and character <= that line's length in BYTES, the most permissive of bytes / UTF-16 units / chars; a range additionally needs start <= end");
    rep.assume("semantic tokens are decoded from their delta encoding; a token's range is (line, start)..(line, start+length)");
    rep.assume("the harness profile has overflow checks on: an arithmetic overflow inside a handler surfaces as a panic here");

    if let Some(path) = args.replay.clone() {
        let doc: J = serde_json::from_str(&std::fs::read_to_string(&path).expect("replay file")).expect("json");
        let text = doc["witness"]["document"].as_str().unwrap_or("").to_string();
        let mut out = Partial::default();
        let mut rng = Rng::new(1);
        check_document("replay", &[], &text, true, &mut rng, &mut out);
        for (sig, what, w) in &out.violations {
            println!("{} :: {} :: cursor={} range={} panic={}", sig, what, w["cursor"], w["range"], w["panic"]);
        }
        println!("{} violations recorded", out.violations.len());
        return;
    }

    let corp = vplmut::corpus(Path::new("/repo"));
    let max_doc = args.pick(300usize, 700usize);
    let chunks = std::sync::Arc::new(vplmut::chunks(&corp, max_doc));
    rep.set("corpus_texts", json!(corp.len()));
    rep.set("corpus_chunks", json!(chunks.len()));
    if chunks.len() < 50 {
        rep.inconclusive("corpus under /repo too small (examples/docs missing?)");
        std::process::exit(rep.finish());
    }
    // one single-threaded worker PROCESS per core (see vplmut::run_workers for why)
    let docs_per_worker = args.pick(16usize, 150usize);
    if let Some(w) = args.opt("--worker").and_then(|x| x.parse::<u64>().ok()) {
        let mut rng = Rng::new(args.seed).fork(w + 1);
        let ch = chunks.clone();
        let mut out = Partial::default();
        // fixed documents first (worker 0): the empty one, a tiny multi-byte one, an unfinished one
        if w == 0 {
            let over_limit = format!("let a = {}", "(".repeat(25));
            for t in [
                "",
                "\n",
                "stream \u{e9}\u{e9} = \u{65e5}\u{672c}.where(x > 1)\n# \u{1F4A5} c\nlet v = \"\u{fc}\"",
                "stream S = E\n    .where(x >",
                // a parse error located after a multi-byte character on its line
                "let s = \"\u{e9}\u{e9}\u{e9}\u{e9}\u{e9}\u{e9}\u{e9}\u{e9}\u{e9}\" \u{65e5}",
                // bracket nesting just over the parser's limit (an error without a token length)
                over_limit.as_str(),
                // connector-parameter completion contexts with multi-byte names after blanks
                "connector K\u{fc}che = mqtt(host: \"h\")\nstream S = X.from( \u{dc}n\u{ef}",
                "stream S = X.from(  \u{65e5}\u{672c}, topic: \"t\"\nstream T = S.to( \u{e9}\u{e9}, ",
                // a well-formed document with symbols to find
                "event Tick:\n    price: float\n\nstream Big = Tick\n    .where(price > 10.0)\n    .emit(p: price)\n",
            ] {
                check_document("fixed", &[], t, true, &mut rng, &mut out);
            }
        }
        for _ in 0..docs_per_worker {
            let (origin, seed_text) = &ch[rng.below(ch.len())];
            // a quarter of the documents stay well-formed (so that definition/references have symbols to
            // find), half of those with multi-byte text only where the grammar allows it
            let (mut t, ops) = if rng.chance(1, 4) {
                let mut t = seed_text.clone();
                if rng.chance(1, 2) {
                    t = format!("# \u{1F4A5} \u{e9}t\u{e9}\nlet s_mb = \"\u{65e5}\u{672c} \u{fc}\"\n{}", t);
                }
                (t, vec!["none"])
            } else {
                vplmut::mutate(&mut rng, seed_text, max_doc + 200)
            };
            if ops != ["none"] && rng.chance(1, 2) {
                t = insert_multibyte(&mut rng, &t);
                if rng.chance(1, 6) {
                    // an unfinished `.from(` / `.to(` with blanks and a multi-byte identifier (completion's
                    // connector-parameter context)
                    let tail = ["\n    .from( \u{dc}n\u{ef}", "\n    .to(  \u{65e5}\u{672c}, ", ".from(\t\u{e9}x, a: 1, ", "\nstream Z = Q.to( \u{fc}"][rng.below(4)];
                    t.push_str(tail);
                }
            }
            let t = sanitize(&t);
            let all = t.len() <= 120;
            check_document(origin, &ops, &t, all, &mut rng, &mut out);
            if out.samples.len() < 2 && !t.is_ascii() && !ops.is_empty() {
                out.sample(json!({"origin": origin, "mutations": ops, "document": t}));
            }
        }
        out.add("panics_on_any_thread_incl_absorbed_parser_panics", vplmut::panic_count());
        vplmut::worker_emit(&out);
    }
    let (parts, problems) = vplmut::run_workers(ncpu());
    for p in parts {
        rep.merge(p);
    }
    for p in problems {
        rep.inconclusive(&p);
    }
    std::process::exit(rep.finish());
}
