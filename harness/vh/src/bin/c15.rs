//! C15 — joins correlate exactly the same-key events that are within the window.
//!
//! Monitor: reference model (own bookkeeping, DESIGN §2 C15) against
//!   * the real `JoinBuffer::add_event` (direct lane; per-key caps 2-4 to reach eviction), and
//!   * join programs through the real parse -> load -> process path with uid-projecting emits
//!     (engine lane; default cap).
//! Model: per (source, key) the last `max_events_per_key` arrivals are retained. On arrival of e
//! (key k, timestamp t) a joined output exists iff every joined source has a retained event with
//! key k and ts >= t - window (one-sided, as `try_correlate` states it: events stamped later than
//! the arriving one count); the output's fields come from the most recently *arrived* such event
//! of each source (for e's own source that is e itself).
use serde_json::{json, Value as J};
use std::collections::{BTreeMap, BTreeSet};
use varpulis_core::Value;
use varpulis_runtime::join::JoinBuffer;
use vh::eng::*;
use vh::*;

#[path = "../winjoin.rs"]
mod winjoin;
use winjoin::*;

const SRC: [&str; 3] = ["A", "B", "C"];
const TY: [&str; 3] = ["TA", "TB", "TC"];
const DEFAULT_CAP: usize = 1000;

#[derive(Clone, Debug, Hash)]
struct Case {
    engine: bool,
    /// engine lane: join over derived streams (stream SA = TA ...) instead of the event types
    derived: bool,
    arity: usize,
    /// join window in ms
    window: i64,
    cap: usize,
    evs: Vec<GEv>,
}

impl Case {
    fn lane(&self) -> &'static str {
        if self.engine { "engine" } else { "direct" }
    }
    fn src_of(&self, g: &GEv) -> usize {
        TY.iter().position(|t| *t == g.ty).expect("source type")
    }
    fn program(&self) -> String {
        let names: Vec<String> = (0..self.arity).map(|i| if self.derived { format!("S{}", SRC[i]) } else { TY[i].to_string() }).collect();
        let mut s = String::new();
        if self.derived {
            for i in 0..self.arity {
                s.push_str(&format!("stream {} = {}\n", names[i], TY[i]));
            }
        }
        s.push_str(&format!("stream J = join({})\n", names.join(", ")));
        let on: Vec<String> = (0..self.arity - 1).map(|i| format!("{}.k == {}.k", names[i], names[i + 1])).collect();
        s.push_str(&format!("    .on({})\n", on.join(" and ")));
        s.push_str(&format!("    .window({}ms)\n", self.window));
        let em: Vec<String> = (0..self.arity).map(|i| format!("p{}: {}.uid", i, names[i])).collect();
        s.push_str(&format!("    .emit({})\n", em.join(", ")));
        s
    }
    fn json(&self) -> J {
        json!({
            "lane": self.lane(), "arity": self.arity, "window_ms": self.window,
            "max_events_per_key": self.cap, "derived_streams": self.derived,
            "api": if self.engine { "Engine::process" } else { "JoinBuffer::new(sources A,B[,C], key field k, window).with_max_events(cap).add_event(source, event)" },
            "program": if self.engine { J::String(self.program()) } else { J::Null },
            "events": self.evs.iter().map(|g| g.json()).collect::<Vec<_>>(),
            "note": "event type TA/TB/TC belongs to source A/B/C; output partners are listed per source in that order",
        })
    }
    fn from_json(j: &J) -> Option<Case> {
        Some(Case {
            engine: j["lane"].as_str()? == "engine",
            derived: j["derived_streams"].as_bool().unwrap_or(false),
            arity: j["arity"].as_u64()? as usize,
            window: j["window_ms"].as_i64()?,
            cap: j["max_events_per_key"].as_u64()? as usize,
            evs: j["events"].as_array()?.iter().map(GEv::from_json).collect::<Option<Vec<_>>>()?,
        })
    }
}

/// Observed per arrival: None = no output; Some(partner uid per source).
type Out = Option<Vec<Option<i64>>>;

fn run_direct(c: &Case) -> Vec<Result<Out, String>> {
    let sources: Vec<String> = (0..c.arity).map(|i| SRC[i].to_string()).collect();
    let mut keys = rustc_hash::FxHashMap::default();
    for s in &sources {
        keys.insert(s.clone(), "k".to_string());
    }
    let mut jb = JoinBuffer::new(sources, keys, chrono::Duration::milliseconds(c.window)).with_max_events(c.cap);
    c.evs
        .iter()
        .map(|g| {
            let r = jb.add_event(SRC[c.src_of(g)], g.event());
            Ok(r.map(|o| {
                (0..c.arity)
                    .map(|i| match o.data.get(format!("{}.uid", SRC[i]).as_str()) {
                        Some(Value::Int(u)) => Some(*u),
                        _ => None,
                    })
                    .collect()
            }))
        })
        .collect()
}

fn run_engine(c: &Case, rt: &tokio::runtime::Runtime) -> Result<Vec<Result<Out, String>>, String> {
    let events: Vec<_> = c.evs.iter().map(|g| g.event()).collect();
    let outs = run_per_event(rt, &c.program(), &events)?;
    Ok(outs
        .into_iter()
        .map(|o| {
            let o: Vec<_> = o.into_iter().filter(|e| &*e.event_type == "J").collect();
            match o.len() {
                0 => Ok(None),
                1 => Ok(Some((0..c.arity).map(|i| get_i(&o[0], &format!("p{}", i))).collect())),
                n => Err(format!("{} joined outputs for one arrival", n)),
            }
        })
        .collect())
}

#[derive(Default)]
struct Model {
    /// (source, key) -> retained arrivals (uid, ts), oldest arrival first
    retained: BTreeMap<(usize, i64), Vec<(i64, i64)>>,
    /// (source, key) -> full arrival history of timestamps (for witness features only)
    history: BTreeMap<(usize, i64), Vec<i64>>,
    evicted: BTreeSet<(usize, i64)>,
}

/// Mirror of the KNOWN-DEFECTIVE expiry semantics (finding "high-water expiry"): periodic expiry
/// at the newest event's time instead of relative to the arriving event. Used ONLY to decide
/// whether a disagreement with the reference model is exactly what that known defect produces;
/// anything that also differs from this mirror is reported under its own signature.
#[derive(Default)]
struct HighWaterMirror {
    buf: BTreeMap<(usize, i64), Vec<(i64, i64)>>, // (source,key) -> (uid, ts) in arrival order
    queue: Vec<(i64, usize, i64)>,                // (expiry ts, source, key)
    last_gc: Option<i64>,
}

impl HighWaterMirror {
    fn arrive(&mut self, c: &Case, g: &GEv) -> Option<Vec<i64>> {
        let s0 = c.src_of(g);
        let gc_interval = (c.window / 10).clamp(10, 1000);
        let run_gc = match self.last_gc {
            Some(l) => g.ts - l >= gc_interval,
            None => true,
        };
        if run_gc {
            self.last_gc = Some(g.ts);
            let cutoff = g.ts - c.window;
            let mut rest = vec![];
            for (exp, s, k) in self.queue.drain(..) {
                if exp <= g.ts {
                    let empty = match self.buf.get_mut(&(s, k)) {
                        Some(v) => {
                            v.retain(|(_, t)| *t >= cutoff);
                            v.is_empty()
                        }
                        None => false,
                    };
                    if empty {
                        self.buf.remove(&(s, k));
                    }
                } else {
                    rest.push((exp, s, k));
                }
            }
            self.queue = rest;
        }
        let b = self.buf.entry((s0, g.key)).or_default();
        while b.len() >= c.cap {
            b.remove(0);
        }
        b.push((g.uid, g.ts));
        self.queue.push((g.ts + c.window, s0, g.key));
        let cutoff = g.ts - c.window;
        let mut out = vec![];
        for s in 0..c.arity {
            match self.buf.get(&(s, g.key)).and_then(|v| v.iter().rev().find(|(_, t)| *t >= cutoff)) {
                Some((u, _)) => out.push(*u),
                None => return None,
            }
        }
        Some(out)
    }
}

struct Step {
    expected: Option<Vec<i64>>,
    /// per source: in-window retained candidates (uid, ts) in arrival order
    candidates: Vec<Vec<(i64, i64)>>,
    /// some other source has a same-key retained partner in range and a same-key event out of range
    nontrivial: bool,
}

impl Model {
    fn arrive(&mut self, c: &Case, g: &GEv) -> Step {
        let s0 = c.src_of(g);
        let buf = self.retained.entry((s0, g.key)).or_default();
        buf.push((g.uid, g.ts));
        if buf.len() > c.cap {
            let drop = buf.len() - c.cap;
            buf.drain(..drop);
            self.evicted.insert((s0, g.key));
        }
        self.history.entry((s0, g.key)).or_default().push(g.ts);
        let lo = g.ts - c.window;
        let mut candidates = vec![];
        let mut nontrivial = false;
        for s in 0..c.arity {
            let all = self.retained.get(&(s, g.key)).cloned().unwrap_or_default();
            let inw: Vec<(i64, i64)> = all.iter().copied().filter(|(_, t)| *t >= lo).collect();
            if s != s0 && !inw.is_empty() && self.history.get(&(s, g.key)).map(|h| h.iter().any(|t| *t < lo)).unwrap_or(false) {
                nontrivial = true;
            }
            candidates.push(inw);
        }
        let expected = if candidates.iter().all(|v| !v.is_empty()) { Some(candidates.iter().map(|v| v.last().unwrap().0).collect()) } else { None };
        Step { expected, candidates, nontrivial }
    }
}

fn check_case(c: &Case, rt: &tokio::runtime::Runtime, out: &mut Partial) {
    out.eval();
    let run = catch(std::panic::AssertUnwindSafe(|| if c.engine { run_engine(c, rt) } else { Ok(run_direct(c)) }));
    let obs = match run {
        Ok(Ok(o)) => o,
        Ok(Err(e)) => {
            out.inconclusive(&format!("engine rejected a generated join program: {} :: {}", e, c.program().replace('\n', " ")));
            return;
        }
        Err(p) => {
            out.violation(&format!("join/{}/{}way/panic", c.lane(), c.arity), "join panicked", json!({"case": c.json(), "panic": p, "site": panic_site(&last_panic_location())}));
            return;
        }
    };
    let mut m = Model::default();
    let mut mirror = HighWaterMirror::default();
    let mut seen_sigs: BTreeSet<String> = BTreeSet::new();
    let mut hw_expirable_seen: BTreeSet<i64> = BTreeSet::new();
    let mut hw = i64::MIN;
    let mut ordered = true;
    let mut any_nontrivial = false;
    let mut outputs = 0u64;
    for (i, g) in c.evs.iter().enumerate() {
        let step = m.arrive(c, g);
        let mirror_out = mirror.arrive(c, g);
        {
            // did the model retain (for this key) an event that the high-water expiry would drop?
            let hw_now = if hw == i64::MIN { g.ts } else { hw.max(g.ts) };
            if (0..c.arity).any(|s| m.retained.get(&(s, g.key)).map(|v| v.iter().any(|(_, t)| *t < hw_now - c.window)).unwrap_or(false)) {
                hw_expirable_seen.insert(g.key);
            }
        }
        if g.ts < hw {
            ordered = false;
        }
        let hw_before = if hw == i64::MIN { g.ts } else { hw };
        hw = hw.max(g.ts);
        any_nontrivial |= step.nontrivial;
        out.add("arrivals_checked", 1);
        if step.nontrivial {
            out.add("arrivals_with_partner_in_and_out_of_range", 1);
        }
        let ord = if ordered { "in-order" } else { "out-of-order" };
        let base = format!("join/{}/{}way", c.lane(), c.arity);
        let got = match &obs[i] {
            Ok(g) => g.clone(),
            Err(e) => {
                let sig = format!("{}/multiple-outputs/{}", base, ord);
                if seen_sigs.insert(sig.clone()) {
                    out.violation(&sig, "more than one joined output for one arrival", json!({"case": c.json(), "at_event_index": i, "detail": e}));
                }
                continue;
            }
        };
        if got.is_some() {
            outputs += 1;
        }
        let got_flat: Option<Vec<i64>> = got.as_ref().map(|v| v.iter().map(|u| u.unwrap_or(-1)).collect());
        if got_flat == step.expected {
            continue;
        }
        let s0 = c.src_of(g);
        let cap_feature = if (0..c.arity).any(|s| m.evicted.contains(&(s, g.key))) { "cap-reached" } else { "below-cap" };
        // Root cause B (known finding): expiry runs at the stream's high-water mark although the
        // window is relative to the arriving event. It can only matter for a late arrival for which
        // some same-key event of another source is inside the arriving event's window but below
        // (largest timestamp seen) - window. Every disagreement with that feature gets one signature.
        let lo_hw_b = hw_before - c.window;
        let lo_b = g.ts - c.window;
        let late_feature = (0..c.arity).any(|s| s != s0 && m.history.get(&(s, g.key)).map(|h| h.iter().any(|t| *t >= lo_b && *t < lo_hw_b)).unwrap_or(false));
        // ... or, with a small per-key cap, an earlier high-water expiry left the real buffer shorter
        // than the model's, so the cap evicted different events afterwards.
        let cap_feature_b = (0..c.arity).any(|s| m.evicted.contains(&(s, g.key))) && hw_expirable_seen.contains(&g.key);
        // exact test: the observation is what the mirror of the known-defective expiry produces
        let _ = (late_feature, cap_feature_b);
        let explained_b = !ordered && got_flat == mirror_out;
        let sig = if explained_b {
            format!("{}/high-water-expiry/late-arrival", base)
        } else {
            match (&step.expected, &got_flat) {
            (Some(_), None) => {
                // which root cause can explain a lost correlation? (features of the witness, finite)
                let lo_hw = hw_before - c.window;
                let expirable = (0..c.arity).any(|s| s != s0 && step.candidates[s].iter().all(|(_, t)| *t < lo_hw));
                let unsorted = (0..c.arity).any(|s| s != s0 && m.history.get(&(s, g.key)).map(|h| !in_order(h.iter().copied())).unwrap_or(false));
                let why = if ordered {
                    "sorted-key-buffers"
                } else if expirable {
                    "late-arrival/partner-older-than-window-at-high-water"
                } else if unsorted {
                    "unsorted-key-buffer"
                } else {
                    "sorted-key-buffers"
                };
                format!("{}/missing-output/{}/{}", base, ord, why)
            }
            (None, Some(_)) => format!("{}/extra-output/{}/{}", base, ord, cap_feature),
            _ => format!("{}/wrong-partner/{}/{}", base, ord, cap_feature),
            }
        };
        if seen_sigs.insert(sig.clone()) {
            let retained: Vec<J> = (0..c.arity)
                .map(|s| json!({"source": SRC[s], "key": g.key, "model_retained_uid_ts": m.retained.get(&(s, g.key)).cloned().unwrap_or_default(), "in_window": step.candidates[s]}))
                .collect();
            out.violation(
                &sig,
                "joined output differs from the reference model (same key, ts >= arriving.ts - window, most recently arrived per source)",
                json!({"case": c.json(), "at_event_index": i, "arriving": g.json(), "cutoff_ts_ms": g.ts - c.window, "largest_ts_seen_before": hw_before,
                       "expected_partner_uids": step.expected, "observed_partner_uids": got, "model_state_for_key": retained}),
            );
        }
    }
    out.add("joined_outputs_observed", outputs);
    if any_nontrivial {
        out.nontrivial(c);
        if out.samples.len() < 2 && c.evs.len() <= 14 {
            out.sample(json!({"case": c.json()}));
        }
    }
}

fn gen_case(rng: &mut Rng, engine: bool, in_order_only: bool) -> Case {
    let arity = if rng.chance(2, 5) { 3 } else { 2 };
    let unit = *rng.pick(&[1i64, 1, 10, 100, 1000]);
    let w = rng.range(1, 5);
    let cap = if engine { DEFAULT_CAP } else { *rng.pick(&[2usize, 2, 3, 4, DEFAULT_CAP]) };
    let nkeys = rng.range(1, 4);
    let len = if engine { 8 + rng.below(40) } else { 8 + rng.below(55) };
    let ooo = !in_order_only && rng.chance(1, 2);
    let mut walk = rng.range(0, 3);
    let incs = [0, 0, 0, 1, 1, 1, 2, 2, w, w + 1, w - 1, 2 * w + 1];
    let mut evs = vec![];
    for i in 0..len {
        if i > 0 {
            walk += (*rng.pick(&incs)).max(0);
        }
        let mut t = walk;
        if ooo && rng.chance(1, 3) {
            t = (walk - rng.range(1, 2 * w + 2)).max(0);
        }
        let s = rng.below(arity);
        evs.push(GEv::new(i as i64 + 1, TY[s], t * unit, rng.range(0, nkeys - 1)));
    }
    Case { engine, derived: engine && rng.chance(1, 2), arity, window: w * unit, cap, evs }
}

fn main() {
    let args = Args::parse();
    install_quiet_panic_hook();
    watchdog("C15", args.pick(600, 7200));
    let mut rep = Report::new("C15", "exploration", &args);
    rep.rule = "random 2- and 3-way joins on an integer key field (1-4 key values), window 1-5 units with unit in {1,10,100,1000} ms (so the periodic expiry pass runs at different rates relative to the window), streams of 8-62 events with timestamp ties and boundary distances (exactly window, window+-1), half of the streams with late events (up to 2*window+2 units behind); direct lane = real JoinBuffer::add_event with max_events_per_key in {2,3,4,1000}; engine lane = join(..).on(..).window(..).emit(uids) programs over event types or derived streams through Engine::process. Every arrival is compared with the reference model. Non-trivial: the stream has an arrival with a same-key partner in range and a same-key event of that source out of range; distinct by (configuration, stream).".into();
    rep.assume("'within the join window of the arriving event' is read one-sidedly: ts >= arriving.ts - window (boundary included, later-stamped events count), as try_correlate states it");
    rep.assume("retained events = the last max_events_per_key arrivals per (source, key); the engine lane uses the JoinBuffer default of 1000, never reached by the generated streams");
    rep.assume("join keys are integers of one type, every event carries its key");
    let rt0 = rt();
    if let Some(path) = args.replay.clone() {
        let w = read_replay(&path);
        let c = Case::from_json(&w["case"]).expect("replay witness has no parsable case");
        let mut p = Partial::default();
        check_case(&c, &rt0, &mut p);
        println!("replayed case: {}", c.json());
        for (s, what, wit) in &p.violations {
            println!("VIOLATION-ON-REPLAY signature={} :: {}\n{}", s, what, serde_json::to_string_pretty(wit).unwrap());
        }
        if p.violations.is_empty() {
            println!("no violation on replay");
        }
        std::process::exit(if p.violations.is_empty() { 0 } else { 1 });
    }
    let threads = ncpu();
    let n_direct = args.pick(50_000usize, 1_500_000usize);
    let n_engine = args.pick(5_000usize, 100_000usize);
    let parts = parallel(threads, args.seed ^ 0xC15, move |_ti, mut rng| {
        let mut out = Partial::default();
        let rt = rt();
        for i in 0..n_direct / threads + 1 {
            let c = gen_case(&mut rng, false, i % 4 == 0);
            check_case(&c, &rt, &mut out);
            out.add("direct_runs", 1);
        }
        for i in 0..n_engine / threads + 1 {
            let c = gen_case(&mut rng, true, i % 4 == 0);
            check_case(&c, &rt, &mut out);
            out.add("engine_runs", 1);
        }
        out
    });
    for p in parts {
        rep.merge(p);
    }
    std::process::exit(rep.finish());
}
