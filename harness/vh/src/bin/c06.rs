//! C06 — ZDD operations implement set-family algebra exactly.
//! Monitor: shadow model (explicit sets of sets) updated in lock-step with every
//! operation on the three real APIs; the whole family is compared after each step.
use serde_json::json;
use vh::zddmodel::*;
use vh::*;

fn main() {
    let args = Args::parse();
    install_quiet_panic_hook();
    watchdog("C06", args.pick(900, 7200));
    let mut rep = Report::new("C06", "exploration", &args);
    rep.rule = "exhaustive lane: every ordered pair of families over <=3 variables (256x256) x {union,intersection,difference,product} x {Zdd,ZddArena,SharedArena}, plus product_with_optional on every family x var 0..3, with and without a preceding gc; random lane: op sequences (depth <=30, <=5 variables, gc interleaved). A case is non-trivial when the operands differ and the result is neither empty nor equal to an operand; distinct by (op, operand families).".into();
    rep.assume("explicit BTreeSet<BTreeSet<u32>> algebra is the specification");
    rep.assume("SharedArena has no iterator; its families are read through contains() over the whole universe (<=5 variables), which is complete");

    // ---------------- exhaustive lane (3 variables: 256 families) ----------------
    let nv = 3u32;
    let nfam = 1u64 << (1u64 << nv);
    let threads = ncpu();
    let quick_stride: u64 = if args.thorough() { 1 } else { 1 }; // whole space in both tiers
    let seed = args.seed;
    let parts = parallel(threads, seed, move |ti, mut rng| {
        let mut out = Partial::default();
        let mut a_idx = ti as u64;
        while a_idx < nfam {
            let fa = family_from_index(nv, a_idx);
            // one world per left operand; right operands added and gc'd in groups
            let mut w = World::new(nv);
            let sa = w.push_family(&fa, (a_idx % 2) as usize);
            let pre_gc = rng.chance(1, 2);
            if pre_gc {
                w.gc(&[sa]);
            }
            let sa = 0usize;
            // product_with_optional for every variable (incl. one beyond the universe)
            for v in 0..=nv {
                let r = catch(std::panic::AssertUnwindSafe(|| {
                    let i = w.pwo(sa, v);
                    i
                }));
                match r {
                    Ok(i) => {
                        out.eval();
                        let saved = w.nvars;
                        w.nvars = nv + 1;
                        let c = w.check_slot_algebra(i, "product_with_optional", if pre_gc { "after-gc" } else { "fresh" }, &mut out);
                        w.nvars = saved;
                        out.add("comparisons", c);
                        let m = &w.slots[i].model;
                        if !m.is_empty() && m != &fa {
                            out.nontrivial(&("pwo", a_idx, v));
                        }
                    }
                    Err(p) => out.violation("panic/product_with_optional", "panic in product_with_optional", json!({"family": fam_json(&fa), "var": v, "panic": p})),
                }
            }
            w.slots.truncate(1);
            let mut b_idx = 0u64;
            while b_idx < nfam {
                let fb = family_from_index(nv, b_idx);
                let sb = w.push_family(&fb, ((a_idx + b_idx) % 2) as usize);
                for op in [BinOp::Union, BinOp::Intersection, BinOp::Difference, BinOp::Product] {
                    let r = catch(std::panic::AssertUnwindSafe(|| w.binop(op, sa, sb)));
                    match r {
                        Ok(i) => {
                            out.eval();
                            let c = w.check_slot_algebra(i, op.name(), if pre_gc { "after-gc" } else { "fresh" }, &mut out);
                            out.add("comparisons", c);
                            let m = &w.slots[i].model;
                            if fa != fb && !m.is_empty() && m != &fa && m != &fb {
                                out.nontrivial(&(op, a_idx, b_idx));
                            }
                            if out.samples.is_empty() && ti == 0 && a_idx > 40 && fa != fb && !m.is_empty() {
                                out.sample(json!({"lane": "exhaustive", "op": op.name(), "a": fam_json(&fa), "b": fam_json(&fb), "result": fam_json(m)}));
                            }
                        }
                        Err(p) => out.violation(&format!("panic/{}", op.name()), "panic in a ZDD operation", json!({"a": fam_json(&fa), "b": fam_json(&fb), "panic": p})),
                    }
                }
                // keep the world small: drop everything but the left operand now and then
                if w.slots.len() > 40 {
                    if rng.chance(1, 2) {
                        w.gc(&[0]);
                    } else {
                        w.slots.truncate(1);
                    }
                }
                b_idx += quick_stride;
            }
            a_idx += threads as u64;
        }
        out
    });
    for p in parts {
        rep.merge(p);
    }
    rep.set("exhaustive_families", json!(nfam));
    rep.exhaustive = Some(true);

    // ---------------- random lane ----------------
    let seqs_per_thread = args.pick(2000usize, 200_000usize) / threads + 1;
    let parts = parallel(threads, seed ^ 0xC06, move |_ti, mut rng| {
        let mut out = Partial::default();
        for s in 0..seqs_per_thread {
            let nv = 2 + rng.below(4) as u32; // 2..=5
            let depth = 5 + rng.below(26);
            let mut w = World::new(nv);
            let mut after_gc = false;
            for _ in 0..depth {
                let before = w.slots.len();
                let r = catch(std::panic::AssertUnwindSafe(|| random_step(&mut w, &mut rng, true)));
                match r {
                    Ok((name, Some(i))) => {
                        out.eval();
                        let c = w.check_slot_algebra(i, &name, if after_gc { "after-gc" } else { "fresh" }, &mut out);
                        out.add("comparisons", c);
                        let m = w.slots[i].model.clone();
                        if !m.is_empty() && before >= 2 && !w.slots[..before].iter().any(|s| s.model == m) {
                            out.nontrivial(&(name.clone(), fam_json(&m).to_string(), w.log.len()));
                        }
                    }
                    Ok((_, None)) => {
                        after_gc = true;
                        out.add("gcs", 1);
                        // after gc every survivor must still denote its family
                        for i in 0..w.slots.len() {
                            let c = w.check_slot_algebra(i, "gc", "after-gc", &mut out);
                            out.add("comparisons", c);
                        }
                    }
                    Err(p) => {
                        out.violation("panic/random-sequence", "panic in a ZDD operation sequence", json!({"history": w.log, "panic": p, "site": panic_site(&last_panic_location())}));
                        break;
                    }
                }
            }
            if s == 0 {
                out.sample(json!({"lane": "random", "nvars": nv, "history": w.log}));
            }
        }
        out
    });
    for p in parts {
        rep.merge(p);
    }
    std::process::exit(rep.finish());
}
