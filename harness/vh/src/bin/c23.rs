//! C23 — hot reload keeps unchanged streams working and applies changed ones.
//!
//! Monitor (differential between runs of the real engine). For a program P, an input sequence S
//! and EVERY reload point c:
//!   A   = engine of P fed S, never reloaded;
//!   B   = engine of P fed S[..c], `reload(P)` (same program), fed S[c..];
//!   B'  = engine of P fed S[..c], `reload(P')` (P' = P with one edit), fed S[c..];
//!   F   = fresh engine of P' fed S[c..].
//! Oracle: B's outputs of every step >= c equal A's (ordered). For P': a stream whose definition
//! changed (same name, different text; or new name) and whose upstream streams are all stateless
//! must from c on produce exactly F's outputs of that stream; a stream whose definition and whole
//! upstream are unchanged must produce exactly A's outputs of that stream. `ReloadReport` must
//! list a changed stream in `streams_updated` (a renamed one in `streams_added`).
//!
//! Signatures (root-cause oriented; <family> = filter|fn-filter|window|sequence|pattern|join|distinct|limit|merge):
//!   reload/route-lost/<family>                 a judged stream (changed or not) diverges and hook H4 shows that the
//!                                              expected engine handed it an event of some type at a step where the
//!                                              reloaded engine did not
//!   reload/old-definition-kept/<edit>/<family> a changed stream behaves exactly like the never-reloaded old program
//!   reload/report/changed-stream-not-updated/<edit>/<family>   ReloadReport does not list a changed stream as updated / added
//!   reload/same-program/order-only             every stream's own outputs equal, interleaving across streams differs
//!   reload/unchanged-stream/<family>/<state-reset|different>
//!   reload/changed-stream/<edit>/<family>/different
#[path = "../ckgen.rs"]
mod ckgen;
use ckgen::*;
use serde_json::{json, Value as J};
use std::collections::BTreeSet;
use tokio::sync::mpsc;
use varpulis_core::ast::Program;
use varpulis_runtime::engine::Engine;
use varpulis_runtime::event::Event;
use vh::eng::*;
use vh::*;

fn fresh(program: &Program) -> Result<Loaded, String> {
    let (tx, rx) = mpsc::channel::<Event>(100_000);
    let mut engine = Engine::new(tx);
    engine.load(program).map_err(|e| format!("load: {}", e))?;
    Ok(Loaded { engine, rx })
}

#[derive(Default, Clone)]
struct Run {
    /// per step: canonical outputs in order
    outs: Vec<Vec<String>>,
    /// per step: (event type, stream) pairs: the stream was handed an event of that type (hook H4)
    routes: Vec<BTreeSet<(String, String)>>,
}

fn step(l: &mut Loaded, rt: &tokio::runtime::Runtime, i: &In, run: &mut Run) -> Result<(), String> {
    #[cfg(varpulis_verif)]
    varpulis_runtime::verif::route_log_start();
    let r = rt.block_on(l.engine.process(i.event()));
    let mut routed = BTreeSet::new();
    #[cfg(varpulis_verif)]
    {
        let mut cur = String::new();
        for ent in varpulis_runtime::verif::route_log_take() {
            match ent {
                varpulis_runtime::verif::RouteEntry::Popped { event, .. } => cur = event.event_type.to_string(),
                varpulis_runtime::verif::RouteEntry::Stream(name) => {
                    routed.insert((cur.clone(), name));
                }
            }
        }
    }
    r.map_err(|e| format!("process: {}", e))?;
    run.outs.push(l.drain().iter().map(canon).collect());
    run.routes.push(routed);
    Ok(())
}

fn run_plain(program: &Program, ins: &[In], rt: &tokio::runtime::Runtime) -> Result<Run, String> {
    let mut l = fresh(program)?;
    let mut run = Run::default();
    for i in ins {
        step(&mut l, rt, i, &mut run)?;
    }
    Ok(run)
}

struct ReloadRun {
    run: Run,
    report: J,
    updated: BTreeSet<String>,
    added: BTreeSet<String>,
    state_items_at_reload: u64,
}

fn run_reload(p: &Program, p2: &Program, ins: &[In], c: usize, rt: &tokio::runtime::Runtime) -> Result<Result<ReloadRun, String>, String> {
    let mut l = fresh(p)?;
    let mut run = Run::default();
    for i in &ins[..c] {
        step(&mut l, rt, i, &mut run)?;
    }
    let items = state_items(&serde_json::to_value(l.engine.create_checkpoint()).unwrap_or(J::Null));
    let rep = match l.engine.reload(p2) {
        Ok(r) => r,
        Err(e) => return Ok(Err(e)),
    };
    let during = l.drain();
    for (j, i) in ins[c..].iter().enumerate() {
        step(&mut l, rt, i, &mut run)?;
        if j == 0 && !during.is_empty() {
            let mut e: Vec<String> = during.iter().map(canon).collect();
            let last = run.outs.last_mut().unwrap();
            e.append(last);
            *last = e;
        }
    }
    let report = json!({"streams_added": rep.streams_added, "streams_removed": rep.streams_removed, "streams_updated": rep.streams_updated, "state_preserved": rep.state_preserved, "state_reset": rep.state_reset, "warnings": rep.warnings});
    Ok(Ok(ReloadRun { run, report, updated: rep.streams_updated.iter().cloned().collect(), added: rep.streams_added.iter().cloned().collect(), state_items_at_reload: items }))
}

/// Some (event type -> stream) hand-over seen in `exp` at a step is missing in `got` at that step.
fn lost_route(exp: &[BTreeSet<(String, String)>], got: &[BTreeSet<(String, String)>], stream: &str) -> bool {
    exp.iter().zip(got.iter()).any(|(e, g)| e.iter().any(|r| r.1 == stream && !g.contains(r)))
}

fn of_stream<'a>(lines: &'a [String], name: &str) -> Vec<&'a String> {
    lines.iter().filter(|l| stream_of(l) == name).collect()
}

fn family(kind: &str) -> &'static str {
    for f in ["fn-filter", "filter", "window", "sequence", "pattern", "join", "distinct", "limit", "merge"] {
        if kind.starts_with(f) {
            return f;
        }
    }
    "other"
}

// ---------------------------------------------------------------------------------------------
// Edits
// ---------------------------------------------------------------------------------------------

const EDITS: [&str; 6] = ["threshold", "add-step", "remove-step", "window", "rename", "function"];

fn other(rng: &mut Rng, lo: i64, hi: i64, cur: i64) -> i64 {
    loop {
        let v = rng.range(lo, hi);
        if v != cur {
            return v;
        }
    }
}

fn edit_stream(rng: &mut Rng, p: &Prog, idx: usize, edit: &str) -> Option<StreamDef> {
    let mut s = p.streams[idx].clone();
    match edit {
        "threshold" => match &mut s.kind {
            Kind::Filter { min_x: Some(c), .. } => *c = other(rng, 0, 4, *c),
            Kind::Merge { left_min_x: Some(c), .. } => *c = other(rng, 0, 4, *c),
            Kind::Window { pre_min_x: Some(c), .. } => *c = other(rng, 0, 3, *c),
            Kind::Window { post_min_n: Some(h), .. } => *h = other(rng, 1, 3, *h),
            Kind::Limit { n, .. } => *n = other(rng, 1, 6, *n as i64) as usize,
            Kind::Seq { steps, .. } => {
                let st = steps.iter_mut().find(|st| matches!(st.filt, Some(SFilt::Const(..))))?;
                if let Some(SFilt::Const(_, v)) = &mut st.filt {
                    *v = other(rng, 0, 4, *v);
                }
            }
            _ => return None,
        },
        "add-step" => match &mut s.kind {
            Kind::Filter { min_x: m @ None, .. } => *m = Some(rng.range(1, 3)),
            // a step appended at the very end of the chain
            Kind::Filter { emit: e @ false, .. } => *e = true,
            Kind::Window { pre_min_x: m @ None, .. } => *m = Some(rng.range(1, 3)),
            Kind::Seq { steps, .. } if steps.len() < 3 && !steps.iter().any(|s| s.all) => steps.push(SeqStep { ty: BASE_TYPES[rng.below(3)].to_string(), all: false, filt: None }),
            _ => return None,
        },
        "remove-step" => match &mut s.kind {
            Kind::Filter { min_x: Some(_), emit: e @ true, .. } if rng.chance(1, 2) => *e = false,
            Kind::Filter { min_x: m @ Some(_), .. } => *m = None,
            Kind::Window { pre_min_x: m @ Some(_), .. } => *m = None,
            Kind::Window { post_min_n: m @ Some(_), .. } => *m = None,
            Kind::Seq { steps, .. } if steps.len() == 3 && !steps[2].all => {
                steps.pop();
            }
            _ => return None,
        },
        "window" => match &mut s.kind {
            Kind::Window { wk, .. } => {
                let old = wk.clone();
                *wk = match &old {
                    WK::Count(n) => WK::Count(other(rng, 1, 4, *n as i64) as usize),
                    WK::SlidingCount(n, sl) => WK::SlidingCount(*n, other(rng, 1, 3, *sl as i64) as usize),
                    WK::Tumbling(ms) => WK::Tumbling(other(rng, 2, 6, *ms)),
                    WK::Sliding(ms, sl) => WK::Sliding(*ms, other(rng, 1, *ms - 1, *sl)),
                    WK::Session(ms) => WK::Session(other(rng, 1, 4, *ms)),
                };
                if rng.chance(1, 4) {
                    // another window kind altogether
                    let mut g = gen_wk(rng);
                    let mut guard = 0;
                    while g.name() == old.name() && guard < 10 {
                        g = gen_wk(rng);
                        guard += 1;
                    }
                    *wk = g;
                }
            }
            Kind::Join { window_ms, .. } => *window_ms = other(rng, 2, 7, *window_ms),
            _ => return None,
        },
        "function" => match &mut s.kind {
            // the body of the user function the stream calls changes; the stream's own text does not
            Kind::FnFilter { add, .. } => *add = other(rng, 0, 3, *add),
            _ => return None,
        },
        "rename" => {
            // only a stream nobody consumes
            let name = s.name.clone();
            let mut pp = p.clone();
            if pp.streams.iter_mut().any(|o| o.refs_mut().iter().any(|r| **r == name)) {
                return None;
            }
            s.name = format!("{}r", name);
        }
        _ => return None,
    }
    if s == p.streams[idx] {
        return None;
    }
    Some(s)
}

fn gen_edit(rng: &mut Rng, p: &Prog) -> Option<(Prog, &'static str, usize)> {
    for _ in 0..40 {
        let idx = rng.below(p.streams.len());
        let edit = *rng.pick(&EDITS);
        if let Some(s) = edit_stream(rng, p, idx, edit) {
            let mut p2 = p.clone();
            p2.streams[idx] = s;
            return Some((p2, edit, idx));
        }
    }
    None
}

/// Names of streams (not base types) a definition consumes.
fn consumed_streams(s: &StreamDef, p: &Prog) -> Vec<String> {
    let mut c = s.clone();
    c.refs_mut().iter().map(|r| (**r).clone()).filter(|r| p.stream(r).is_some()).collect()
}

// ---------------------------------------------------------------------------------------------
// One case
// ---------------------------------------------------------------------------------------------

/// What the oracle needs to know about one stream definition (kept in the witness for replay).
#[derive(Clone, Debug, PartialEq)]
struct SInfo {
    name: String,
    kind: String,
    stateful: bool,
    /// names of the streams (not event types) the definition consumes
    consumes: Vec<String>,
    text: String,
}

impl SInfo {
    fn json(&self) -> J {
        json!({"name": self.name, "kind": self.kind, "stateful": self.stateful, "consumes": self.consumes, "text": self.text})
    }
    fn from_json(j: &J) -> Option<SInfo> {
        Some(SInfo {
            name: j.get("name")?.as_str()?.to_string(),
            kind: j.get("kind")?.as_str()?.to_string(),
            stateful: j.get("stateful")?.as_bool()?,
            consumes: j.get("consumes")?.as_array()?.iter().filter_map(|x| x.as_str().map(|s| s.to_string())).collect(),
            text: j.get("text")?.as_str()?.to_string(),
        })
    }
}

fn infos(p: &Prog) -> Vec<SInfo> {
    p.streams
        .iter()
        .map(|s| SInfo { name: s.name.clone(), kind: s.kind_name(), stateful: s.is_stateful(), consumes: consumed_streams(s, p), text: format!("{}{}", s.decl().unwrap_or_default(), s.vpl()) })
        .collect()
}

fn find<'a>(v: &'a [SInfo], name: &str) -> Option<&'a SInfo> {
    v.iter().find(|s| s.name == name)
}

fn upstream(s: &SInfo, all: &[SInfo]) -> Vec<String> {
    let mut seen: Vec<String> = vec![];
    let mut todo = s.consumes.clone();
    while let Some(n) = todo.pop() {
        if seen.contains(&n) {
            continue;
        }
        if let Some(d) = find(all, &n) {
            todo.extend(d.consumes.clone());
        }
        seen.push(n);
    }
    seen
}

#[derive(Clone)]
struct Edited {
    src: String,
    streams: Vec<SInfo>,
    edit: String,
    stream: String,
}

#[derive(Clone)]
struct Case {
    src: String,
    streams: Vec<SInfo>,
    edited: Option<Edited>,
    ins: Vec<In>,
}

impl Case {
    fn json(&self) -> J {
        json!({"program": self.src, "streams": self.streams.iter().map(|s| s.json()).collect::<Vec<_>>(),
            "edited": self.edited.as_ref().map(|e| json!({"program": e.src, "streams": e.streams.iter().map(|s| s.json()).collect::<Vec<_>>(), "edit": e.edit, "stream": e.stream})),
            "events": self.ins.iter().map(|i| Step::Ev(i.clone()).json()).collect::<Vec<_>>()})
    }
    fn from_json(j: &J) -> Option<Case> {
        let streams = |a: &J| -> Option<Vec<SInfo>> { a.as_array()?.iter().map(SInfo::from_json).collect() };
        let edited = match j.get("edited") {
            Some(e) if !e.is_null() => Some(Edited { src: e.get("program")?.as_str()?.to_string(), streams: streams(e.get("streams")?)?, edit: e.get("edit")?.as_str()?.to_string(), stream: e.get("stream")?.as_str()?.to_string() }),
            _ => None,
        };
        Some(Case {
            src: j.get("program")?.as_str()?.to_string(),
            streams: streams(j.get("streams")?)?,
            edited,
            ins: j.get("events")?.as_array()?.iter().filter_map(|s| if let Some(Step::Ev(i)) = Step::from_json(s) { Some(i) } else { None }).collect(),
        })
    }
}

fn first_stream_divergence(names: &[(String, String)], exp: &[Vec<String>], got: &[Vec<String>]) -> Option<(usize, String, String)> {
    for (j, (e, g)) in exp.iter().zip(got.iter()).enumerate() {
        for (name, kind) in names {
            if of_stream(e, name) != of_stream(g, name) {
                return Some((j, name.clone(), kind.clone()));
            }
        }
    }
    None
}

fn whole(outs: &[Vec<String>], name: &str) -> Vec<String> {
    outs.iter().flat_map(|o| of_stream(o, name).into_iter().cloned()).collect()
}

fn check_case(case: &Case, only_cut: Option<usize>, out: &mut Partial, rt: &tokio::runtime::Runtime, verbose: bool) {
    let src = case.src.clone();
    let parse = |src: &str, out: &mut Partial| -> Option<Program> {
        match varpulis_parser::parse(src) {
            Ok(p) => Some(p),
            Err(e) => {
                out.add("programs_rejected", 1);
                if out.counters["programs_rejected"] <= 2 {
                    out.sample(json!({"rejected": src, "error": format!("parse: {}", e)}));
                }
                None
            }
        }
    };
    let Some(prog) = parse(&src, out) else { return };
    let a = match catch(std::panic::AssertUnwindSafe(|| run_plain(&prog, &case.ins, rt))) {
        Ok(Ok(a)) => a,
        Ok(Err(e)) => {
            out.add("programs_rejected", 1);
            if out.counters["programs_rejected"] <= 2 {
                out.sample(json!({"rejected": src, "error": e}));
            }
            return;
        }
        Err(pn) => {
            out.inconclusive(&format!("never-reloaded run panicked: {} at {}", pn, panic_site(&last_panic_location())));
            return;
        }
    };
    let n = case.ins.len();
    out.add("events_observed", n as u64);
    if verbose {
        for (i, o) in a.outs.iter().enumerate() {
            println!("A #{} {} routed={:?} -> {:?}", i, Step::Ev(case.ins[i].clone()).json(), a.routes[i], o);
        }
    }
    let names_p: Vec<(String, String)> = case.streams.iter().map(|s| (s.name.clone(), s.kind.clone())).collect();
    let edited = case.edited.as_ref().and_then(|ed| {
        let s2 = ed.src.clone();
        let pr = parse(&s2, out)?;
        // the edited program must load on its own
        match fresh(&pr) {
            Ok(_) => Some((ed, pr)),
            Err(err) => {
                out.add("edited_programs_rejected", 1);
                if out.counters["edited_programs_rejected"] <= 2 {
                    out.sample(json!({"rejected_edit": s2, "error": err}));
                }
                None
            }
        }
    });
    let cuts: Vec<usize> = match only_cut {
        Some(c) => vec![c],
        None => (1..n).collect(),
    };
    for c in cuts {
        let later: usize = a.outs[c..].iter().map(|o| o.len()).sum();
        // ------------------------------------------------------------------ same-program reload
        out.eval();
        let wit = |extra: J| json!({"case": case.json(), "reload_after_events": c, "detail": extra});
        match catch(std::panic::AssertUnwindSafe(|| run_reload(&prog, &prog, &case.ins, c, rt))) {
            Err(pn) => {
                let site = panic_site(&last_panic_location());
                out.violation(&format!("reload/same-program/panic/{}", site.split(':').next().unwrap_or("")), "reloading the same program panicked (or the reloaded engine did)", wit(json!({"panic": pn, "site": site})));
            }
            Ok(Err(e)) => out.inconclusive(&format!("reloaded engine failed where the other did not: {}", e)),
            Ok(Ok(Err(e))) => out.violation("reload/same-program/error", "reload(P) of the running program P fails", wit(json!({"error": e}))),
            Ok(Ok(Ok(b))) => {
                if b.state_items_at_reload > 0 && later > 0 {
                    out.nontrivial(&(src.clone(), case.ins.clone(), c, 0u8));
                }
                out.add("outputs_compared", b.run.outs[c..].iter().map(|o| o.len() as u64).sum());
                if verbose {
                    println!("same-program reload after {} events: report {}", c, b.report);
                    for j in c..n {
                        println!("B  #{} routed={:?} -> {:?}{}", j, b.run.routes[j], b.run.outs[j], if b.run.outs[j] != a.outs[j] { "   <-- differs" } else { "" });
                    }
                }
                // Self-check of the monitor (off unless C23_PERTURB=state): expect what an engine that
                // lost all operator state at the reload would produce; stateful streams must then be flagged.
                let perturbed;
                let a = if std::env::var("C23_PERTURB").ok().as_deref() == Some("state") {
                    let mut p = a.clone();
                    if let Ok(f) = run_plain(&prog, &case.ins[c..], rt) {
                        for (j, o) in f.outs.into_iter().enumerate() {
                            p.outs[c + j] = o;
                        }
                    }
                    perturbed = p;
                    &perturbed
                } else {
                    &a
                };
                if b.run.outs[c..] != a.outs[c..] {
                    let d = first_stream_divergence(&names_p, &a.outs[c..], &b.run.outs[c..]);
                    match d {
                        None => out.violation("reload/same-program/order-only", "after reload(P) every stream produces the same outputs but interleaved differently across streams", wit(json!({"expected_after": a.outs[c..].to_vec(), "observed_after": b.run.outs[c..].to_vec(), "report": b.report}))),
                        Some((j, name, kind)) => {
                            let dstep = c + j;
                            let route_lost = lost_route(&a.routes[c..=dstep], &b.run.routes[c..=dstep], &name);
                            let symptom = if route_lost {
                                "route-lost"
                            } else {
                                // behaves like a fresh stream from c?
                                let f = catch(std::panic::AssertUnwindSafe(|| run_plain(&prog, &case.ins[c..], rt)));
                                match f {
                                    Ok(Ok(f)) if whole(&f.outs, &name) == whole(&b.run.outs[c..], &name) => "state-reset",
                                    _ => "different",
                                }
                            };
                            out.violation(
                                &(if route_lost { format!("reload/route-lost/{}", family(&kind)) } else { format!("reload/unchanged-stream/{}/{}", family(&kind), symptom) }),
                                "after a reload a stream whose definition (and upstream) did not change no longer produces the outputs of the never-reloaded engine",
                                wit(json!({"mode": "same-program", "stream": name, "stream_kind": kind, "first_diverging_event_index": dstep, "expected_of_step": a.outs[dstep], "observed_of_step": b.run.outs[dstep],
                                    "expected_after": a.outs[c..].to_vec(), "observed_after": b.run.outs[c..].to_vec(), "routed_expected": a.routes[c..=dstep].to_vec(), "routed_observed": b.run.routes[c..=dstep].to_vec(), "report": b.report})),
                            );
                        }
                    }
                }
            }
        }
        // ------------------------------------------------------------------ edited program
        let Some((ed, prog2)) = &edited else { continue };
        let edit = ed.edit.as_str();
        out.add(&format!("reload_points_with_edit/{}", edit), 1);
        out.eval();
        let b = match catch(std::panic::AssertUnwindSafe(|| run_reload(&prog, prog2, &case.ins, c, rt))) {
            Err(pn) => {
                let site = panic_site(&last_panic_location());
                out.violation(&format!("reload/changed-stream/{}/panic/{}", edit, site.split(':').next().unwrap_or("")), "reloading an edited program panicked (or the reloaded engine did)", wit(json!({"panic": pn, "site": site})));
                continue;
            }
            Ok(Err(e)) => {
                out.inconclusive(&format!("reloaded engine failed where the other did not: {}", e));
                continue;
            }
            Ok(Ok(Err(e))) => {
                out.violation(&format!("reload/changed-stream/{}/error", edit), "reload(P') fails although P' loads into a fresh engine", wit(json!({"error": e})));
                continue;
            }
            Ok(Ok(Ok(b))) => b,
        };
        let f = match catch(std::panic::AssertUnwindSafe(|| run_plain(prog2, &case.ins[c..], rt))) {
            Ok(Ok(f)) => f,
            _ => {
                out.inconclusive("fresh engine of the edited program failed");
                continue;
            }
        };
        if b.state_items_at_reload > 0 && (later > 0 || f.outs.iter().any(|o| !o.is_empty())) {
            out.nontrivial(&(src.clone(), ed.src.clone(), case.ins.clone(), c, 1u8));
        }
        if verbose {
            println!("edit {} of {}: reload after {} events: report {}", edit, ed.stream, c, b.report);
            for j in c..n {
                println!("B' #{} routed={:?} -> {:?}   | F routed={:?} -> {:?}", j, b.run.routes[j], b.run.outs[j], f.routes[j - c], f.outs[j - c]);
            }
        }
        let changed_name = ed.stream.clone();
        let mut reported = false;
        for s2 in &ed.streams {
            let kind = s2.kind.clone();
            let fam = family(&kind);
            let changed = find(&case.streams, &s2.name).map_or(true, |s| s.text != s2.text);
            let ups = upstream(s2, &ed.streams);
            if changed {
                // report classification
                let renamed = find(&case.streams, &s2.name).is_none();
                let ok = if renamed { b.added.contains(&s2.name) } else { b.updated.contains(&s2.name) };
                // (an edited function leaves the stream's own text as it was: the report is not judged there)
                if !ok && edit != "function" {
                    out.violation(
                        &format!("reload/report/changed-stream-not-updated/{}/{}", edit, fam),
                        "ReloadReport does not list a stream whose definition changed as updated (renamed: added)",
                        wit(json!({"stream": s2.name, "stream_kind": kind, "report": b.report})),
                    );
                }
                // judge against the fresh engine only if nothing stateful feeds the stream
                if ups.iter().any(|u| find(&ed.streams, u).map_or(true, |d| d.stateful)) {
                    out.add("changed_streams_not_judged_stateful_upstream", 1);
                    continue;
                }
                out.add("outputs_compared", f.outs.iter().map(|o| of_stream(o, &s2.name).len() as u64).sum());
                let fw = whole(&f.outs, &s2.name);
                let bw = whole(&b.run.outs[c..], &s2.name);
                let per_step_equal = (c..n).all(|j| of_stream(&b.run.outs[j], &s2.name) == of_stream(&f.outs[j - c], &s2.name));
                if per_step_equal {
                    continue;
                }
                let dstep = (c..n).find(|j| of_stream(&b.run.outs[*j], &s2.name) != of_stream(&f.outs[*j - c], &s2.name)).unwrap_or(c);
                let route_lost = lost_route(&f.routes[..=(dstep - c)], &b.run.routes[c..=dstep], &s2.name);
                let symptom = if route_lost {
                    "route-lost"
                } else if !renamed && ((edit != "function" && !b.updated.contains(&s2.name)) || (bw == whole(&a.outs[c..], &s2.name) && bw != fw)) {
                    // the engine itself reports the stream as not updated (it then keeps the old
                    // StreamDefinition), or the stream behaves exactly like the old program
                    "old-definition-kept"
                } else {
                    "different"
                };
                if !reported {
                    reported = true;
                    out.violation(
                        &(match symptom {
                            "route-lost" => format!("reload/route-lost/{}", fam),
                            "old-definition-kept" => format!("reload/old-definition-kept/{}/{}", edit, fam),
                            _ => format!("reload/changed-stream/{}/{}/{}", edit, fam, symptom),
                        }),
                        "after reload(P') a stream whose definition changed does not behave like the same stream of a fresh engine of P' fed the remaining input",
                        wit(json!({"stream": s2.name, "stream_kind": kind, "first_diverging_event_index": dstep, "expected_fresh_engine_outputs": fw, "observed_outputs": bw, "never_reloaded_old_program_outputs": whole(&a.outs[c..], &s2.name),
                            "routed_expected": f.routes[..=(dstep - c)].to_vec(), "routed_observed": b.run.routes[c..=dstep].to_vec(), "report": b.report})),
                    );
                }
            } else {
                // unchanged definition: judged only if its whole upstream is unchanged too
                if s2.name == changed_name || ups.iter().any(|u| find(&case.streams, u).map(|d| &d.text) != find(&ed.streams, u).map(|d| &d.text)) {
                    out.add("unchanged_streams_not_judged_changed_upstream", 1);
                    continue;
                }
                out.add("outputs_compared", a.outs[c..].iter().map(|o| of_stream(o, &s2.name).len() as u64).sum());
                let per_step_equal = (c..n).all(|j| of_stream(&b.run.outs[j], &s2.name) == of_stream(&a.outs[j], &s2.name));
                if per_step_equal {
                    continue;
                }
                let dstep = (c..n).find(|j| of_stream(&b.run.outs[*j], &s2.name) != of_stream(&a.outs[*j], &s2.name)).unwrap_or(c);
                let route_lost = lost_route(&a.routes[c..=dstep], &b.run.routes[c..=dstep], &s2.name);
                let symptom = if route_lost {
                    "route-lost"
                } else if whole(&f.outs, &s2.name) == whole(&b.run.outs[c..], &s2.name) {
                    "state-reset"
                } else {
                    "different"
                };
                if !reported {
                    reported = true;
                    out.violation(
                        &(if route_lost { format!("reload/route-lost/{}", fam) } else { format!("reload/unchanged-stream/{}/{}", fam, symptom) }),
                        "after a reload a stream whose definition (and upstream) did not change no longer produces the outputs of the never-reloaded engine",
                        wit(json!({"mode": format!("edit-{}", edit), "stream": s2.name, "stream_kind": kind, "first_diverging_event_index": dstep, "expected_outputs": whole(&a.outs[c..], &s2.name), "observed_outputs": whole(&b.run.outs[c..], &s2.name),
                            "routed_expected": a.routes[c..=dstep].to_vec(), "routed_observed": b.run.routes[c..=dstep].to_vec(), "report": b.report})),
                    );
                }
            }
        }
    }
}

fn gen_case(rng: &mut Rng, thorough: bool) -> Case {
    let opts = POpts { max_streams: if rng.chance(1, 3) { 1 } else { 4 }, watermarks: false, patterns: true, merges: true, functions: true };
    let mut p = gen_prog(rng, &opts);
    let mut guard = 0;
    while !p.streams.iter().any(|s| s.is_stateful()) && guard < 20 {
        p = gen_prog(rng, &opts);
        guard += 1;
    }
    let p2 = gen_edit(rng, &p);
    let io = IOpts { submillis: false, out_of_order_pct: 0, wm_sources: vec![], vars: false, lag: None };
    let len = if thorough { 10 + rng.below(26) } else { 8 + rng.below(13) };
    let ins: Vec<In> = gen_steps(rng, len, &io).into_iter().filter_map(|s| if let Step::Ev(i) = s { Some(i) } else { None }).collect();
    let edited = p2.map(|(p2, e, i)| Edited { src: p2.vpl(), streams: infos(&p2), edit: e.to_string(), stream: p.streams[i].name.clone() });
    Case { src: p.vpl(), streams: infos(&p), edited, ins }
}

fn main() {
    let args = Args::parse();
    install_quiet_panic_hook();
    watchdog("C23", args.pick(1500, 14400));
    let mut rep = Report::new("C23", "exploration", &args);
    rep.rule = "programs of 1-4 streams with >=1 stateful stream (all window kinds plain/partitioned, 2-3 step sequences incl. `all` and .not, named patterns, joins, distinct, limit, merge, filters, derived chains) x 8-20 (thorough 10-35) events of types A/B/C/N x EVERY reload point 1..len-1, each with (i) reload of the same program and (ii) reload of the program with one random edit: threshold change with the same operator count (filter / window pre- and post-filter / limit / sequence step constant), changed body of a user function a filter calls, added step, removed step (.where, last sequence step), changed window (parameter or kind; join window), renamed stream. Compared: all outputs after the reload point (same program: ordered; edited: per stream) against the never-reloaded engine (unchanged streams) or a fresh engine of the edited program fed the remaining input (changed streams with stateless upstream); ReloadReport classification of changed streams. Non-trivial: reload point at which create_checkpoint() of the engine holds >=1 state item and >=1 output follows; distinct by (program, edit, events, point).".into();
    rep.assume("a changed stream is compared with a fresh engine only when every stream it (transitively) consumes is stateless; an unchanged stream is compared with the never-reloaded engine only when its whole upstream is unchanged; removed (old-name) streams are not judged");
    rep.assume("outputs compared by stream name and data fields; emission wall-clock timestamps excluded; no `.within`, no watermarks in generated programs");

    if let Some(path) = &args.replay {
        let txt = std::fs::read_to_string(path).expect("replay file");
        let doc: J = serde_json::from_str(&txt).expect("replay json");
        let w = doc.get("witness").unwrap_or(&doc);
        let case = Case::from_json(w.get("case").unwrap_or(w)).expect("witness.case");
        let cut = w.get("reload_after_events").and_then(|c| c.as_u64()).map(|c| c as usize);
        let mut out = Partial::default();
        let rt = rt();
        println!("program:\n{}", case.src);
        if let Some(e) = &case.edited {
            println!("edited program ({} of {}):\n{}", e.edit, e.stream, e.src);
        }
        check_case(&case, cut, &mut out, &rt, true);
        // replay prints what it sees; it does not write evidence or replay files
        let mut sigs: Vec<&String> = out.violations.iter().map(|v| &v.0).collect();
        sigs.dedup();
        for sg in &sigs {
            println!("VIOLATION property={} signature={}", rep.property, sg);
        }
        for w in &out.inconclusive {
            println!("INCONCLUSIVE property={} reason={}", rep.property, w);
        }
        std::process::exit(if !sigs.is_empty() { 1 } else if !out.inconclusive.is_empty() { 2 } else { 0 });
    }

    let threads = ncpu();
    let cases = args.pick(1000usize, 25_000usize);
    let per_thread = cases / threads + 1;
    let thorough = args.thorough();
    let parts = parallel(threads, args.seed ^ 0xC23, move |_ti, mut rng| {
        let mut out = Partial::default();
        let rt = rt();
        for _ in 0..per_thread {
            let c = gen_case(&mut rng, thorough);
            let before = out.violations.len();
            check_case(&c, None, &mut out, &rt, false);
            if out.samples.len() < 2 && out.violations.len() == before && c.streams.len() >= 2 {
                out.sample(json!({"program": c.src, "edit": c.edited.as_ref().map(|e| json!({"kind": e.edit, "edited_program": e.src})), "events": c.ins.len()}));
            }
        }
        out
    });
    for p in parts {
        rep.merge(p);
    }
    std::process::exit(rep.finish());
}
