//! C18 — multi-worker simulation gives the same results as a single worker.
//! Monitor (differential on the REAL CLI binary, run as a subprocess): `varpulis simulate
//! --immediate [--preload] --workers N --verbose` for N in 2..8 against N=1; the sorted multisets
//! of `OUTPUT EVENT:` lines must be equal. A watchdog timeout is inconclusive, never a violation.
use serde_json::json;
use std::collections::BTreeMap;
use std::path::{Path, PathBuf};
use std::process::{Command, Stdio};
use std::time::{Duration, Instant};
use vh::*;

#[derive(Clone, Debug)]
struct Case {
    kind: &'static str,
    vpl: String,
    evt: String,
    n_events: usize,
}

fn gen_case(rng: &mut Rng) -> Case {
    let n_events = 20 + rng.below(180);
    let nkeys = 1 + rng.below(8);
    let r = rng.below(6);
    // Events without the key field form ONE partition of their own. For the single-type window
    // programs (kinds 3, 4) they are part of the workload; for sequences over two event types the
    // CLI pins key-less events by event type, which already splits that partition on the unchanged
    // tree - the statement's premise (state partitioned by the selected key) does not cover them.
    let keyless = (r == 3 || r == 4) && rng.chance(1, 2);
    let mut evt = String::new();
    for i in 0..n_events {
        let ty = ["A", "B"][rng.below(2)];
        if keyless && rng.chance(1, 6) {
            evt.push_str(&format!("{} {{ uid: {}, x: {} }}\n", ty, i + 1, rng.range(0, 5)));
        } else {
            evt.push_str(&format!("{} {{ uid: {}, x: {}, k: {} }}\n", ty, i + 1, rng.range(0, 5), 1 + rng.below(nkeys)));
        }
    }
    let (kind, vpl) = match r {
        0 => ("stateless-filter", format!("stream S1 = A\n    .where(x >= {})\n    .emit(uid: uid, x: x, k: k)\n", rng.range(0, 4))),
        1 => (
            "stateless-two-streams",
            format!(
                "stream S1 = A\n    .where(x >= {})\n    .emit(uid: uid, x: x)\n\nstream S2 = B\n    .where(x < {})\n    .emit(uid: uid, k: k)\n",
                rng.range(0, 4),
                rng.range(1, 5)
            ),
        ),
        2 => ("stateless-derived", format!("stream S1 = A\n    .where(x >= {})\n    .emit(uid: uid, x: x, k: k)\n\nstream S2 = S1\n    .where(x >= {})\n    .emit(uid: uid)\n", rng.range(0, 2), rng.range(2, 4))),
        3 => (
            "keyed-count-window",
            format!(
                "stream W = A\n    .partition_by(k)\n    .window({})\n    .aggregate(n: count(), s: sum(uid), f: first(uid), l: last(uid), kk: last(k))\n    .emit(n: n, s: s, f: f, l: l, kk: kk)\n",
                1 + rng.below(4)
            ),
        ),
        4 => (
            "keyed-sliding-count-window",
            format!(
                "stream W = A\n    .partition_by(k)\n    .window({}, sliding: {})\n    .aggregate(n: count(), s: sum(uid), f: first(uid), l: last(uid))\n    .emit(n: n, s: s, f: f, l: l)\n",
                2 + rng.below(3),
                1 + rng.below(2)
            ),
        ),
        _ => (
            "keyed-sequence",
            format!(
                "stream Q = A as a\n    -> B where x {} a.x as b\n    .partition_by(k)\n    .emit(u0: a.uid, u1: b.uid)\n",
                ["==", ">=", ">", "<="][rng.below(4)]
            ),
        ),
    };
    Case { kind, vpl, evt, n_events }
}

enum Run {
    Lines(Vec<String>),
    Count(u64),
    Failed(String),
    Timeout,
}

fn run_cli(bin: &Path, dir: &Path, workers: usize, preload: bool, quiet: bool) -> Run {
    let mut cmd = Command::new(bin);
    cmd.arg("simulate").arg("--program").arg(dir.join("p.vpl")).arg("--events").arg(dir.join("e.evt")).arg("--immediate").arg("--verbose").arg("--workers").arg(workers.to_string());
    if preload {
        cmd.arg("--preload");
    }
    if quiet {
        cmd.arg("--quiet");
    }
    cmd.env("RUST_LOG", "error").stdout(Stdio::piped()).stderr(Stdio::piped());
    let mut child = match cmd.spawn() {
        Ok(c) => c,
        Err(e) => return Run::Failed(format!("spawn: {}", e)),
    };
    let t0 = Instant::now();
    loop {
        match child.try_wait() {
            Ok(Some(_)) => break,
            Ok(None) => {
                if t0.elapsed() > Duration::from_secs(60) {
                    let _ = child.kill();
                    let _ = child.wait();
                    return Run::Timeout;
                }
                std::thread::sleep(Duration::from_millis(5));
            }
            Err(e) => return Run::Failed(format!("wait: {}", e)),
        }
    }
    let out = match child.wait_with_output() {
        Ok(o) => o,
        Err(e) => return Run::Failed(format!("output: {}", e)),
    };
    if !out.status.success() {
        return Run::Failed(format!("exit {:?}: {}", out.status.code(), String::from_utf8_lossy(&out.stderr).chars().take(400).collect::<String>()));
    }
    let text = String::from_utf8_lossy(&out.stdout).to_string();
    if quiet {
        // reliable count: aggregated from the engines' own counters, no reporting task involved
        return match text.lines().find_map(|l| l.strip_prefix("Output events emitted:")).and_then(|v| v.trim().parse::<u64>().ok()) {
            Some(n) => Run::Count(n),
            None => Run::Failed("no 'Output events emitted' line".into()),
        };
    }
    let mut lines: Vec<String> = text.lines().filter(|l| l.starts_with("OUTPUT EVENT:")).map(|l| l.to_string()).collect();
    lines.sort();
    Run::Lines(lines)
}

fn build_cli(verif_dir: &Path) -> Result<PathBuf, String> {
    let target = verif_dir.join("target").join("cli");
    let o = Command::new("cargo")
        .args(["build", "--offline", "--manifest-path", &format!("{}/Cargo.toml", std::env::var("VERIF_REPO").unwrap_or_else(|_| "/repo".into())), "-p", "varpulis-cli", "--bin", "varpulis", "--target-dir"])
        .arg(&target)
        .env("CARGO_NET_OFFLINE", "true")
        .env_remove("RUSTFLAGS")
        .output()
        .map_err(|e| format!("cargo: {}", e))?;
    if !o.status.success() {
        return Err(String::from_utf8_lossy(&o.stderr).chars().rev().take(1500).collect::<String>().chars().rev().collect());
    }
    Ok(target.join("debug").join("varpulis"))
}

fn main() {
    let args = Args::parse();
    install_quiet_panic_hook();
    let mut rep = Report::new("C18", "exploration", &args);
    rep.rule = "stateless programs (filters, two streams, a derived stream) and programs whose only state is partitioned by k (partitioned count / sliding-count windows with uid fingerprints, partitioned 2-step sequences); generated .evt files of 20-200 events over 1-8 integer keys, events carrying k (for the single-type window programs also events WITHOUT k, which form one partition of their own) (<= 800 outputs so the 1000 x N output channel cannot drop); the real `varpulis simulate --immediate --verbose --workers N` binary with and without --preload, N in 2..8, compared with N=1 as sorted multisets of OUTPUT EVENT lines. Non-trivial: run with N>=2 whose reference has outputs for >=2 keys (or >=2 outputs for stateless programs); distinct by (program, event file, N, mode).".into();
    rep.assume("the binary is built from /repo's current tree (cargo build -p varpulis-cli --bin varpulis, dev profile, hook guard off) before the runs");
    rep.assume("a subprocess that exceeds 60 s is inconclusive (loaded machine), never a violation");
    let bin = match build_cli(&args.verif_dir) {
        Ok(b) => b,
        Err(e) => {
            rep.inconclusive(&format!("could not build the CLI binary from the current tree: {}", e));
            std::process::exit(rep.finish());
        }
    };
    // the watchdog covers the runs, not the (possibly cold) build of the CLI
    watchdog("C18", args.pick(1500, 14400));
    let cases = args.pick(16usize, 600usize);
    let threads = ncpu().min(8);
    let per_thread = cases / threads + 1;
    let scratch = args.verif_dir.join("target").join("tmp-c18");
    let _ = std::fs::create_dir_all(&scratch);
    let parts = parallel(threads, args.seed ^ 0xC18, move |ti, mut rng| {
        let mut out = Partial::default();
        let dir = scratch.join(format!("t{}", ti));
        let _ = std::fs::create_dir_all(&dir);
        for _ in 0..per_thread {
            let c = gen_case(&mut rng);
            let _ = std::fs::write(dir.join("p.vpl"), &c.vpl);
            let _ = std::fs::write(dir.join("e.evt"), &c.evt);
            // The CLI prints OUTPUT EVENT lines from a reporting task and only waits 100 ms for it
            // before exiting: on a loaded machine lines can be missing from the report although the
            // events were emitted. The engines' own counters (--quiet) are not affected, so: counts are
            // compared always, multisets only between reports that are complete w.r.t. those counts.
            let count_of = |n: usize, preload: bool| -> Option<u64> {
                match run_cli(&bin, &dir, n, preload, true) {
                    Run::Count(c) => Some(c),
                    _ => None,
                }
            };
            let complete_lines = |n: usize, preload: bool, want: u64, out: &mut Partial| -> Option<Vec<String>> {
                for _ in 0..4 {
                    match run_cli(&bin, &dir, n, preload, false) {
                        Run::Lines(l) if l.len() as u64 == want => return Some(l),
                        Run::Lines(_) => out.add("verbose_reports_incomplete_at_exit", 1),
                        Run::Timeout => {
                            out.inconclusive("a run hit the 60 s watchdog");
                            return None;
                        }
                        _ => return None,
                    }
                }
                None
            };
            let ref_count = match count_of(1, true) {
                Some(c) => c,
                None => {
                    out.add("reference_runs_failed", 1);
                    continue;
                }
            };
            let reference = match complete_lines(1, true, ref_count, &mut out) {
                Some(l) => l,
                None => {
                    out.add("reference_report_never_complete", 1);
                    vec![]
                }
            };
            let have_ref_lines = reference.len() as u64 == ref_count;
            let ns: Vec<usize> = { let mut v = vec![2, 3 + rng.below(3), 6 + rng.below(3)]; v.dedup(); v };
            for n in ns {
                for preload in [true, false] {
                    out.eval();
                    let mode = if preload { "preload" } else { "streaming" };
                    let cnt = match count_of(n, preload) {
                        Some(c) => c,
                        None => {
                            out.violation(&format!("{}/{}/run-failed", c.kind, mode), "multi-worker simulate fails where the single-worker run succeeds", json!({"program": c.vpl, "events_file": c.evt, "workers": n, "mode": mode}));
                            continue;
                        }
                    };
                    out.add("output_counts_compared", 1);
                    if ref_count >= 2 {
                        out.nontrivial(&(c.vpl.clone(), c.evt.clone(), n, preload));
                    }
                    if cnt != ref_count {
                        let how = if cnt < ref_count { "fewer" } else { "more" };
                        out.violation(&format!("{}/{}/{}", c.kind, mode, how), "multi-worker simulate emits a different number of output events than one worker (engine counters)", json!({"program": c.vpl, "events_file": c.evt, "workers": n, "mode": mode, "reference_outputs": ref_count, "outputs": cnt}));
                        continue;
                    }
                    if !have_ref_lines {
                        continue;
                    }
                    if let Some(l) = complete_lines(n, preload, cnt, &mut out) {
                        out.add("output_multisets_compared", 1);
                        if l != reference {
                            let mut a: BTreeMap<&String, i64> = BTreeMap::new();
                            for x in &reference { *a.entry(x).or_insert(0) += 1; }
                            for x in &l { *a.entry(x).or_insert(0) -= 1; }
                            let missing: Vec<&&String> = a.iter().filter(|(_, c)| **c > 0).map(|(k, _)| k).take(5).collect();
                            let extra: Vec<&&String> = a.iter().filter(|(_, c)| **c < 0).map(|(k, _)| k).take(5).collect();
                            out.violation(&format!("{}/{}/different", c.kind, mode), "multi-worker simulate emits a different multiset of output events than one worker", json!({"program": c.vpl, "events_file": c.evt, "workers": n, "mode": mode, "reference_outputs": reference.len(), "outputs": l.len(), "missing": missing, "extra": extra}));
                        }
                    }
                }
            }
            if out.samples.len() < 2 && ref_count >= 2 {
                out.sample(json!({"kind": c.kind, "program": c.vpl, "events": c.n_events, "reference_outputs": ref_count, "first_output": reference.first()}));
            }
        }
        let _ = std::fs::remove_dir_all(&dir);
        out
    });
    for p in parts {
        rep.merge(p);
    }
    std::process::exit(rep.finish());
}
