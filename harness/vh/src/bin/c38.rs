//! C38 — coordinator views stay in sync with the replicated state and are not reverted.
//!
//! A real single-node Raft (`varpulis_cluster::raft::bootstrap`, MemStore) elects itself; a real
//! `Coordinator::with_raft` sits behind the real REST handlers (`cluster_routes`, driven with
//! `warp::test`) and talks to in-process mock workers on loopback. Histories mix API operations
//! (register, heartbeat, deregister, deploy, teardown, manual migrate, drain, rebalance, connector
//! create/update/delete, the scaling policy main.rs installs at start-up) with iterations of the
//! coordinator health loop executed in the order crates/varpulis-cli/src/main.rs performs them
//! (update_raft_role, sync_from_raft, health_sweep, WorkerStatusChanged + handle_worker_failure,
//! check_connector_health, cleanup, reconcile_placements + rebalance when pending, evaluate_scaling,
//! fire_scaling_webhook). That order is asserted against the source text of main.rs; if it no longer
//! matches, the check is inconclusive.
//!
//! Monitor, after every step (= every point where the coordinator lock is free, so a health-loop
//! iteration — which starts with `sync_from_raft` — could run): `view = snapshot(coord)`;
//! `coord.sync_from_raft()`; `snapshot(coord)` must equal `view` (heartbeat timestamps excluded).
//! A shadow follower (a second `Coordinator::with_raft` on the same Raft node's replicated state, which
//! only ever calls `sync_from_raft`) must show the same view as the leader.
//!
//! Signature = `<kind of the step whose effect the re-sync changed>/<state component>`.
#[path = "../gatemock.rs"]
mod gatemock;

use serde_json::{json, Value as J};
use std::collections::{BTreeMap, BTreeSet};
use std::sync::Arc;
use std::time::{Duration, Instant};
use varpulis_cluster::coordinator::Coordinator;
use varpulis_cluster::raft::ClusterCommand;
use varpulis_cluster::{ScalingPolicy, SharedCoordinator, WorkerId, WorkerStatus};
use vh::*;
use warp::Filter;

static PERTURB: std::sync::OnceLock<String> = std::sync::OnceLock::new();
fn perturb(name: &str) -> bool {
    PERTURB.get().map(|p| p == name).unwrap_or(false)
}

static SYNC_REFRESHED: std::sync::atomic::AtomicU64 = std::sync::atomic::AtomicU64::new(0);
static SYNC_KEPT_STALE: std::sync::atomic::AtomicU64 = std::sync::atomic::AtomicU64::new(0);

const PLACEMENT_KINDS: &[&str] = &["deploy", "teardown", "migrate", "drain", "rebalance", "auto-rebalance", "reconcile", "failover"];

type Routes = warp::filters::BoxedFilter<(warp::reply::Response,)>;
const TIMEOUT: Duration = Duration::from_secs(30);

// =====================================================================================
// The order of the health loop in main.rs (source pattern check)
// =====================================================================================

const LOOP_ORDER: &[&str] = &[
    "Spawn periodic health sweep",
    "health_coordinator.write().await",
    "coord.update_raft_role();",
    "coord.sync_from_raft();",
    "if !coord.ha_role.is_writer()",
    "coord.health_sweep();",
    "ClusterCommand::WorkerStatusChanged",
    "coord.handle_worker_failure(&wid).await;",
    "coord.check_connector_health();",
    "coord.cleanup_completed_migrations(",
    "if coord.pending_rebalance {",
    "coord.reconcile_placements().await;",
    "coord.rebalance().await",
    "coord.evaluate_scaling()",
    "coord.fire_scaling_webhook().await;",
];

fn main_rs_order_matches() -> Result<(), String> {
    let repo = std::env::var("VERIF_REPO").unwrap_or_else(|_| "/repo".into());
    let path = format!("{}/crates/varpulis-cli/src/main.rs", repo);
    let src = std::fs::read_to_string(&path).map_err(|e| format!("cannot read {}: {}", path, e))?;
    let mut pos = 0usize;
    for pat in LOOP_ORDER {
        match src[pos..].find(pat) {
            Some(i) => pos += i + pat.len(),
            None => return Err(format!("health loop of main.rs no longer contains `{}` after the previous step (order changed?)", pat)),
        }
    }
    // the loop body must end (next `tokio::spawn` or the health route) after the last pattern and the
    // sync must come before the sweep within one loop body: no second `loop {` in between
    Ok(())
}

// =====================================================================================
// Snapshot of the cluster view (what sync_from_raft can overwrite; heartbeat timestamps excluded)
// =====================================================================================

#[derive(Clone, Debug, PartialEq)]
struct View {
    /// id -> (address, api_key, status, cpu, running, max, assigned, events)
    workers: BTreeMap<String, J>,
    groups: BTreeMap<String, J>,
    connectors: BTreeMap<String, J>,
    scaling: J,
}

fn snapshot(c: &Coordinator) -> View {
    let mut workers = BTreeMap::new();
    for (id, w) in &c.workers {
        workers.insert(
            id.0.clone(),
            json!({"address": w.address, "api_key": w.api_key, "status": w.status.to_string(),
                "cpu_cores": w.capacity.cpu_cores, "pipelines_running": w.capacity.pipelines_running, "max_pipelines": w.capacity.max_pipelines,
                "assigned_pipelines": w.assigned_pipelines, "events_processed": w.events_processed}),
        );
    }
    let mut groups = BTreeMap::new();
    for (id, g) in &c.pipeline_groups {
        groups.insert(id.clone(), serde_json::to_value(g).unwrap_or(J::Null));
    }
    let mut connectors = BTreeMap::new();
    for (n, k) in &c.connectors {
        connectors.insert(n.clone(), serde_json::to_value(k).unwrap_or(J::Null));
    }
    View { workers, groups, connectors, scaling: serde_json::to_value(&c.scaling_policy).unwrap_or(J::Null) }
}

fn view_json(v: &View) -> J {
    json!({"workers": v.workers, "groups": v.groups.iter().map(|(k, g)| (k.clone(), json!({"name": g["name"], "status": g["status"], "placements": g["placements"]}))).collect::<BTreeMap<_, _>>(), "connectors": v.connectors, "scaling_policy": v.scaling})
}

/// State components (finite) in which two views differ, with a detail each.
fn diff(before: &View, after: &View) -> Vec<(&'static str, J)> {
    let mut out: Vec<(&'static str, J)> = vec![];
    let bw: BTreeSet<&String> = before.workers.keys().collect();
    let aw: BTreeSet<&String> = after.workers.keys().collect();
    if bw != aw {
        out.push(("worker-set", json!({"before_resync": bw, "after_resync": aw})));
    }
    let mut book = vec![];
    let mut status = vec![];
    let mut ident = vec![];
    for id in bw.intersection(&aw) {
        let (b, a) = (&before.workers[*id], &after.workers[*id]);
        for k in ["assigned_pipelines", "pipelines_running", "events_processed"] {
            if b[k] != a[k] {
                book.push(json!({"worker": id, "field": k, "before_resync": b[k], "after_resync": a[k]}));
            }
        }
        if b["status"] != a["status"] {
            status.push(json!({"worker": id, "before_resync": b["status"], "after_resync": a["status"]}));
        }
        for k in ["address", "api_key", "cpu_cores", "max_pipelines"] {
            if b[k] != a[k] {
                ident.push(json!({"worker": id, "field": k, "before_resync": b[k], "after_resync": a[k]}));
            }
        }
    }
    if !book.is_empty() {
        out.push(("worker-bookkeeping", json!(book)));
    }
    if !status.is_empty() {
        out.push(("worker-status", json!(status)));
    }
    if !ident.is_empty() {
        out.push(("worker-identity", json!(ident)));
    }
    let bg: BTreeSet<&String> = before.groups.keys().collect();
    let ag: BTreeSet<&String> = after.groups.keys().collect();
    if bg != ag {
        out.push(("group-set", json!({"before_resync": bg, "after_resync": ag})));
    }
    let mut gd = vec![];
    for id in bg.intersection(&ag) {
        if before.groups[*id] != after.groups[*id] {
            gd.push(json!({"group": id, "placements_before_resync": before.groups[*id]["placements"], "placements_after_resync": after.groups[*id]["placements"],
                "status_before_resync": before.groups[*id]["status"], "status_after_resync": after.groups[*id]["status"]}));
        }
    }
    if !gd.is_empty() {
        out.push(("group-placements", json!(gd)));
    }
    if before.connectors != after.connectors {
        out.push(("connectors", json!({"before_resync": before.connectors, "after_resync": after.connectors})));
    }
    if before.scaling != after.scaling {
        out.push(("scaling-policy", json!({"before_resync": before.scaling, "after_resync": after.scaling})));
    }
    out
}

// =====================================================================================
// Operations
// =====================================================================================

#[derive(Clone, Debug, Hash, PartialEq, Eq)]
enum Op {
    Register { worker: String },
    Heartbeat { worker: String, events: u64 },
    Deregister { worker: String },
    /// `failing`: names of pipelines whose deploy call every worker answers with HTTP 500
    Deploy { group: String, pipelines: Vec<(String, Option<String>)>, failing: Vec<String> },
    Teardown { nth_group: usize },
    Migrate { nth_placement: usize, target: String },
    Drain { worker: String },
    Rebalance,
    /// one iteration of the health loop, main.rs order
    Tick,
    /// the same, but the sweep sees `worker`'s heartbeat older than the timeout (back-dated between the
    /// loop's sync and its sweep: in the unchanged tree the sync refreshes the heartbeat of every worker the
    /// replicated state calls ready, so a back-date before the iteration would be overwritten)
    TickWorkerStale { worker: String },
    ConnectorCreate { name: String, valid: bool },
    /// `body_name`: the `name` field of the JSON body (clients may send one that differs from the path)
    ConnectorUpdate { name: String, body_name: String, valid: bool },
    ConnectorDelete { name: String },
    /// what main.rs does at start-up with --scaling-*: `coord.scaling_policy = Some(policy)`
    ScalingConfig,
}

impl Op {
    fn to_json(&self) -> J {
        match self {
            Op::Register { worker } => json!({"op": "POST workers/register", "worker": worker}),
            Op::Heartbeat { worker, events } => json!({"op": "POST workers/{id}/heartbeat (truthful pipelines_running)", "worker": worker, "events_processed": events}),
            Op::Deregister { worker } => json!({"op": "DELETE workers/{id}", "worker": worker}),
            Op::Deploy { group, pipelines, failing } => json!({"op": "POST pipeline-groups", "name": group, "pipelines": pipelines.iter().map(|(n, w)| json!({"name": n, "worker_affinity": w})).collect::<Vec<_>>(), "worker_answers_500_for": failing}),
            Op::Teardown { nth_group } => json!({"op": "DELETE pipeline-groups/{id}", "group": format!("{}-th existing group (sorted by name)", nth_group)}),
            Op::Migrate { nth_placement, target } => json!({"op": "POST pipelines/{group}/{pipeline}/migrate", "placement": format!("{}-th existing placement (sorted)", nth_placement), "target_worker": target}),
            Op::Drain { worker } => json!({"op": "POST workers/{id}/drain", "worker": worker}),
            Op::Rebalance => json!({"op": "POST rebalance"}),
            Op::Tick => json!({"op": "health-loop iteration (main.rs order)"}),
            Op::TickWorkerStale { worker } => json!({"op": "health-loop iteration (main.rs order) in which the sweep finds this worker's heartbeat older than the timeout", "worker": worker}),
            Op::ConnectorCreate { name, valid } => json!({"op": "POST connectors", "name": name, "valid": valid}),
            Op::ConnectorUpdate { name, body_name, valid } => json!({"op": "PUT connectors/{name}", "name": name, "name_in_body": body_name, "valid": valid}),
            Op::ConnectorDelete { name } => json!({"op": "DELETE connectors/{name}", "name": name}),
            Op::ScalingConfig => json!({"op": "start-up configuration as in main.rs: coord.scaling_policy = Some(policy)"}),
        }
    }
}

struct Env {
    ctl: Arc<gatemock::Ctl>,
    mocks: BTreeMap<String, gatemock::GateWorker>,
    coord: SharedCoordinator,
    follower: Coordinator,
    routes: Routes,
    raft: Arc<varpulis_cluster::raft::VarpulisRaft>,
}

async fn call(routes: &Routes, method: &str, path: &str, body: Option<J>) -> Result<(u16, J), String> {
    let mut rb = warp::test::request().method(method).path(path);
    if let Some(b) = body {
        rb = rb.header("content-type", "application/json").body(serde_json::to_vec(&b).unwrap());
    }
    let r = tokio::time::timeout(TIMEOUT, rb.reply(routes)).await.map_err(|_| format!("timeout in {} {}", method, path))?;
    Ok((r.status().as_u16(), serde_json::from_slice(r.body()).unwrap_or(J::Null)))
}

fn connector_body(name: &str, valid: bool, variant: u64) -> J {
    if valid {
        json!({"name": name, "connector_type": "mqtt", "params": {"host": format!("broker{}", variant), "port": "1883"}})
    } else {
        // passes JSON decoding, fails validate_connector (unknown type)
        json!({"name": name, "connector_type": "carrier_pigeon", "params": {}})
    }
}

/// One iteration of the coordinator health loop, statement order of crates/varpulis-cli/src/main.rs
/// (asserted by `main_rs_order_matches`). Returns which sub-steps did something.
async fn health_tick(env: &Env, stale: Option<&str>) -> Result<J, String> {
    let mut coord = env.coord.write().await;
    coord.update_raft_role();
    // observation only: a worker that really went silent arrives at the iteration with an old heartbeat;
    // does it survive the loop's own sync? (counted, never judged: failure detection is C33's subject)
    let mut refreshed_by_sync = J::Null;
    if let Some(w) = stale {
        let old = Instant::now().checked_sub(coord.heartbeat_timeout + Duration::from_millis(200)).ok_or("monotonic clock too small to back-date a heartbeat")?;
        let wid = WorkerId(w.to_string());
        let eligible = match coord.workers.get_mut(&wid) {
            Some(n) if n.status == WorkerStatus::Ready => {
                n.last_heartbeat = old;
                true
            }
            _ => false,
        };
        if eligible {
            coord.sync_from_raft();
            let t = coord.heartbeat_timeout;
            refreshed_by_sync = json!(coord.workers.get(&wid).map(|n| n.last_heartbeat.elapsed() < t));
        }
    }
    coord.sync_from_raft();
    if !coord.ha_role.is_writer() {
        return Err("single-node coordinator is not the Raft leader".into());
    }
    if let Some(w) = stale {
        let old = Instant::now().checked_sub(coord.heartbeat_timeout + Duration::from_millis(200)).ok_or("monotonic clock too small to back-date a heartbeat")?;
        if let Some(n) = coord.workers.get_mut(&WorkerId(w.to_string())) {
            n.last_heartbeat = old;
        }
    }
    let result = coord.health_sweep();
    let failed = result.workers_marked_unhealthy.clone();
    let mut failover_results = vec![];
    if !failed.is_empty() {
        if let Some(ref handle) = coord.raft_handle {
            for wid in &failed {
                let cmd = ClusterCommand::WorkerStatusChanged { id: wid.0.clone(), status: "unhealthy".to_string() };
                let _ = tokio::time::timeout(TIMEOUT, handle.raft.client_write(cmd)).await.map_err(|_| "timeout replicating WorkerStatusChanged".to_string())?;
            }
        }
        for wid in failed.clone() {
            let rs = tokio::time::timeout(TIMEOUT, coord.handle_worker_failure(&wid)).await.map_err(|_| "timeout in handle_worker_failure".to_string())?;
            failover_results.push(json!({"worker": wid.0, "migrations_ok": rs.iter().filter(|r| r.is_ok()).count(), "migrations_failed": rs.iter().filter(|r| r.is_err()).count()}));
        }
    }
    let _ = coord.check_connector_health();
    coord.cleanup_completed_migrations(Duration::from_secs(3600));
    let mut reconciled = 0;
    let mut rebalanced = 0;
    let pending = coord.pending_rebalance;
    if coord.pending_rebalance {
        reconciled = tokio::time::timeout(TIMEOUT, coord.reconcile_placements()).await.map_err(|_| "timeout in reconcile_placements".to_string())?;
        if let Ok(ids) = tokio::time::timeout(TIMEOUT, coord.rebalance()).await.map_err(|_| "timeout in rebalance".to_string())? {
            rebalanced = ids.len();
        }
    }
    let _ = coord.evaluate_scaling();
    coord.fire_scaling_webhook().await;
    Ok(json!({"silent_worker_heartbeat_refreshed_by_the_loops_sync": refreshed_by_sync, "marked_unhealthy": failed.iter().map(|w| w.0.clone()).collect::<Vec<_>>(), "failover": failover_results, "pending_rebalance": pending, "reconciled": reconciled, "rebalance_migrations": rebalanced}))
}

/// Executes one operation; returns (kind, note). Kind is a finite enumeration.
async fn exec(env: &Env, op: &Op, step_no: usize) -> Result<(String, J), String> {
    let r = &env.routes;
    match op {
        Op::Register { worker } => {
            let known = env.coord.read().await.workers.contains_key(&WorkerId(worker.clone()));
            let body = json!({"worker_id": worker, "address": env.mocks[worker].address, "api_key": "key", "capacity": {"cpu_cores": 4, "pipelines_running": 0, "max_pipelines": 100}});
            let (st, _) = call(r, "POST", "/api/v1/cluster/workers/register", Some(body)).await?;
            Ok((if st != 201 { "register(rejected)".into() } else if known { "re-register".into() } else { "register".into() }, json!({"status": st})))
        }
        Op::Heartbeat { worker, events } => {
            let was_unhealthy = env.coord.read().await.workers.get(&WorkerId(worker.clone())).map(|w| w.status == WorkerStatus::Unhealthy).unwrap_or(false);
            let truth = env.mocks[worker].live_count();
            let (st, _) = call(r, "POST", &format!("/api/v1/cluster/workers/{}/heartbeat", worker), Some(json!({"events_processed": events, "pipelines_running": truth}))).await?;
            Ok((if st != 200 { "heartbeat(rejected)".into() } else if was_unhealthy { "worker-recovery".into() } else { "heartbeat".into() }, json!({"status": st, "pipelines_running_reported": truth})))
        }
        Op::Deregister { worker } => {
            let (st, _) = call(r, "DELETE", &format!("/api/v1/cluster/workers/{}", worker), None).await?;
            Ok((if st == 200 { "deregister".into() } else { "deregister(rejected)".into() }, json!({"status": st})))
        }
        Op::Deploy { group, pipelines, failing } => {
            for name in failing {
                for w in env.mocks.keys() {
                    env.ctl.fail.lock().unwrap().insert((w.clone(), name.clone()));
                }
            }
            let spec = json!({"name": group, "pipelines": pipelines.iter().map(|(n, w)| json!({"name": n, "source": format!("stream {}_out = E", n), "worker_affinity": w})).collect::<Vec<_>>()});
            let (st, body) = call(r, "POST", "/api/v1/cluster/pipeline-groups", Some(spec)).await?;
            Ok((if st == 201 { "deploy".into() } else { "deploy(rejected)".into() }, json!({"status": st, "placements": body["placements"], "error": body["error"]})))
        }
        Op::Teardown { nth_group } => {
            let gid = {
                let c = env.coord.read().await;
                let mut gs: Vec<(String, String)> = c.pipeline_groups.iter().map(|(id, g)| (g.name.clone(), id.clone())).collect();
                gs.sort();
                if gs.is_empty() { "no-such-group".to_string() } else { gs[nth_group % gs.len()].1.clone() }
            };
            let (st, _) = call(r, "DELETE", &format!("/api/v1/cluster/pipeline-groups/{}", gid), None).await?;
            Ok((if st == 200 { "teardown".into() } else { "teardown(rejected)".into() }, json!({"status": st, "group_id": gid})))
        }
        Op::Migrate { nth_placement, target } => {
            let pl = {
                let c = env.coord.read().await;
                let mut ps: Vec<(String, String, String)> = c.pipeline_groups.iter().flat_map(|(id, g)| g.placements.iter().map(move |(n, d)| (g.name.clone() + "/" + n, id.clone(), d.worker_id.0.clone() + "|" + n))).collect();
                ps.sort();
                if ps.is_empty() { None } else { Some(ps[nth_placement % ps.len()].clone()) }
            };
            let Some((_, gid, wn)) = pl else { return Ok(("migrate(rejected)".into(), json!("no placement"))) };
            let (from, pname) = wn.split_once('|').unwrap();
            let (st, body) = call(r, "POST", &format!("/api/v1/cluster/pipelines/{}/{}/migrate", gid, pname), Some(json!({"target_worker_id": target}))).await?;
            Ok((if st == 202 { "migrate".into() } else { "migrate(rejected)".into() }, json!({"status": st, "pipeline": pname, "from": from, "to": target, "error": body["error"]})))
        }
        Op::Drain { worker } => {
            let (st, body) = call(r, "POST", &format!("/api/v1/cluster/workers/{}/drain", worker), Some(json!({}))).await?;
            Ok((if st == 200 && body["status"] == "drained" { "drain".into() } else { "drain(rejected)".into() }, json!({"status": st, "pipelines_migrated": body["pipelines_migrated"]})))
        }
        Op::Rebalance => {
            let (st, body) = call(r, "POST", "/api/v1/cluster/rebalance", None).await?;
            let n = body["migrations_started"].as_u64().unwrap_or(0);
            Ok((if st == 200 && n > 0 { "rebalance".into() } else { "rebalance(noop)".into() }, json!({"status": st, "migrations_started": n})))
        }
        Op::Tick => {
            let n = health_tick(env, None).await?;
            let kind = if n["rebalance_migrations"].as_u64().unwrap_or(0) > 0 {
                "auto-rebalance"
            } else if n["reconciled"].as_u64().unwrap_or(0) > 0 {
                "reconcile"
            } else {
                "health-loop(idle)"
            };
            Ok((kind.into(), n))
        }
        Op::TickWorkerStale { worker } => {
            let n = health_tick(env, Some(worker)).await?;
            match n["silent_worker_heartbeat_refreshed_by_the_loops_sync"].as_bool() {
                Some(true) => SYNC_REFRESHED.fetch_add(1, std::sync::atomic::Ordering::Relaxed),
                Some(false) => SYNC_KEPT_STALE.fetch_add(1, std::sync::atomic::Ordering::Relaxed),
                None => 0,
            };
            let marked = n["marked_unhealthy"].as_array().map(|a| !a.is_empty()).unwrap_or(false);
            let moved = n["failover"].as_array().map(|a| a.iter().any(|f| f["migrations_ok"].as_u64().unwrap_or(0) > 0)).unwrap_or(false);
            // the marking itself is replicated by the loop (WorkerStatusChanged): name the iteration after
            // the sub-step that moved or re-deployed pipelines, if any
            let kind = if moved {
                "failover"
            } else if n["rebalance_migrations"].as_u64().unwrap_or(0) > 0 {
                "auto-rebalance"
            } else if n["reconciled"].as_u64().unwrap_or(0) > 0 {
                "reconcile"
            } else if marked {
                "unhealthy-detection"
            } else {
                "health-loop(idle)"
            };
            Ok((kind.into(), n))
        }
        Op::ConnectorCreate { name, valid } => {
            let (st, body) = call(r, "POST", "/api/v1/cluster/connectors", Some(connector_body(name, *valid, step_no as u64))).await?;
            Ok((if st == 201 { "connector-create".into() } else { "connector-create(rejected)".into() }, json!({"status": st, "error": body["error"]})))
        }
        Op::ConnectorUpdate { name, body_name, valid } => {
            let (st, body) = call(r, "PUT", &format!("/api/v1/cluster/connectors/{}", name), Some(connector_body(body_name, *valid, 100 + step_no as u64))).await?;
            Ok((if st == 200 { "connector-update".into() } else { "connector-update(rejected)".into() }, json!({"status": st, "error": body["error"]})))
        }
        Op::ConnectorDelete { name } => {
            let (st, _) = call(r, "DELETE", &format!("/api/v1/cluster/connectors/{}", name), None).await?;
            Ok((if st == 200 { "connector-delete".into() } else { "connector-delete(rejected)".into() }, json!({"status": st})))
        }
        Op::ScalingConfig => {
            let mut c = env.coord.write().await;
            c.scaling_policy = Some(ScalingPolicy { min_workers: 1, max_workers: 5, scale_up_threshold: 5.0, scale_down_threshold: 1.0, cooldown_secs: 300, webhook_url: None });
            Ok(("scaling-policy(start-up)".into(), J::Null))
        }
    }
}

fn gen_history(rng: &mut Rng) -> Vec<Op> {
    let workers = ["w1", "w2", "w3"];
    let w = |rng: &mut Rng| rng.pick(&workers).to_string();
    let n = 5 + rng.below(8);
    let mut ops = vec![Op::Register { worker: "w1".into() }];
    if rng.chance(4, 5) {
        ops.push(Op::Register { worker: "w2".into() });
    }
    if rng.chance(1, 4) {
        ops.insert(0, Op::ScalingConfig);
    }
    let mut gcount = 0;
    for _ in 0..n {
        let op = match rng.below(40) {
            0..=1 => Op::Register { worker: w(rng) },
            2..=6 => Op::Heartbeat { worker: w(rng), events: rng.below(1000) as u64 },
            7 => Op::Deregister { worker: w(rng) },
            8..=13 => {
                gcount += 1;
                let mut ps = vec![(format!("p{}a", gcount), if rng.chance(1, 2) { Some(w(rng)) } else { None })];
                if rng.chance(1, 2) {
                    ps.push((format!("p{}b", gcount), if rng.chance(1, 2) { Some(w(rng)) } else { None }));
                }
                if rng.chance(1, 4) {
                    ps.push((format!("p{}c", gcount), None));
                }
                // per-pipeline outcomes: now and then a pipeline (or the whole group) cannot be started anywhere
                let all_fail = rng.chance(1, 6);
                let failing: Vec<String> = ps.iter().filter(|_| all_fail || rng.chance(1, 5)).map(|(n, _)| n.clone()).collect();
                Op::Deploy { group: format!("g{}", gcount), pipelines: ps, failing }
            }
            14..=16 => Op::Teardown { nth_group: rng.below(4) },
            17..=20 => Op::Migrate { nth_placement: rng.below(6), target: w(rng) },
            21..=22 => Op::Drain { worker: w(rng) },
            23..=24 => Op::Rebalance,
            25..=28 => Op::Tick,
            29..=32 => Op::TickWorkerStale { worker: w(rng) },
            33..=35 => Op::ConnectorCreate { name: rng.pick(&["mq1", "mq2"]).to_string(), valid: rng.chance(3, 4) },
            36..=37 => {
                let name = rng.pick(&["mq1", "mq2"]).to_string();
                let body_name = if rng.chance(1, 4) { rng.pick(&["mq1", "mq2", "mq9"]).to_string() } else { name.clone() };
                Op::ConnectorUpdate { name, body_name, valid: rng.chance(3, 4) }
            }
            38 => Op::ConnectorDelete { name: rng.pick(&["mq1", "mq2"]).to_string() },
            _ => Op::ScalingConfig,
        };
        ops.push(op);
    }
    ops
}

async fn wait_leader(raft: &varpulis_cluster::raft::VarpulisRaft) -> Result<(), String> {
    for _ in 0..400 {
        let m = raft.metrics().borrow().clone();
        if m.current_leader == Some(1) && format!("{:?}", m.state) == "Leader" {
            return Ok(());
        }
        tokio::time::sleep(Duration::from_millis(25)).await;
    }
    Err("single-node Raft did not become leader within 10 s".into())
}

/// Bring the replicated state and both coordinators back to empty (through Raft commands).
async fn wipe(env: &mut Env) -> Result<(), String> {
    let (ws, gs, cs, scaling): (Vec<String>, Vec<String>, Vec<String>, bool) = {
        let c = env.coord.read().await;
        let h = c.raft_handle.as_ref().ok_or("no raft handle")?;
        let s = h.store_state.read().unwrap_or_else(|e| e.into_inner());
        (s.workers.keys().cloned().collect(), s.pipeline_groups.keys().cloned().collect(), s.connectors.keys().cloned().collect(), s.scaling_policy.is_some())
    };
    let mut cmds = vec![];
    for id in ws {
        cmds.push(ClusterCommand::DeregisterWorker { id });
    }
    for name in gs {
        cmds.push(ClusterCommand::GroupRemoved { name });
    }
    for name in cs {
        cmds.push(ClusterCommand::ConnectorRemoved { name });
    }
    if scaling {
        cmds.push(ClusterCommand::ScalingPolicySet { policy: None });
    }
    for cmd in cmds {
        tokio::time::timeout(TIMEOUT, env.raft.client_write(cmd)).await.map_err(|_| "timeout wiping the replicated state".to_string())?.map_err(|e| format!("wipe: {e}"))?;
    }
    {
        let mut c = env.coord.write().await;
        c.workers.clear();
        c.pipeline_groups.clear();
        c.connectors.clear();
        c.worker_metrics.clear();
        c.active_migrations.clear();
        c.pending_rebalance = false;
        c.scaling_policy = None;
        c.last_scaling_recommendation = None;
        c.last_health_sweep = None;
        c.sync_from_raft();
        let v = snapshot(&c);
        if !(v.workers.is_empty() && v.groups.is_empty() && v.connectors.is_empty() && v.scaling.is_null()) {
            return Err(format!("replicated state not empty after wipe: {}", view_json(&v)));
        }
    }
    env.follower.sync_from_raft();
    for m in env.mocks.values() {
        m.clear();
    }
    Ok(())
}

struct Found {
    step: usize,
    sig: String,
    what: &'static str,
    witness: J,
}

/// Runs one history with the monitor after every step. `out`: count evaluations / non-trivial steps there.
async fn run_ops(env: &mut Env, ops: &[Op], mut out: Option<&mut Partial>) -> Result<Vec<Found>, String> {
    wipe(env).await?;
    let mut found: Vec<Found> = vec![];
    let mut trace: Vec<J> = vec![];
    let mut prev = snapshot(&*env.coord.read().await);
    let mut follower_diverged: BTreeSet<&'static str> = BTreeSet::new();
    for (i, op) in ops.iter().enumerate() {
        let (kind, note) = exec(env, op, i).await?;
        // ---- the monitor
        let (view, after) = {
            let mut c = env.coord.write().await;
            let view = snapshot(&c);
            c.sync_from_raft();
            (view, snapshot(&c))
        };
        env.follower.sync_from_raft();
        let fview = snapshot(&env.follower);
        let changed = diff(&prev, &view);
        trace.push(json!({"step": i, "operation": op.to_json(), "kind": kind, "result": note, "view_components_changed_by_step": changed.iter().map(|c| c.0).collect::<Vec<_>>()}));
        if let Some(out) = out.as_deref_mut() {
            out.eval();
            if !changed.is_empty() {
                out.nontrivial(&(kind.clone(), changed.iter().map(|c| c.0).collect::<Vec<_>>()));
                out.add("steps_that_changed_the_view", 1);
            }
            out.add("resyncs_compared", 1);
        }
        let mut d = diff(&view, &after);
        if perturb("expect-events-zero") {
            // deliberately wrong expectation: the view must never contain processed events
            if view.workers.values().any(|w| w["events_processed"] != json!(0)) {
                d.push(("perturbed-oracle", json!("perturbed oracle")));
            }
        }
        let reverted = !d.is_empty();
        for (component, detail) in &d {
            // the coordinator's own assigned/count bookkeeping after any placement change is one root cause
            // (never replicated), whichever operation changed the placements; heartbeat-reported load is another
            let sig_kind = if *component == "worker-bookkeeping" && PLACEMENT_KINDS.contains(&kind.as_str()) {
                "placement-change"
            } else if *component == "worker-bookkeeping" && kind == "worker-recovery" {
                "heartbeat"
            } else {
                kind.as_str()
            };
            found.push(Found {
                step: i,
                sig: format!("{}/{}", sig_kind, component),
                what: "re-synchronising from the replicated state changed the coordinator's view right after this step: the step's effect (acknowledged to the client or made by the coordinator itself) is not in the replicated state",
                witness: json!({
                    "raft": "single node, MemStore, leader",
                    "history_up_to_violation": trace,
                    "step_kind": kind,
                    "component": component,
                    "difference": detail,
                    "view_before_resync": view_json(&view),
                    "view_after_resync": view_json(&after),
                }),
            });
        }
        // follower: compare against what the leader shows once it is itself consistent with the
        // replicated state (otherwise the revert above already tells the story)
        if !reverted {
            let fd = diff(&view, &fview);
            let now: BTreeSet<&'static str> = fd.iter().map(|c| c.0).collect();
            for (component, detail) in &fd {
                // a divergence persists until the worker/group disappears: report it at the step where it appears
                if follower_diverged.contains(component) {
                    continue;
                }
                found.push(Found {
                    step: i,
                    sig: format!("{}/follower-view/{}", kind, component),
                    what: "a follower that synchronised from the same replicated state shows a different cluster view than the leader",
                    witness: json!({"raft": "single node, MemStore, leader; follower = second Coordinator::with_raft on the same replicated state", "history_up_to_violation": trace, "step_kind": kind, "component": component,
                        "difference (leader = before_resync, follower = after_resync)": detail, "leader_view": view_json(&view), "follower_view": view_json(&fview)}),
                });
            }
            follower_diverged = now;
        }
        prev = after;
    }
    if let Some(out) = out.as_deref_mut() {
        out.sample(json!({"history": trace.iter().map(|t| json!({"kind": t["kind"], "changed": t["view_components_changed_by_step"]})).collect::<Vec<_>>()}));
    }
    Ok(found)
}

async fn run_history(env: &mut Env, ops: &[Op], out: &mut Partial, minimised: &mut BTreeSet<String>) -> Result<(), String> {
    let found = run_ops(env, ops, Some(out)).await?;
    for f in found {
        if !minimised.insert(f.sig.clone()) {
            out.violation(&f.sig, f.what, f.witness);
            continue;
        }
        // first occurrence of this signature on this thread: shrink the history (drop earlier steps one at a
        // time while the same signature still fires at the last step)
        let mut cur: Vec<Op> = ops[..=f.step].to_vec();
        let mut best: Option<Found> = None;
        let mut j = cur.len().saturating_sub(1);
        while j > 0 {
            j -= 1;
            let mut cand = cur.clone();
            cand.remove(j);
            let last = cand.len() - 1;
            let r = run_ops(env, &cand, None).await?;
            if let Some(hit) = r.into_iter().find(|x| x.sig == f.sig && x.step == last) {
                cur = cand;
                best = Some(hit);
            }
        }
        match best {
            Some(mut b) => {
                b.witness["minimised_from_steps"] = json!(f.step + 1);
                out.add("witnesses_minimised", 1);
                out.violation(&b.sig, b.what, b.witness);
            }
            None => out.violation(&f.sig, f.what, f.witness),
        }
    }
    Ok(())
}

fn main() {
    install_quiet_panic_hook();
    let args = Args::parse();
    if let Some(p) = args.opt("--perturb") {
        let _ = PERTURB.set(p);
    }
    watchdog("C38", args.pick(240, 3600));
    let mut rep = Report::new("C38", "exploration", &args);
    rep.rule = "seeded random histories (7-14 steps) of API operations through the real REST handlers and health-loop iterations in main.rs order on a single-node Raft (MemStore) \
with loopback mock workers; after every step snapshot / sync_from_raft / snapshot; non-trivial = a step that changed the view, distinct by (step kind, set of view components it changed)"
        .into();
    rep.assume("the health-loop iteration executed by the harness repeats the statements of the loop in crates/varpulis-cli/src/main.rs in the same order (asserted against the source text at start)");
    rep.assume("a follower's view is modelled by a second Coordinator::with_raft reading the same node's replicated state and only ever calling sync_from_raft (log replication itself is C37's subject); a 3-node cluster is not started");
    rep.assume("`failover`/`unhealthy-detection` steps back-date the silent worker's heartbeat between the loop's sync and its sweep; a back-date before the iteration is overwritten by the sync (heartbeat proxy for every worker the replicated state calls ready)");
    if let Err(e) = main_rs_order_matches() {
        rep.inconclusive(&format!("in-process lane unusable: {}", e));
        std::process::exit(rep.finish());
    }
    let threads = ncpu().min(8);
    let budget = Duration::from_secs(args.pick(14, 300));
    let max_hist: u64 = args.pick(400, 60000);
    let parts = parallel(threads, args.seed, move |ti, mut rng| {
        let mut out = Partial::default();
        let rt = match tokio::runtime::Builder::new_current_thread().enable_all().build() {
            Ok(rt) => rt,
            Err(e) => {
                out.inconclusive(&format!("tokio runtime: {e}"));
                return out;
            }
        };
        rt.block_on(async {
            let ctl = gatemock::Ctl::new();
            let mut mocks = BTreeMap::new();
            for w in ["w1", "w2", "w3"] {
                match gatemock::spawn_gate_worker(w, ctl.clone()) {
                    Ok(m) => {
                        mocks.insert(w.to_string(), m);
                    }
                    Err(e) => {
                        out.inconclusive(&e);
                        return;
                    }
                }
            }
            let peers = vec!["http://127.0.0.1:1".to_string()];
            let boot = match varpulis_cluster::raft::bootstrap(1, &peers, None).await {
                Ok(b) => b,
                Err(e) => {
                    out.inconclusive(&format!("raft bootstrap: {e}"));
                    return;
                }
            };
            if let Err(e) = wait_leader(&boot.raft).await {
                out.inconclusive(&e);
                return;
            }
            let peer_map: BTreeMap<u64, String> = [(1u64, peers[0].clone())].into_iter().collect();
            let mut c = Coordinator::with_raft(boot.raft.clone(), boot.shared_state.clone(), peer_map.clone(), None);
            c.update_raft_role();
            c.heartbeat_timeout = Duration::from_millis(300);
            let coord: SharedCoordinator = Arc::new(tokio::sync::RwLock::new(c));
            let follower = Coordinator::with_raft(boot.raft.clone(), boot.shared_state.clone(), peer_map, None);
            let routes: Routes = varpulis_cluster::cluster_routes(coord.clone(), Arc::new(varpulis_cluster::RbacConfig::disabled()), None).map(|r| warp::Reply::into_response(r)).boxed();
            let mut env = Env { ctl: ctl.clone(), mocks, coord, follower, routes, raft: boot.raft.clone() };
            let start = Instant::now();
            let mut n = 0u64;
            let mut minimised: BTreeSet<String> = BTreeSet::new();
            while start.elapsed() < budget && n < max_hist {
                n += 1;
                let ops = gen_history(&mut rng);
                if let Err(e) = run_history(&mut env, &ops, &mut out, &mut minimised).await {
                    out.inconclusive(&format!("thread {}: {}", ti, e));
                    break;
                }
                out.add("histories", 1);
            }
            let _ = tokio::time::timeout(Duration::from_secs(5), env.raft.shutdown()).await;
        });
        out
    });
    for p in parts {
        rep.merge(p);
    }
    rep.set("observed_silent_ready_worker_heartbeat_refreshed_by_loop_sync", json!(SYNC_REFRESHED.load(std::sync::atomic::Ordering::Relaxed)));
    rep.set("observed_silent_ready_worker_still_stale_after_loop_sync", json!(SYNC_KEPT_STALE.load(std::sync::atomic::Ordering::Relaxed)));
    std::process::exit(rep.finish());
}
