//! C44 — event values keep their types and contents through the REST API.
//!
//! Monitor: generated JSON payloads (depth <= 4; integers at the i64/u64 boundaries,
//! floats incl. long/extreme literals, unicode/escaped strings, nested arrays/objects,
//! null) are injected through the real warp routes (`/events` and `/events-batch`) into
//! a pipeline `In .emit(uid: uid, v: v, tv: type_of(v), w: w, tw: type_of(w))`.
//! Oracle (own JSON text model, numbers kept as text and compared exactly): the type the
//! engine saw (`type_of`) is the one corresponding to the JSON value, and the JSON the
//! API returns for `v`/`w` equals the injected JSON (numbers numerically).
#[path = "../apih.rs"]
mod apih;
use serde_json::json;
use std::sync::Arc;
use tokio::sync::RwLock;
use varpulis_runtime::tenant::{TenantManager, TenantQuota};
use vh::*;

// ---------------------------------------------------------------------------
// Own JSON model: numbers stay text.
// ---------------------------------------------------------------------------
#[derive(Clone, Debug, PartialEq)]
enum Jv {
    Null,
    Bool(bool),
    Num(String),
    Str(String),
    Arr(Vec<Jv>),
    Obj(Vec<(String, Jv)>),
}

fn render_str(s: &str, rng: &mut Rng, out: &mut String) {
    out.push('"');
    for ch in s.chars() {
        let c = ch as u32;
        match ch {
            '"' => out.push_str("\\\""),
            '\\' => out.push_str("\\\\"),
            '\n' => out.push_str("\\n"),
            '\r' => out.push_str("\\r"),
            '\t' => out.push_str("\\t"),
            '\u{08}' => out.push_str("\\b"),
            '\u{0c}' => out.push_str("\\f"),
            '/' if rng.chance(1, 2) => out.push_str("\\/"),
            _ if c < 0x20 => out.push_str(&format!("\\u{:04x}", c)),
            _ if c >= 0x80 && rng.chance(1, 3) => {
                // \u escape, surrogate pair for astral characters
                let mut buf = [0u16; 2];
                for u in ch.encode_utf16(&mut buf) {
                    out.push_str(&format!("\\u{:04X}", u));
                }
            }
            _ => out.push(ch),
        }
    }
    out.push('"');
}

fn render(v: &Jv, rng: &mut Rng, out: &mut String) {
    match v {
        Jv::Null => out.push_str("null"),
        Jv::Bool(b) => out.push_str(if *b { "true" } else { "false" }),
        Jv::Num(t) => out.push_str(t),
        Jv::Str(s) => render_str(s, rng, out),
        Jv::Arr(a) => {
            out.push('[');
            for (i, x) in a.iter().enumerate() {
                if i > 0 {
                    out.push(',');
                }
                if rng.chance(1, 8) {
                    out.push(' ');
                }
                render(x, rng, out);
            }
            out.push(']');
        }
        Jv::Obj(o) => {
            out.push('{');
            for (i, (k, x)) in o.iter().enumerate() {
                if i > 0 {
                    out.push(',');
                }
                render_str(k, rng, out);
                out.push(':');
                render(x, rng, out);
            }
            out.push('}');
        }
    }
}

fn plain(v: &Jv) -> String {
    let mut s = String::new();
    render_plain(v, &mut s);
    s
}

fn render_plain(v: &Jv, out: &mut String) {
    match v {
        Jv::Null => out.push_str("null"),
        Jv::Bool(b) => out.push_str(if *b { "true" } else { "false" }),
        Jv::Num(t) => out.push_str(t),
        Jv::Str(s) => out.push_str(&serde_json::Value::String(s.clone()).to_string()),
        Jv::Arr(a) => {
            out.push('[');
            for (i, x) in a.iter().enumerate() {
                if i > 0 {
                    out.push(',');
                }
                render_plain(x, out);
            }
            out.push(']');
        }
        Jv::Obj(o) => {
            out.push('{');
            for (i, (k, x)) in o.iter().enumerate() {
                if i > 0 {
                    out.push(',');
                }
                out.push_str(&serde_json::Value::String(k.clone()).to_string());
                out.push(':');
                render_plain(x, out);
            }
            out.push('}');
        }
    }
}

// Minimal strict JSON parser for the responses (numbers stay text).
struct P<'a> {
    s: &'a [u8],
    i: usize,
}

impl<'a> P<'a> {
    fn ws(&mut self) {
        while self.i < self.s.len() && matches!(self.s[self.i], b' ' | b'\n' | b'\t' | b'\r') {
            self.i += 1;
        }
    }
    fn lit(&mut self, l: &str) -> Result<(), String> {
        if self.s[self.i..].starts_with(l.as_bytes()) {
            self.i += l.len();
            Ok(())
        } else {
            Err(format!("bad literal at {}", self.i))
        }
    }
    fn hex4(&mut self) -> Result<u32, String> {
        if self.i + 4 > self.s.len() {
            return Err("short \\u".into());
        }
        let t = std::str::from_utf8(&self.s[self.i..self.i + 4]).map_err(|e| e.to_string())?;
        self.i += 4;
        u32::from_str_radix(t, 16).map_err(|e| e.to_string())
    }
    fn string(&mut self) -> Result<String, String> {
        self.i += 1; // opening quote
        let mut bytes: Vec<u8> = vec![];
        loop {
            if self.i >= self.s.len() {
                return Err("unterminated string".into());
            }
            let b = self.s[self.i];
            self.i += 1;
            match b {
                b'"' => break,
                b'\\' => {
                    let e = self.s[self.i];
                    self.i += 1;
                    let ch = match e {
                        b'"' => '"',
                        b'\\' => '\\',
                        b'/' => '/',
                        b'n' => '\n',
                        b'r' => '\r',
                        b't' => '\t',
                        b'b' => '\u{08}',
                        b'f' => '\u{0c}',
                        b'u' => {
                            let hi = self.hex4()?;
                            if (0xD800..0xDC00).contains(&hi) {
                                self.lit("\\u")?;
                                let lo = self.hex4()?;
                                let c = 0x10000 + ((hi - 0xD800) << 10) + (lo.wrapping_sub(0xDC00));
                                char::from_u32(c).ok_or("bad surrogate pair")?
                            } else {
                                char::from_u32(hi).ok_or("lone surrogate")?
                            }
                        }
                        _ => return Err("bad escape".into()),
                    };
                    let mut buf = [0u8; 4];
                    bytes.extend_from_slice(ch.encode_utf8(&mut buf).as_bytes());
                }
                _ => bytes.push(b),
            }
        }
        String::from_utf8(bytes).map_err(|e| e.to_string())
    }
    fn value(&mut self) -> Result<Jv, String> {
        self.ws();
        if self.i >= self.s.len() {
            return Err("eof".into());
        }
        let r = match self.s[self.i] {
            b'n' => self.lit("null").map(|_| Jv::Null),
            b't' => self.lit("true").map(|_| Jv::Bool(true)),
            b'f' => self.lit("false").map(|_| Jv::Bool(false)),
            b'"' => self.string().map(Jv::Str),
            b'[' => {
                self.i += 1;
                let mut a = vec![];
                self.ws();
                if self.s[self.i] == b']' {
                    self.i += 1;
                    return Ok(Jv::Arr(a));
                }
                loop {
                    a.push(self.value()?);
                    self.ws();
                    match self.s.get(self.i) {
                        Some(b',') => self.i += 1,
                        Some(b']') => {
                            self.i += 1;
                            break;
                        }
                        _ => return Err("bad array".into()),
                    }
                }
                Ok(Jv::Arr(a))
            }
            b'{' => {
                self.i += 1;
                let mut o = vec![];
                self.ws();
                if self.s[self.i] == b'}' {
                    self.i += 1;
                    return Ok(Jv::Obj(o));
                }
                loop {
                    self.ws();
                    if self.s.get(self.i) != Some(&b'"') {
                        return Err("bad key".into());
                    }
                    let k = self.string()?;
                    self.ws();
                    if self.s.get(self.i) != Some(&b':') {
                        return Err("missing colon".into());
                    }
                    self.i += 1;
                    let v = self.value()?;
                    o.push((k, v));
                    self.ws();
                    match self.s.get(self.i) {
                        Some(b',') => self.i += 1,
                        Some(b'}') => {
                            self.i += 1;
                            break;
                        }
                        _ => return Err("bad object".into()),
                    }
                }
                Ok(Jv::Obj(o))
            }
            _ => {
                let st = self.i;
                while self.i < self.s.len() && matches!(self.s[self.i], b'-' | b'+' | b'.' | b'e' | b'E' | b'0'..=b'9') {
                    self.i += 1;
                }
                if st == self.i {
                    return Err(format!("unexpected byte at {}", st));
                }
                Ok(Jv::Num(String::from_utf8_lossy(&self.s[st..self.i]).to_string()))
            }
        };
        r
    }
}

fn parse_json(b: &[u8]) -> Result<Jv, String> {
    let mut p = P { s: b, i: 0 };
    let v = p.value()?;
    p.ws();
    if p.i != b.len() {
        return Err("trailing bytes".into());
    }
    Ok(v)
}

// ---------------------------------------------------------------------------
// Exact number semantics of a JSON number token.
// ---------------------------------------------------------------------------
#[derive(Clone, Copy, Debug, PartialEq)]
enum N {
    I(i128),
    F(f64),
}

fn is_int_text(t: &str) -> bool {
    let d = t.strip_prefix('-').unwrap_or(t);
    !d.is_empty() && d.bytes().all(|b| b.is_ascii_digit())
}

fn num_of(t: &str) -> Option<N> {
    if is_int_text(t) && t.len() <= 38 {
        t.parse::<i128>().ok().map(N::I)
    } else {
        t.parse::<f64>().ok().map(N::F) // Rust's parser is correctly rounded
    }
}

fn num_eq(a: N, b: N) -> bool {
    fn if_eq(i: i128, f: f64) -> bool {
        f.is_finite() && f.fract() == 0.0 && f.abs() < 1.0e38 && (f as i128) == i
    }
    match (a, b) {
        (N::I(x), N::I(y)) => x == y,
        (N::F(x), N::F(y)) => x == y,
        (N::I(x), N::F(y)) | (N::F(y), N::I(x)) => if_eq(x, y),
    }
}

/// Kind of a JSON value (finite enumeration, used in signatures) and the engine type it corresponds to.
fn kind_of(v: &Jv) -> (&'static str, Option<&'static str>) {
    match v {
        Jv::Null => ("null", Some("null")),
        Jv::Bool(_) => ("bool", Some("bool")),
        Jv::Str(s) => (
            if s.is_ascii() && !s.chars().any(|c| (c as u32) < 0x20 || c == '"' || c == '\\') { "string-plain" } else { "string-unicode-or-escape" },
            Some("string"),
        ),
        Jv::Arr(_) => ("array", Some("array")),
        Jv::Obj(_) => ("object", Some("map")),
        Jv::Num(t) => {
            if t == "-0" {
                return ("int-negative-zero", None); // JSON has one number type; either reading is fine
            }
            if is_int_text(t) {
                match t.parse::<i128>() {
                    Ok(i) if i >= i64::MIN as i128 && i <= i64::MAX as i128 => {
                        if i.unsigned_abs() >= (1u128 << 53) { ("int-beyond-2^53", Some("int")) } else { ("int", Some("int")) }
                    }
                    Ok(i) if i > i64::MAX as i128 && i <= u64::MAX as i128 => ("u64-above-i64max", None),
                    _ => ("int-beyond-64bit", Some("float")),
                }
            } else {
                let digits = t.split(|c| c == 'e' || c == 'E').next().unwrap_or("").bytes().filter(|b| b.is_ascii_digit()).count();
                let _ = digits;
                ("float", Some("float"))
            }
        }
    }
}

/// Compare injected vs returned; Err((kind-of-injected-leaf, failure, path)).
fn cmp(inj: &Jv, out: &Jv, path: &str) -> Result<(), (&'static str, &'static str, String)> {
    let k = kind_of(inj).0;
    match (inj, out) {
        (Jv::Null, Jv::Null) => Ok(()),
        (Jv::Bool(a), Jv::Bool(b)) if a == b => Ok(()),
        (Jv::Str(a), Jv::Str(b)) => {
            if a == b { Ok(()) } else { Err((k, "value-changed", path.to_string())) }
        }
        (Jv::Num(a), Jv::Num(b)) => {
            // integers beyond 64 bit have no exact carrier in the value model: the nearest double is demanded
            let exp = if k == "int-beyond-64bit" { a.parse::<f64>().ok().map(N::F) } else { num_of(a) };
            match (exp, num_of(b)) {
                (Some(x), Some(y)) if num_eq(x, y) => Ok(()),
                (Some(N::F(x)), Some(N::F(y))) if x.is_finite() && y.is_finite() && (x.to_bits() as i128 - y.to_bits() as i128).abs() <= 8 => {
                    Err((k, "float-off-by-few-ulp", path.to_string()))
                }
                (Some(N::I(x)), Some(N::F(y))) if k == "u64-above-i64max" && (x as f64) == y => Err((k, "rounded-to-nearest-double", path.to_string())),
                _ => Err((k, "value-changed", path.to_string())),
            }
        }
        (Jv::Arr(a), Jv::Arr(b)) => {
            if a.len() != b.len() {
                return Err((k, "length-changed", path.to_string()));
            }
            for (i, (x, y)) in a.iter().zip(b.iter()).enumerate() {
                cmp(x, y, &format!("{}[{}]", path, i))?;
            }
            Ok(())
        }
        (Jv::Obj(a), Jv::Obj(b)) => {
            if a.len() != b.len() {
                return Err((k, "keys-changed", path.to_string()));
            }
            for (key, x) in a {
                match b.iter().find(|(k2, _)| k2 == key) {
                    Some((_, y)) => cmp(x, y, &format!("{}.{}", path, key))?,
                    None => return Err((k, "keys-changed", format!("{}.{}", path, key))),
                }
            }
            Ok(())
        }
        (Jv::Bool(_), Jv::Bool(_)) => Err((k, "value-changed", path.to_string())),
        _ => Err((k, "kind-changed", path.to_string())),
    }
}

fn get<'a>(o: &'a Jv, key: &str) -> Option<&'a Jv> {
    match o {
        Jv::Obj(v) => v.iter().find(|(k, _)| k == key).map(|(_, x)| x),
        _ => None,
    }
}

// ---------------------------------------------------------------------------
// Generator
// ---------------------------------------------------------------------------
const INTS: &[&str] = &[
    "0", "1", "-1", "42", "-7", "255", "65536", "2147483647", "-2147483648", "2147483648", "4294967295", "4294967296",
    "9007199254740991", "9007199254740992", "9007199254740993", "-9007199254740993", "1234567890123456789", "-1234567890123456789",
    "9223372036854775806", "9223372036854775807", "-9223372036854775807", "-9223372036854775808", "1000000000000000000", "999999999999999999",
];
const U64S: &[&str] = &["9223372036854775808", "9223372036854775809", "9223372036854777856", "10000000000000000000", "18446744073709551614", "18446744073709551615", "12345678901234567890"];
const BIGS: &[&str] = &["18446744073709551616", "-9223372036854775809", "123456789012345678901234567890", "-18446744073709551615", "100000000000000000000"];
const FLOATS: &[&str] = &[
    "0.0", "-0.0", "1.0", "-1.5", "0.1", "0.2", "0.30000000000000004", "1e0", "1E2", "1e+2", "1e-7", "2.5e-3", "123456.789e3", "0.1e1", "3.141592653589793",
    "1.0000000000000002", "9007199254740993.0", "9223372036854775807.0", "5e-324", "4.9406564584124654e-324", "2.2250738585072014e-308", "2.2250738585072011e-308",
    "1.7976931348623157e308", "1.7976931348623157E+308", "0.000001", "100.0", "1e22", "1e23", "8.41e21", "2.2250738585072009e-308", "9007199254740992.5", "0.1000000000000000055511151231257827",
    "179769313486231570000000000000000000000000000000000000000000000000000000000000000000000000000000000000000000000000000000000000000000000000000000000000000000000000000000000000000000000000000000000000000000000000000000000000000000000000000000000000000000000000000000000000000000000000000000000000000000000.0",
    "123456789.12345678", "5.0e-1", "-2.5E-10", "7.038531e-26", "1.1754943508222875e-38", "6.02214076e23",
];
const STRS: &[&str] = &[
    "", "a", "hello world", "\u{e9}t\u{e9}", "\u{65e5}\u{672c}\u{8a9e}", "\u{1F600}", "a\u{1F600}b\u{10FFFF}", "quote\"back\\slash/", "line\nbreak\ttab\r", "\u{0}nul", "\u{1}\u{1f}",
    "\u{7f}", "\u{80}\u{ff}", "e\u{301}", "\u{feff}bom", "\u{2028}\u{2029}", "\u{fffd}", "null", "true", "123", "1e5", "{\"a\":1}", " lead and trail ", "\u{202e}rtl", "\u{d7ff}\u{e000}",
];
const KEYS: &[&str] = &["a", "b", "k", "", "key with space", "\u{e9}", "\u{1F600}", "a.b", "0", "event_type", "nested\"quote", "\u{0}", "type", "timestamp"];

fn gen_num(rng: &mut Rng) -> Jv {
    let t = match rng.below(10) {
        0 | 1 | 2 => rng.pick(INTS).to_string(),
        3 => rng.pick(U64S).to_string(),
        4 => rng.pick(BIGS).to_string(),
        5 | 6 => rng.pick(FLOATS).to_string(),
        7 => {
            // random finite f64 in its shortest round-trip form
            loop {
                let f = f64::from_bits(rng.next_u64());
                if f.is_finite() {
                    break if rng.chance(1, 2) { format!("{:?}", f) } else { format!("{:e}", f) };
                }
            }
        }
        8 => {
            // long decimal literal: 16-20 significant digits, moderate exponent
            let nd = 16 + rng.below(5);
            let mut s = String::new();
            if rng.chance(1, 3) {
                s.push('-');
            }
            s.push((b'1' + rng.below(9) as u8) as char);
            s.push('.');
            for _ in 1..nd {
                s.push((b'0' + rng.below(10) as u8) as char);
            }
            if rng.chance(2, 3) {
                s.push_str(&format!("e{}", rng.range(-300, 300)));
            }
            s
        }
        _ => format!("{}", rng.range(-1000, 1000)),
    };
    if t == "-0" {
        return Jv::Num("0".into());
    }
    Jv::Num(t)
}

fn gen_val(rng: &mut Rng, depth: usize) -> Jv {
    let leaf = depth == 0 || rng.chance(2, 5);
    if leaf {
        match rng.below(10) {
            0 => Jv::Null,
            1 => Jv::Bool(rng.chance(1, 2)),
            2 | 3 | 4 | 5 => gen_num(rng),
            6 => {
                if rng.chance(1, 10) { Jv::Num("-0".into()) } else { gen_num(rng) }
            }
            _ => Jv::Str(rng.pick(STRS).to_string()),
        }
    } else if rng.chance(1, 2) {
        let n = rng.below(4);
        Jv::Arr((0..n).map(|_| gen_val(rng, depth - 1)).collect())
    } else {
        let n = rng.below(4);
        let mut o: Vec<(String, Jv)> = vec![];
        for _ in 0..n {
            let k = rng.pick(KEYS).to_string();
            if o.iter().any(|(k2, _)| *k2 == k) {
                continue;
            }
            o.push((k, gen_val(rng, depth - 1)));
        }
        Jv::Obj(o)
    }
}

fn depth_of(v: &Jv) -> usize {
    match v {
        Jv::Arr(a) => 1 + a.iter().map(depth_of).max().unwrap_or(0),
        Jv::Obj(o) => 1 + o.iter().map(|(_, x)| depth_of(x)).max().unwrap_or(0),
        _ => 0,
    }
}

fn has_boundary(v: &Jv) -> bool {
    match v {
        Jv::Num(_) => matches!(kind_of(v).0, "int-beyond-2^53" | "u64-above-i64max" | "int-beyond-64bit"),
        Jv::Arr(a) => a.iter().any(has_boundary),
        Jv::Obj(o) => o.iter().any(|(_, x)| has_boundary(x)),
        _ => false,
    }
}

const SRC: &str = "stream T = In .emit(uid: uid, v: v, tv: type_of(v), w: w, tw: type_of(w))";

struct Ev {
    uid: i64,
    v: Jv,
    w: Option<Jv>,
    body: String, // {"event_type":"In","fields":{...}} as sent
}

fn mk_event(uid: i64, rng: &mut Rng) -> Ev {
    let v = gen_val(rng, 4);
    let w = if rng.chance(1, 2) { Some(gen_val(rng, 3)) } else { None };
    let mut fields = String::from("{");
    let mut parts: Vec<String> = vec![format!("\"uid\":{}", uid)];
    let mut s = String::new();
    render(&v, rng, &mut s);
    parts.push(format!("\"v\":{}", s));
    if let Some(w) = &w {
        let mut s = String::new();
        render(w, rng, &mut s);
        parts.push(format!("\"w\":{}", s));
    }
    if rng.chance(1, 4) {
        parts.push("\"ignored\":[1,2,{\"x\":null}]".to_string());
    }
    rng.shuffle(&mut parts);
    fields.push_str(&parts.join(","));
    fields.push('}');
    Ev { uid, v, w, body: format!("{{\"event_type\":\"In\",\"fields\":{}}}", fields) }
}

/// Judge one returned output event (as an object holding uid/v/tv/w/tw) against the injected one.
fn judge(endpoint: &str, ev: &Ev, out: &Jv, req: &str, resp: &str, p: &mut Partial) {
    for (name, tname, inj) in [("v", "tv", Some(&ev.v)), ("w", "tw", ev.w.as_ref())] {
        let Some(inj) = inj else { continue };
        p.add("values_compared", 1);
        let (kind, exp_ty) = kind_of(inj);
        let wit = |what: &str, path: &str, observed: String| {
            json!({"pipeline": SRC, "endpoint": endpoint, "request_body": req, "response_body": resp, "field": name, "at": path,
                   "injected": plain(inj), "expected": what, "observed": observed})
        };
        // in-engine type
        match (exp_ty, get(out, tname)) {
            (Some(t), Some(Jv::Str(s))) => {
                p.add("types_compared", 1);
                if s != t {
                    p.violation(&format!("{}/{}/type-mismatch", endpoint, kind), "the engine saw a value of a different type than the injected JSON value", wit(&format!("type_of = {}", t), name, format!("type_of = {}", s)));
                }
            }
            (Some(t), other) => {
                p.violation(&format!("{}/{}/type-missing", endpoint, kind), "type_of(field) missing from the output event", wit(&format!("type_of = {}", t), name, format!("{:?}", other)));
            }
            (None, _) => {}
        }
        // returned content
        match get(out, name) {
            None => {
                p.violation(&format!("{}/{}/value-missing", endpoint, kind), "injected field missing from the output event", wit(&plain(inj), name, "absent".into()));
            }
            Some(o) => {
                if let Err((leaf_kind, failure, path)) = cmp(inj, o, name) {
                    p.violation(
                        &format!("{}/{}/{}", endpoint, leaf_kind, failure),
                        "the JSON returned for an injected value differs from the injected JSON",
                        wit("returned JSON equals injected JSON (numbers numerically)", &path, plain(o)),
                    );
                }
            }
        }
    }
}

async fn setup() -> Result<(apih::Routes, String), String> {
    let mut mgr = TenantManager::new();
    let q = TenantQuota { max_pipelines: 10, max_events_per_second: 0, max_streams_per_pipeline: 50 };
    mgr.create_tenant("c44".into(), "key-c44".into(), q).map_err(|e| format!("cannot create tenant: {}", e))?;
    let mgr = Arc::new(RwLock::new(mgr));
    let routes = apih::routes(mgr.clone(), None);
    let dep = json!({"name": "c44", "source": SRC}).to_string();
    let r = apih::call(&routes, "POST", "/api/v1/pipelines", &HDR, Some(dep.as_bytes())).await;
    match r.json().and_then(|j| j["id"].as_str().map(|s| s.to_string())) {
        Some(id) if r.status == 201 => Ok((routes, id)),
        _ => Err(format!("deploy of the probe pipeline failed: {} {}", r.status, r.text())),
    }
}

const HDR: [(&str, &str); 1] = [("x-api-key", "key-c44")];

/// Send the events one by one through /events and together through /events-batch; judge every output.
async fn drive(routes: &apih::Routes, pid: &str, evs: &[Ev], sample: bool, out: &mut Partial) {
    let p_single = format!("/api/v1/pipelines/{}/events", pid);
    let p_batch = format!("/api/v1/pipelines/{}/events-batch", pid);
    for e in evs {
        if depth_of(&e.v) >= 2 || has_boundary(&e.v) || e.w.as_ref().map(|w| depth_of(w) >= 2 || has_boundary(w)).unwrap_or(false) {
            out.nontrivial(&e.body);
        }
    }
    // --- single inject ---
    for e in evs {
        out.eval();
        let r = apih::call(routes, "POST", &p_single, &HDR, Some(e.body.as_bytes())).await;
        let resp = r.text();
        if r.status != 200 {
            let k = kind_of(&e.v).0;
            out.violation(&format!("inject/{}/rejected", k), "a valid JSON event was not processed", json!({"pipeline": SRC, "endpoint": "inject", "request_body": e.body, "status": r.status, "response_body": resp}));
            continue;
        }
        match parse_json(&r.body) {
            Ok(j) => {
                let outs = match get(&j, "output_events") { Some(Jv::Arr(a)) => a.clone(), _ => vec![] };
                let mine: Vec<&Jv> = outs.iter().filter_map(|o| get(o, "fields")).filter(|f| matches!(get(f, "uid"), Some(Jv::Num(t)) if *t == e.uid.to_string())).collect();
                if mine.len() != 1 {
                    out.violation("inject/response/output-count", "expected exactly one output event for the injected event", json!({"pipeline": SRC, "endpoint": "inject", "request_body": e.body, "response_body": resp}));
                    continue;
                }
                judge("inject", e, mine[0], &e.body, &resp, out);
            }
            Err(err) => out.violation("inject/response/not-json", "response body is not valid JSON", json!({"endpoint": "inject", "request_body": e.body, "response_body": resp, "error": err})),
        }
        if sample && out.samples.is_empty() && depth_of(&e.v) >= 2 {
            out.sample(json!({"endpoint": "inject", "request_body": e.body, "response_body": resp}));
        }
    }
    // --- batch inject of the same events ---
    out.eval();
    let body = format!("{{\"events\":[{}]}}", evs.iter().map(|e| e.body.clone()).collect::<Vec<_>>().join(","));
    let r = apih::call(routes, "POST", &p_batch, &HDR, Some(body.as_bytes())).await;
    let resp = r.text();
    if r.status != 200 {
        out.violation("inject-batch/request/rejected", "a valid JSON batch was not processed", json!({"pipeline": SRC, "endpoint": "inject-batch", "request_body": body, "status": r.status, "response_body": resp}));
        return;
    }
    match parse_json(&r.body) {
        Ok(j) => {
            let outs = match get(&j, "output_events") { Some(Jv::Arr(a)) => a.clone(), _ => vec![] };
            let acc_ok = matches!(get(&j, "accepted"), Some(Jv::Num(t)) if *t == evs.len().to_string());
            if !acc_ok {
                out.violation("inject-batch/response/accepted-count", "not every event of the batch was accepted", json!({"pipeline": SRC, "endpoint": "inject-batch", "request_body": body, "response_body": resp}));
            }
            for e in evs {
                let mine: Vec<&Jv> = outs.iter().filter(|f| matches!(get(f, "uid"), Some(Jv::Num(t)) if *t == e.uid.to_string())).collect();
                if mine.len() != 1 {
                    out.violation("inject-batch/response/output-count", "expected exactly one output event per injected event", json!({"pipeline": SRC, "endpoint": "inject-batch", "request_body": body, "response_body": resp, "uid": e.uid}));
                    continue;
                }
                judge("inject-batch", e, mine[0], &body, &resp, out);
            }
        }
        Err(err) => out.violation("inject-batch/response/not-json", "response body is not valid JSON", json!({"endpoint": "inject-batch", "request_body": body, "response_body": resp, "error": err})),
    }
    if sample && out.samples.len() < 2 && evs.len() > 1 {
        out.sample(json!({"endpoint": "inject-batch", "request_body": body, "response_body": resp}));
    }
}

/// Events of a recorded request body (single event object or {"events":[..]}).
fn events_of_request(body: &str) -> Result<Vec<Ev>, String> {
    let j = parse_json(body.as_bytes())?;
    let list: Vec<Jv> = match get(&j, "events") {
        Some(Jv::Arr(a)) => a.clone(),
        _ => vec![j.clone()],
    };
    let mut evs = vec![];
    for (i, e) in list.iter().enumerate() {
        let f = get(e, "fields").ok_or("event without fields")?;
        let uid = match get(f, "uid") { Some(Jv::Num(t)) => t.parse::<i64>().unwrap_or(i as i64 + 1), _ => i as i64 + 1 };
        let v = get(f, "v").cloned().ok_or("event without field v")?;
        let w = get(f, "w").cloned();
        let mut parts = vec![format!("\"uid\":{}", uid), format!("\"v\":{}", plain(&v))];
        if let Some(w) = &w {
            parts.push(format!("\"w\":{}", plain(w)));
        }
        evs.push(Ev { uid, v, w, body: format!("{{\"event_type\":\"In\",\"fields\":{{{}}}}}", parts.join(",")) });
    }
    Ok(evs)
}

fn main() {
    let args = Args::parse();
    install_quiet_panic_hook();
    watchdog("C44", args.pick(600, 3600));
    let mut rep = Report::new("C44", "exploration", &args);
    rep.rule = "events with fields uid, v (JSON value of depth <=4) and optionally w (depth <=3) drawn from: null, bools, integers from an i64/u64/2^53 boundary table, integers beyond 64 bit, float literals (table, random f64 shortest form, random 16-20 digit decimals), strings with unicode/escapes/control characters, arrays, objects with odd keys; rendered by the harness with varying escapes; each event goes through POST /events and, grouped 1-4, through POST /events-batch. Non-trivial: payload whose v or w has nesting >=2 or contains a boundary integer (|n| >= 2^53, u64 > i64::MAX, beyond 64 bit); distinct by request text.".into();
    rep.assume("type_of() reports the runtime variant of the value the pipeline received");
    rep.assume("JSON integer literal within i64 corresponds to int, literal with fraction/exponent to float, integer beyond 64 bit to float (nearest double demanded); u64 > i64::MAX has no integer type in the value model, only its numeric value is demanded; `-0` may be int or float");
    rep.assume("Rust's str::parse::<f64> is correctly rounded (reference for number tokens)");

    // Replay of a recorded witness, or of one literal: ./check C44 --replay FILE | --literal '<json>'
    let replay_body: Option<String> = if let Some(f) = &args.replay {
        match std::fs::read_to_string(f).ok().and_then(|t| serde_json::from_str::<serde_json::Value>(&t).ok()) {
            Some(d) => d["witness"]["request_body"].as_str().map(|s| s.to_string()),
            None => None,
        }
    } else {
        args.opt("--literal").map(|l| format!("{{\"event_type\":\"In\",\"fields\":{{\"uid\":1,\"v\":{}}}}}", l))
    };
    if args.replay.is_some() || args.opt("--literal").is_some() {
        rep.min_nontrivial = 0;
        if rep.args.replay.is_none() {
            rep.args.replay = Some(std::path::PathBuf::from("--literal")); // do not overwrite the evidence file
        }
        match replay_body.as_deref().map(events_of_request) {
            Some(Ok(evs)) => {
                let mut out = Partial::default();
                apih::rt().block_on(async {
                    match setup().await {
                        Ok((routes, pid)) => drive(&routes, &pid, &evs, true, &mut out).await,
                        Err(e) => out.inconclusive(&e),
                    }
                });
                rep.merge(out);
            }
            Some(Err(e)) => rep.inconclusive(&format!("cannot parse the recorded request: {}", e)),
            None => rep.inconclusive("replay file has no witness.request_body"),
        }
        std::process::exit(rep.finish());
    }

    let threads = ncpu();
    let cases_per_thread = args.pick(12_000usize, 1_500_000usize);
    let parts = parallel(threads, args.seed, move |ti, mut rng| {
        let mut out = Partial::default();
        let rt = apih::rt();
        rt.block_on(async {
            let (routes, pid) = match setup().await {
                Ok(x) => x,
                Err(e) => {
                    out.inconclusive(&e);
                    return;
                }
            };
            let mut uid: i64 = (ti as i64) * 10_000_000;
            let mut ci = 0usize;
            while ci < cases_per_thread {
                let n = 1 + rng.below(4);
                let evs: Vec<Ev> = (0..n).map(|_| { uid += 1; mk_event(uid, &mut rng) }).collect();
                ci += n;
                drive(&routes, &pid, &evs, ti == 0, &mut out).await;
            }
        });
        out
    });
    for p in parts {
        rep.merge(p);
    }
    std::process::exit(rep.finish());
}
