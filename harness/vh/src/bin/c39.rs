//! C39 — injected connector declarations carry exactly the stored parameters.
//!
//! Workload: cluster connectors that pass `validate_connector`, with parameter values from a
//! hostile grammar (numeric-looking, leading zeros, signs, exponents, inf/nan, quotes, backslashes,
//! newlines, unicode, empty, padded), injected with `inject_connectors` into generated pipeline
//! sources that reference them with `.from(..)` / `.to(..)`.
//! Oracle: (1) the enriched source parses (`varpulis_parser::parse`); (2) its statements are
//! [declarations of the injected connectors] ++ [exactly the statements of the original source]
//! (AST compared as JSON with spans stripped); (3) after `Engine::load`, `Engine::get_connector`
//! reports the stored type and, for every stored parameter, exactly the stored string
//! (url/host/brokers/servers -> `url`, topic -> `topic`, anything else -> `properties[key]`), and
//! nothing else.
use serde_json::{json, Value as J};
use std::collections::{BTreeMap, BTreeSet, HashMap};
use varpulis_cluster::connector_config::{inject_connectors, validate_connector};
use varpulis_cluster::ClusterConnector;
use varpulis_core::ast::Stmt;
use varpulis_runtime::engine::Engine;
use vh::*;

/// Oracle self-test switch (`--perturb <name>`, never set by the driver): deliberately wrong
/// expectations used to confirm that the monitor fires. Run with `--verif-dir <scratch>`.
static PERTURB: std::sync::OnceLock<String> = std::sync::OnceLock::new();
fn perturb(name: &str) -> bool {
    PERTURB.get().map(|p| p == name).unwrap_or(false)
}

// ---------------------------------------------------------------------------------------------
// value classes (finite enumeration used in signatures)
// ---------------------------------------------------------------------------------------------
fn classify(v: &str) -> &'static str {
    if v.contains('"') {
        return "quote";
    }
    let trailing_bs = v.chars().rev().take_while(|c| *c == '\\').count();
    if trailing_bs % 2 == 1 {
        return "trailing-backslash";
    }
    if v.contains('\n') || v.contains('\r') {
        return "newline";
    }
    if v.contains('\\') {
        return "backslash";
    }
    if v.is_empty() {
        return "empty";
    }
    let digits = |s: &str| !s.is_empty() && s.bytes().all(|b| b.is_ascii_digit());
    if digits(v) {
        if v.len() > 1 && v.starts_with('0') {
            return "int-leading-zero";
        }
        if v.parse::<i64>().is_err() {
            return "int-overflow";
        }
        return "int-canonical";
    }
    if (v.starts_with('+') || v.starts_with('-')) && digits(&v[1..]) {
        return "int-signed";
    }
    if let Some((a, b)) = v.split_once('.') {
        if digits(a) && digits(b) {
            let canon = v.parse::<f64>().map(|f| f.to_string() == v).unwrap_or(false);
            return if canon { "float-canonical" } else { "float-noncanonical" };
        }
    }
    if let Ok(f) = v.parse::<f64>() {
        if !f.is_finite() {
            return if v.starts_with('+') || v.starts_with('-') { "float-special-signed" } else { "float-special" };
        }
        if v.contains('e') || v.contains('E') {
            return "float-exponent";
        }
        if v.starts_with('+') || v.starts_with('-') {
            return "float-signed";
        }
        return "float-dot-edge";
    }
    if !v.is_ascii() {
        return "unicode";
    }
    if v.starts_with(' ') || v.ends_with(' ') || v.starts_with('\t') || v.ends_with('\t') {
        return "padded";
    }
    "plain"
}

const HOSTILE: &[&str] = &[
    // numeric looking
    "0", "5", "1883", "9223372036854775807", "9223372036854775808", "18446744073709551615", "18446744073709551616", "9999999999999999999", "007", "00", "0123", "+5", "-5", "-0", "99999999999999999999", "1.5", "0.25", "10.0", "1.50",
    "01.5", "1.0e3", "1e5", "1E5", "1.5e3", "2e-3", "1.", ".5", "-1.5", "+2.5", "inf", "nan", "NaN", "infinity", "Infinity", "-inf", "+inf", "-nan",
    // quotes / backslashes
    "say \"hi\"", "\"", "a\"b", "\"quoted\"", "x\") stream Evil = Tick", "a\") # ", "a\")\n# ", "a\")Z#", "back\\slash", "C:\\dir\\file", "\\n", "a\\\\b", "tail\\", "\\", "a\\\"b",
    // newlines / whitespace / empty
    "", " ", " padded ", "two\nlines", "cr\r\nlf", "\ttab",
    // unicode
    "h\u{f4}te", "\u{4e2d}\u{6587}", "\u{1f600}", "na\u{ef}ve caf\u{e9}",
    // looks like other literals
    "true", "false", "null", "5s", "10ms", "[1,2]", "a,b", "k: v", "x)", "(x", "# not a comment", "// nor this", "mqtt://h:1883", "localhost",
    "connector c = mqtt(host: 1)", "'single'", "a=b", "{}",
];

fn gen_value(rng: &mut Rng) -> String {
    match rng.below(10) {
        0..=6 => rng.pick(HOSTILE).to_string(),
        7 => {
            // random numeric-looking composition
            let mut s = String::new();
            if rng.chance(1, 4) {
                s.push(*rng.pick(&['+', '-']));
            }
            for _ in 0..rng.below(3) {
                s.push('0');
            }
            if rng.chance(1, 4) {
                // 18-21 digit runs around the i64 / u64 limits
                s.push_str(&(1 + rng.below(9)).to_string());
                for _ in 0..17 + rng.below(4) {
                    s.push_str(&rng.below(10).to_string());
                }
            } else {
                s.push_str(&rng.below(1000).to_string());
            }
            if rng.chance(1, 2) {
                s.push('.');
                s.push_str(&rng.below(100).to_string());
                if rng.chance(1, 2) {
                    s.push('0');
                }
            }
            if rng.chance(1, 4) {
                s.push_str(*rng.pick(&["e3", "E2", "e-1", "e+4"]));
            }
            s
        }
        _ => {
            // random composition over a hostile alphabet
            let alpha = ['a', 'Z', '7', ' ', '"', '\\', '.', ',', ':', ')', '(', '-', '\u{e9}', '#', '\n', '_'];
            let n = rng.below(7);
            (0..n).map(|_| *rng.pick(&alpha)).collect()
        }
    }
}

const PLAIN_VALUES: &[&str] = &["localhost", "broker-1", "ticks/in", "abc", "user_7", "x"];
const EXTRA_KEYS: &[&str] = &["port", "topic", "client_id", "qos", "username", "password", "group_id", "tls", "timeout", "path", "method", "k_1", "_p"];
const BAD_KEYS: &[&str] = &["client-id", "a b", "", "1x", "k.v", "k:"];

fn required_key(ty: &str) -> Option<&'static str> {
    match ty {
        "mqtt" => Some("host"),
        "kafka" => Some("brokers"),
        "http" => Some("url"),
        "nats" => Some("servers"),
        _ => None,
    }
}

#[derive(Clone, Debug)]
struct Conn {
    name: String,
    ty: String,
    params: BTreeMap<String, String>,
}

impl Conn {
    fn cluster(&self) -> ClusterConnector {
        ClusterConnector { name: self.name.clone(), connector_type: self.ty.clone(), params: self.params.iter().map(|(k, v)| (k.clone(), v.clone())).collect::<HashMap<_, _>>(), description: None }
    }
    fn json(&self) -> J {
        json!({"name": self.name, "connector_type": self.ty, "params": self.params})
    }
}

fn gen_conn(rng: &mut Rng, name: &str, hostile_params: usize, bad_key: bool) -> Conn {
    let ty = rng.pick(&["mqtt", "kafka", "http", "nats", "console"]).to_string();
    let mut keys: Vec<String> = vec![];
    if let Some(k) = required_key(&ty) {
        keys.push(k.to_string());
    }
    let extra = 1 + rng.below(3);
    let mut pool: Vec<&str> = EXTRA_KEYS.to_vec();
    rng.shuffle(&mut pool);
    for k in pool.into_iter().take(extra) {
        keys.push(k.to_string());
    }
    if bad_key {
        keys.push(rng.pick(BAD_KEYS).to_string());
    }
    let mut idx: Vec<usize> = (0..keys.len()).collect();
    rng.shuffle(&mut idx);
    let hostile: BTreeSet<usize> = idx.into_iter().take(hostile_params).collect();
    let mut params = BTreeMap::new();
    for (i, k) in keys.iter().enumerate() {
        let v = if hostile.contains(&i) { gen_value(rng) } else { rng.pick(PLAIN_VALUES).to_string() };
        params.insert(k.clone(), v);
    }
    Conn { name: name.to_string(), ty, params }
}

// ---------------------------------------------------------------------------------------------
// sources
// ---------------------------------------------------------------------------------------------
struct Src {
    text: String,
    /// connector names referenced and not declared inline
    missing: Vec<String>,
}

const CONN_NAMES: &[&str] = &["mqtt_in", "kafka_out", "c", "_x1", "Conn9", "feed", "sink_2"];

fn gen_source(rng: &mut Rng) -> Src {
    let mut names: Vec<&str> = CONN_NAMES.to_vec();
    rng.shuffle(&mut names);
    let c_in = names[0];
    let c_out = names[1];
    let use_out = rng.chance(1, 2);
    let inline_out = use_out && rng.chance(1, 4);
    let mut t = String::new();
    if rng.chance(1, 3) {
        t.push_str("# pipeline generated by the C39 harness\n");
    }
    if rng.chance(1, 2) {
        t.push_str("event Tick:\n    price: float\n    sym: str\n\n");
    }
    if inline_out {
        t.push_str(&format!("connector {} = console(prefix: \"o\")\n", c_out));
    }
    if rng.chance(1, 3) {
        t.push_str(&format!("const LIMIT = {}\n", rng.below(50)));
    }
    match rng.below(3) {
        0 => t.push_str(&format!("stream A = Tick.from({}, topic: \"ticks\")\n", c_in)),
        1 => t.push_str(&format!("stream A = Tick.from({})\n", c_in)),
        _ => t.push_str(&format!("stream A = Tick.from({}, topic: \"t/{}\", qos: 1)\n", c_in, rng.below(9))),
    }
    match rng.below(4) {
        0 => t.push_str(&format!("stream B = A.where(price > {}.5).emit(p: price, s: sym)\n", rng.below(90))),
        1 => t.push_str("stream B = A.where(sym == \"x\\\"y\" or price < 1.0).emit(p: price, s: sym)\n"),
        2 => t.push_str(&format!("stream B = A.window({}).aggregate(p: sum(price), s: last(sym))\n", 2 + rng.below(5))),
        _ => t.push_str("stream B = A.emit(p: price * 2.0, s: sym)\n"),
    }
    if use_out {
        if rng.chance(1, 2) {
            t.push_str(&format!("stream C = B.where(p > 0.0).to({}, topic: \"out\")\n", c_out));
        } else {
            t.push_str(&format!("stream C = B.to({})\n", c_out));
        }
    }
    if rng.chance(1, 4) {
        while t.ends_with('\n') {
            t.pop();
        }
    }
    let mut missing = vec![c_in.to_string()];
    if use_out && !inline_out {
        missing.push(c_out.to_string());
    }
    Src { text: t, missing }
}

// ---------------------------------------------------------------------------------------------
// AST helpers
// ---------------------------------------------------------------------------------------------
fn strip_spans(v: &J) -> J {
    match v {
        J::Object(m) => {
            if m.len() == 2 && m.contains_key("node") && m.contains_key("span") {
                return strip_spans(&m["node"]);
            }
            J::Object(m.iter().filter(|(k, _)| k.as_str() != "span").map(|(k, v)| (k.clone(), strip_spans(v))).collect())
        }
        J::Array(a) => J::Array(a.iter().map(strip_spans).collect()),
        other => other.clone(),
    }
}

fn stmts_json(p: &varpulis_core::ast::Program) -> Vec<J> {
    p.statements.iter().map(|s| strip_spans(&serde_json::to_value(&s.node).unwrap_or(J::Null))).collect()
}

/// Observed parameters of a loaded connector as (key -> value) in the stored-params vocabulary.
struct ObservedConn {
    ty: String,
    url: String,
    topic: Option<String>,
    props: BTreeMap<String, String>,
}

fn observe(engine: &Engine, name: &str) -> Option<ObservedConn> {
    engine.get_connector(name).map(|c| ObservedConn {
        ty: c.connector_type.clone(),
        url: c.url.clone(),
        topic: c.topic.clone(),
        props: c.properties.iter().map(|(k, v)| (k.clone(), v.clone())).collect(),
    })
}

const URL_KEYS: &[&str] = &["url", "host", "brokers", "servers"];

/// Outcome of checking one (source, connectors) case. Each finding is (outcome kind, detail).
#[derive(Debug, Clone, PartialEq, Eq, PartialOrd, Ord)]
enum Finding {
    ParseError(String),
    RestChanged,
    DeclMissing(String),
    LoadError(String),
    ConnectorMissing(String),
    TypeAltered(String),
    /// (connector, key, observed or None when absent)
    ValueAltered(String, String, Option<String>),
    ExtraParam(String, String),
}

impl Finding {
    fn kind(&self) -> &'static str {
        match self {
            Finding::ParseError(_) => "parse-error",
            Finding::RestChanged => "rest-of-pipeline-changed",
            Finding::DeclMissing(_) => "declaration-missing",
            Finding::LoadError(_) => "load-error",
            Finding::ConnectorMissing(_) => "connector-not-registered",
            Finding::TypeAltered(_) => "type-altered",
            // observed None = the parameter is absent from the loaded connector; both are
            // "the stored value is not carried" (folded so that the kind does not depend on the
            // HashMap iteration order of the parameters after a truncating value)
            Finding::ValueAltered(_, _, _) => "value-altered",
            Finding::ExtraParam(_, _) => "extra-param",
        }
    }
}

struct Checked {
    enriched: String,
    findings: Vec<Finding>,
    /// baseline (original source) does not parse: the case says nothing
    baseline_rejected: bool,
}

fn check(src: &Src, conns: &[Conn]) -> Checked {
    let map: HashMap<String, ClusterConnector> = conns.iter().map(|c| (c.name.clone(), c.cluster())).collect();
    let (enriched, _lines) = inject_connectors(&src.text, &map);
    let mut findings = vec![];
    let base = match varpulis_parser::parse(&src.text) {
        Ok(p) => p,
        Err(_) => return Checked { enriched, findings, baseline_rejected: true },
    };
    let prog = match varpulis_parser::parse(&enriched) {
        Ok(p) => p,
        Err(e) => {
            findings.push(Finding::ParseError(e.to_string()));
            return Checked { enriched, findings, baseline_rejected: false };
        }
    };
    // (2) statements = declarations of injected connectors ++ original statements
    let injected: Vec<&Conn> = src.missing.iter().filter_map(|n| conns.iter().find(|c| &c.name == n)).collect();
    let mut base_js = stmts_json(&base);
    if perturb("baseline-drops-last-statement") {
        base_js.pop();
    }
    let got_js = stmts_json(&prog);
    // the declaration of an injected connector = the first ConnectorDecl with its name (injected
    // names are not declared in the original source); everything else is "the rest"
    let mut declared: BTreeSet<String> = BTreeSet::new();
    let mut rest: Vec<&J> = vec![];
    for (i, s) in prog.statements.iter().enumerate() {
        match &s.node {
            Stmt::ConnectorDecl { name, .. } if injected.iter().any(|c| &c.name == name) && !declared.contains(name) => {
                declared.insert(name.clone());
            }
            _ => rest.push(&got_js[i]),
        }
    }
    for c in &injected {
        if !declared.contains(&c.name) {
            findings.push(Finding::DeclMissing(c.name.clone()));
        }
    }
    if rest.len() != base_js.len() || rest.iter().zip(base_js.iter()).any(|(a, b)| *a != b) {
        findings.push(Finding::RestChanged);
    }
    // (3) engine view
    let (tx, _rx) = tokio::sync::mpsc::channel(16);
    let mut engine = Engine::new(tx);
    if let Err(e) = engine.load(&prog) {
        findings.push(Finding::LoadError(e));
        return Checked { enriched, findings, baseline_rejected: false };
    }
    for c in &injected {
        let o = match observe(&engine, &c.name) {
            Some(o) => o,
            None => {
                // a missing declaration already explains a connector that is not registered
                if !findings.contains(&Finding::DeclMissing(c.name.clone())) {
                    findings.push(Finding::ConnectorMissing(c.name.clone()));
                }
                continue;
            }
        };
        if o.ty != c.ty || perturb("type-never-matches") {
            findings.push(Finding::TypeAltered(c.name.clone()));
        }
        let mut expected_props: BTreeSet<&str> = BTreeSet::new();
        let mut has_url = false;
        let mut has_topic = false;
        for (k, v) in &c.params {
            if URL_KEYS.contains(&k.as_str()) {
                has_url = true;
                if &o.url != v {
                    findings.push(Finding::ValueAltered(c.name.clone(), k.clone(), Some(o.url.clone())));
                }
            } else if k == "topic" {
                has_topic = true;
                if o.topic.as_ref() != Some(v) {
                    findings.push(Finding::ValueAltered(c.name.clone(), k.clone(), o.topic.clone()));
                }
            } else {
                expected_props.insert(k.as_str());
                match o.props.get(k) {
                    Some(ov) if ov == v => {}
                    other => findings.push(Finding::ValueAltered(c.name.clone(), k.clone(), other.cloned())),
                }
            }
        }
        for k in o.props.keys() {
            if !expected_props.contains(k.as_str()) {
                findings.push(Finding::ExtraParam(c.name.clone(), k.clone()));
            }
        }
        if !has_url && !o.url.is_empty() {
            findings.push(Finding::ExtraParam(c.name.clone(), "url".into()));
        }
        if !has_topic && o.topic.is_some() {
            findings.push(Finding::ExtraParam(c.name.clone(), "topic".into()));
        }
    }
    Checked { enriched, findings, baseline_rejected: false }
}

fn is_identifier(k: &str) -> bool {
    let mut cs = k.chars();
    match cs.next() {
        Some(c) if c.is_ascii_alphabetic() || c == '_' => cs.all(|c| c.is_ascii_alphanumeric() || c == '_'),
        _ => false,
    }
}

fn name_class(n: &str) -> &'static str {
    if n.starts_with('_') {
        "leading-underscore"
    } else if n.chars().any(|c| c.is_ascii_uppercase()) {
        "mixed-case"
    } else {
        "plain"
    }
}

fn finding_conn(f: &Finding) -> Option<&str> {
    match f {
        Finding::DeclMissing(c) | Finding::ConnectorMissing(c) | Finding::TypeAltered(c) => Some(c),
        Finding::ValueAltered(c, _, _) | Finding::ExtraParam(c, _) => Some(c),
        _ => None,
    }
}

/// Attribute the findings of a failing case.
/// 1. benign twin (every value "x", non-identifier keys dropped): what still fails there is due to
///    the connector name / the source, and is keyed by the class of the connector name;
/// 2. one suspicious parameter (hostile value or non-identifier key) at a time on top of the benign
///    twin: what fails in addition is keyed by the class of that value (or key);
/// 3. nothing reproduces alone: the combination is reported.
fn attribute(src: &Src, conns: &[Conn], out: &mut Partial, case_json: &J) {
    let benign_of = |keep: Option<(usize, &str)>| -> Vec<Conn> {
        let mut iso: Vec<Conn> = conns.to_vec();
        for (cj, cc) in iso.iter_mut().enumerate() {
            let keys: Vec<String> = cc.params.keys().cloned().collect();
            for kk in keys {
                if let Some((ci, k)) = keep {
                    if cj == ci && kk == k {
                        continue;
                    }
                }
                if !is_identifier(&kk) {
                    cc.params.remove(&kk);
                } else {
                    cc.params.insert(kk, "x".into());
                }
            }
        }
        iso
    };
    let mut reported = false;
    let benign_conns = benign_of(None);
    let benign = check(src, &benign_conns);
    let benign_set: BTreeSet<Finding> = benign.findings.iter().cloned().collect();
    if !benign.findings.is_empty() {
        reported = true;
        let mut seen: BTreeSet<String> = BTreeSet::new();
        for f in &benign.findings {
            let cls = finding_conn(f).map(name_class).unwrap_or("unattributed");
            let sig = format!("name/{}/{}", cls, f.kind());
            if seen.insert(sig.clone()) {
                out.violation(
                    &sig,
                    "a validated connector with harmless parameter values is not injected / not declared as stored",
                    json!({"connectors": benign_conns.iter().map(|c| c.json()).collect::<Vec<_>>(), "source": src.text, "enriched_source": benign.enriched,
                        "findings": benign.findings.iter().map(|f| format!("{:?}", f)).collect::<Vec<_>>(), "original_case": case_json}),
                );
            }
        }
    }
    for (ci, c) in conns.iter().enumerate() {
        if !src.missing.contains(&c.name) {
            continue;
        }
        for (k, v) in &c.params {
            let suspicious = classify(v) != "plain" || !is_identifier(k);
            if !suspicious {
                continue;
            }
            let iso = benign_of(Some((ci, k.as_str())));
            let r = check(src, &iso);
            let extra: Vec<&Finding> = r.findings.iter().filter(|f| !benign_set.contains(*f)).collect();
            if extra.is_empty() {
                continue;
            }
            reported = true;
            let kinds: BTreeSet<&'static str> = extra.iter().map(|f| f.kind()).collect();
            for kind in kinds {
                let sig = if !is_identifier(k) { format!("key/non-identifier/{}", kind) } else { format!("param/{}/{}", classify(v), kind) };
                out.violation(
                    &sig,
                    "a validated connector's injected declaration does not parse / does not carry exactly the stored parameter / changes the rest of the pipeline",
                    json!({"connector": iso[ci].json(), "param": {"key": k, "stored_value": v}, "source": src.text, "enriched_source": r.enriched,
                        "findings": extra.iter().map(|f| format!("{:?}", f)).collect::<Vec<_>>(), "original_case": case_json}),
                );
            }
        }
    }
    if !reported {
        // no single parameter reproduces it: report the combination
        let r = check(src, conns);
        let kinds: BTreeSet<&'static str> = r.findings.iter().map(|f| f.kind()).collect();
        for kind in kinds {
            out.violation(
                &format!("combination/{}", kind),
                "a validated connector's injection fails although every parameter alone is carried correctly",
                json!({"case": case_json, "enriched_source": r.enriched, "findings": r.findings.iter().map(|f| format!("{:?}", f)).collect::<Vec<_>>()}),
            );
        }
    }
}

fn main() {
    let args = Args::parse();
    install_quiet_panic_hook();
    watchdog("C39", args.pick(600, 3600));
    if let Some(p) = args.opt("--perturb") {
        let _ = PERTURB.set(p);
    }
    let mut rep = Report::new("C39", "exploration", &args);
    rep.rule = "connectors (types mqtt/kafka/http/nats/console, required key + 1-3 further identifier keys; a small lane adds one non-identifier key) that pass validate_connector, with 1-2 parameter values drawn from a hostile pool/grammar (numeric-looking, leading zeros, signs, exponents, inf/nan, quotes, backslashes, newlines, unicode, empty, padded, literal look-alikes); injected into generated sources (event decl / const / inline declaration of the other connector / .from with and without params / where, window+aggregate, emit / .to) that reference 1-2 stored connectors. Non-trivial: a case whose injected connector has >=1 value of a class other than `plain`; distinct by (source, connectors).".into();
    rep.assume("the original source's own AST is the baseline for 'the rest of the pipeline' (equivalent to a hand-written declaration, and defined also for values no declaration can spell)");
    rep.assume("Engine::get_connector after Engine::load is the observation of 'declares that connector with these parameters': url/host/brokers/servers -> url, topic -> topic, others -> properties");
    rep.assume("connectors never use client_id_mode=append_pipeline (documented rewriting of the source, outside this property)");
    // Engine::load may create a dead-letter file in the cwd when sinks exist: work in a scratch dir.
    let scratch = tempfile::tempdir().ok();
    if let Some(d) = &scratch {
        let _ = std::env::set_current_dir(d.path());
    }
    let threads = ncpu();
    let n_cases = args.pick(1600usize, 30_000usize) / threads + 1;
    let parts = parallel(threads, args.seed, move |ti, mut rng| {
        let mut out = Partial::default();
        let rt = vh::eng::rt();
        let _g = rt.enter();
        // fixed lane first (thread 0): every pool value alone on an mqtt connector
        if ti == 0 {
            for v in HOSTILE {
                let src = Src { text: "stream A = Tick.from(c, topic: \"t\")\n".into(), missing: vec!["c".into()] };
                let mut params = BTreeMap::new();
                params.insert("host".to_string(), "localhost".to_string());
                params.insert("client_id".to_string(), v.to_string());
                let conns = vec![Conn { name: "c".into(), ty: "mqtt".into(), params }];
                run_one(&src, &conns, &mut out);
            }
        }
        for _ in 0..n_cases {
            let src = gen_source(&mut rng);
            let bad_key = rng.chance(1, 25);
            let mut conns = vec![];
            for name in &src.missing {
                let hostile = if rng.chance(1, 8) { 0 } else { 1 + rng.below(2) };
                conns.push(gen_conn(&mut rng, name, hostile, bad_key && conns.is_empty()));
            }
            // an unrelated stored connector that must not matter
            if rng.chance(1, 3) {
                conns.push(gen_conn(&mut rng, "unused_conn", 1, false));
            }
            run_one(&src, &conns, &mut out);
        }
        out
    });
    for p in parts {
        rep.merge(p);
    }
    drop(scratch);
    std::process::exit(rep.finish());
}

fn run_one(src: &Src, conns: &[Conn], out: &mut Partial) {
    for c in conns {
        if validate_connector(&c.cluster()).is_err() {
            out.add("rejected_by_validation", 1);
            return;
        }
    }
    let case_json = json!({"source": src.text, "connectors": conns.iter().map(|c| c.json()).collect::<Vec<_>>()});
    out.eval();
    let r = catch(std::panic::AssertUnwindSafe(|| check(src, conns)));
    let r = match r {
        Ok(r) => r,
        Err(p) => {
            out.violation("panic", "panic while injecting/parsing/loading", json!({"case": case_json, "panic": p, "site": panic_site(&last_panic_location())}));
            return;
        }
    };
    if r.baseline_rejected {
        out.add("baseline_source_rejected", 1);
        if out.counters.get("baseline_source_rejected").copied().unwrap_or(0) <= 2 {
            out.sample(json!({"baseline_rejected": src.text}));
        }
        return;
    }
    let classes: BTreeSet<&'static str> = conns.iter().filter(|c| src.missing.contains(&c.name)).flat_map(|c| c.params.values().map(|v| classify(v))).collect();
    for cl in &classes {
        out.add(&format!("class:{}", cl), 1);
    }
    if classes.iter().any(|c| *c != "plain") {
        out.nontrivial(&(src.text.clone(), conns.iter().map(|c| (c.name.clone(), c.ty.clone(), c.params.clone())).collect::<Vec<_>>()));
    }
    if r.findings.is_empty() {
        out.add("cases_exact", 1);
        if out.samples.len() < 2 && classes.iter().any(|c| *c != "plain") {
            out.sample(json!({"case": case_json, "enriched_source": r.enriched, "verdict": "exact"}));
        }
        return;
    }
    if let Err(p) = catch(std::panic::AssertUnwindSafe(|| attribute(src, conns, out, &case_json))) {
        out.violation("panic", "panic while injecting/parsing/loading", json!({"case": case_json, "panic": p, "site": panic_site(&last_panic_location())}));
    }
}
