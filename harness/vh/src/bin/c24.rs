//! C24 — watermarks never regress per source; effective = min over sources that have one; an event
//! is dropped as late only if it is behind the effective watermark by more than the allowed lateness
//! of the streams consuming it.
//! Monitor: (tracker lane) the real `PerSourceWatermarkTracker` is driven with random multi-source
//! observe/advance sequences and read back through `checkpoint()` + `effective_watermark()` after
//! every operation; (engine lane) real engines run programs with `.watermark(out_of_order:)` /
//! `.allowed_lateness()` over pass-through consumers, event by event. Oracle: a reference tracker
//! (own bookkeeping: per source max timestamp - bound, never decreasing; effective = min over the
//! sources that have a watermark). A uid missing from a pass-through consumer's output was dropped;
//! that is allowed only if ts < wm_eff(reference, before the event) - max lateness of its consumers.
use serde_json::{json, Value as J};
use std::collections::{BTreeMap, BTreeSet};
use varpulis_core::Value;
use varpulis_runtime::watermark::PerSourceWatermarkTracker;
use vh::eng::*;
use vh::*;

const BASE_MS: i64 = 1_704_067_200_000;

// ---------------------------------------------------------------------------
// Reference tracker
// ---------------------------------------------------------------------------
#[derive(Clone, Debug, Default)]
struct RefSource {
    bound: i64,
    max_ts: Option<i64>,
    wm: Option<i64>,
}

#[derive(Clone, Debug, Default)]
struct RefTracker {
    sources: BTreeMap<String, RefSource>,
}

impl RefTracker {
    fn register(&mut self, name: &str, bound: i64) {
        self.sources.insert(name.to_string(), RefSource { bound, max_ts: None, wm: None });
    }
    /// A source's watermark is (largest timestamp seen) - (its out-of-order bound), and never goes back.
    /// A source that was never declared has bound 0.
    fn observe(&mut self, name: &str, ts: i64) {
        let s = self.sources.entry(name.to_string()).or_default();
        if s.max_ts.map_or(true, |m| ts > m) {
            s.max_ts = Some(ts);
        }
        let cand = s.max_ts.unwrap() - s.bound;
        if s.wm.map_or(true, |w| cand > w) {
            s.wm = Some(cand);
        }
    }
    fn advance(&mut self, name: &str, wm: i64) {
        if let Some(s) = self.sources.get_mut(name) {
            if s.wm.map_or(true, |w| wm > w) {
                s.wm = Some(wm);
            }
        }
    }
    fn effective(&self) -> Option<i64> {
        self.sources.values().filter_map(|s| s.wm).min()
    }
    fn argmin(&self) -> Option<String> {
        let e = self.effective()?;
        self.sources.iter().find(|(_, s)| s.wm == Some(e)).map(|(n, _)| n.clone())
    }
    fn json(&self) -> J {
        json!({"sources": self.sources.iter().map(|(n, s)| (n.clone(), json!({"bound_ms": s.bound, "max_ts": s.max_ts, "watermark": s.wm}))).collect::<serde_json::Map<_, _>>(), "effective": self.effective()})
    }
}

/// Observed real tracker state (relative ms).
#[derive(Clone, Debug, PartialEq)]
struct Seen {
    sources: BTreeMap<String, Option<i64>>,
    effective: Option<i64>,
}

fn seen_of(cp: &varpulis_runtime::persistence::WatermarkCheckpoint) -> Seen {
    Seen {
        sources: cp.sources.iter().map(|(n, s)| (n.clone(), s.watermark_ms.map(|w| w - BASE_MS))).collect(),
        effective: cp.effective_watermark_ms.map(|w| w - BASE_MS),
    }
}

/// The three checks on an observed tracker state. `prefix` = "tracker" or "engine-tracker".
fn judge_state(prefix: &str, prev: Option<&Seen>, now: &Seen, model: &RefTracker, witness: &dyn Fn() -> J, out: &mut Partial) {
    out.add("tracker_states_checked", 1);
    // (1) per-source watermark never decreases
    if let Some(p) = prev {
        for (n, pw) in &p.sources {
            if let Some(pw) = pw {
                let nw = now.sources.get(n).cloned().flatten();
                if nw.map_or(true, |x| x < *pw) {
                    out.violation(&format!("{}/source-watermark/decreased", prefix), "a source's watermark went backwards", json!({"source": n, "before": pw, "after": nw, "history": witness()}));
                }
            }
        }
    }
    // (2) effective = min over the sources that have a watermark (on the real tracker's own numbers)
    let real_min = now.sources.values().filter_map(|w| *w).min();
    if now.effective != real_min {
        out.violation(&format!("{}/effective/not-min-of-source-watermarks", prefix), "effective watermark is not the minimum of the source watermarks the tracker itself reports", json!({"effective": now.effective, "source_watermarks": now.sources, "min": real_min, "history": witness()}));
    }
    // (3) agreement with the reference tracker
    let mut ref_sources: BTreeMap<String, Option<i64>> = model.sources.iter().map(|(n, s)| (n.clone(), s.wm)).collect();
    // sources known to only one side with no watermark are immaterial
    for (n, w) in &now.sources {
        if w.is_none() {
            ref_sources.entry(n.clone()).or_insert(None);
        }
    }
    let mut real_sources = now.sources.clone();
    for (n, w) in &ref_sources {
        if w.is_none() {
            real_sources.entry(n.clone()).or_insert(None);
        }
    }
    if real_sources != ref_sources {
        out.violation(&format!("{}/source-watermark/differs-from-reference", prefix), "per-source watermarks differ from max(timestamp) - bound kept monotone", json!({"real": now.sources, "reference": model.json(), "history": witness()}));
    } else if now.effective != model.effective() {
        out.violation(&format!("{}/effective/differs-from-reference", prefix), "effective watermark differs from the reference", json!({"real": now.effective, "reference": model.json(), "history": witness()}));
    }
}

// ---------------------------------------------------------------------------
// Disordered multi-source timestamps
// ---------------------------------------------------------------------------
struct Clock {
    t: i64,
    lag: Vec<i64>,
}

impl Clock {
    fn new(rng: &mut Rng, nsrc: usize) -> Clock {
        Clock { t: 1000, lag: (0..nsrc).map(|_| *rng.pick(&[0i64, 0, 3, 8, 20, 40])).collect() }
    }
    fn tick(&mut self, rng: &mut Rng) {
        self.t += *rng.pick(&[0i64, 0, 1, 1, 2, 3, 5, 10]);
    }
    fn ts(&self, rng: &mut Rng, src: usize) -> i64 {
        let jitter = match rng.below(4) {
            0 => 0,
            1 => rng.range(-3, 3),
            2 => rng.range(-15, 15),
            _ => -rng.range(0, 30),
        };
        (self.t - self.lag[src] + jitter).max(1)
    }
}

// ---------------------------------------------------------------------------
// Tracker lane
// ---------------------------------------------------------------------------
#[derive(Clone, Debug)]
enum TOp {
    Observe(String, i64),
    Advance(String, i64),
}

fn top_json(o: &TOp) -> J {
    match o {
        TOp::Observe(s, t) => json!({"observe_event": s, "ts_ms": t}),
        TOp::Advance(s, w) => json!({"advance_source_watermark": s, "wm_ms": w}),
    }
}

fn run_tracker_case(registered: &[(String, i64)], ops: &[TOp], out: &mut Partial) -> (usize, usize) {
    out.eval();
    let mut real = PerSourceWatermarkTracker::new();
    let mut model = RefTracker::default();
    for (n, b) in registered {
        real.register_source(n, chrono::Duration::milliseconds(*b));
        model.register(n, *b);
    }
    let mut prev: Option<Seen> = None;
    let mut argmin_changes = 0usize;
    let mut last_argmin: Option<String> = None;
    let mut late = 0usize;
    for (i, op) in ops.iter().enumerate() {
        match op {
            TOp::Observe(s, t) => {
                if model.effective().map_or(false, |e| *t < e) {
                    late += 1;
                }
                real.observe_event(s, ts_ms(*t));
                model.observe(s, *t);
            }
            TOp::Advance(s, w) => {
                real.advance_source_watermark(s, ts_ms(*w));
                model.advance(s, *w);
            }
        }
        let mut now = seen_of(&real.checkpoint());
        let direct = real.effective_watermark().map(|w| w.timestamp_millis() - BASE_MS);
        let w = || json!({"lane": "tracker", "registered": registered, "ops": ops[..=i].iter().map(top_json).collect::<Vec<_>>()});
        if direct != now.effective {
            out.violation("tracker/effective/checkpoint-differs-from-accessor", "checkpoint().effective_watermark_ms differs from effective_watermark()", json!({"accessor": direct, "checkpoint": now.effective, "history": w()}));
            now.effective = direct;
        }
        judge_state("tracker", prev.as_ref(), &now, &model, &w, out);
        prev = Some(now);
        let am = model.argmin();
        if am.is_some() && am != last_argmin {
            if last_argmin.is_some() {
                argmin_changes += 1;
            }
            last_argmin = am;
        }
    }
    (argmin_changes, late)
}

fn tracker_lane(rng: &mut Rng, n: usize, out: &mut Partial) {
    for ci in 0..n {
        let nsrc = 2 + rng.below(3);
        let names: Vec<String> = (0..nsrc).map(|i| format!("s{}", i)).collect();
        let mut registered = vec![];
        for nm in &names {
            if rng.chance(3, 4) {
                registered.push((nm.clone(), *rng.pick(&[0i64, 0, 1, 2, 5, 10, 25])));
            }
        }
        let mut clock = Clock::new(rng, nsrc);
        let nops = 8 + rng.below(50);
        // some sources join late
        let join_at: Vec<usize> = (0..nsrc).map(|i| if i > 0 && rng.chance(1, 3) { rng.below(nops) } else { 0 }).collect();
        let mut ops = vec![];
        for k in 0..nops {
            clock.tick(rng);
            let s = rng.below(nsrc);
            if join_at[s] > k {
                continue;
            }
            if rng.chance(1, 6) {
                ops.push(TOp::Advance(names[s].clone(), (clock.t - rng.range(-5, 25)).max(1)));
            } else {
                ops.push(TOp::Observe(names[s].clone(), clock.ts(rng, s)));
            }
        }
        let (changes, late) = run_tracker_case(&registered, &ops, out);
        out.add("tracker_ops", ops.len() as u64);
        if changes >= 2 && late >= 1 {
            out.nontrivial(&format!("T{:?}{:?}", registered, ops));
        }
        if ci == 0 {
            out.sample(json!({"lane": "tracker", "registered": registered, "ops": ops.iter().map(top_json).collect::<Vec<_>>()}));
        }
    }
}

// ---------------------------------------------------------------------------
// Engine lane
// ---------------------------------------------------------------------------
#[derive(Clone, Debug)]
struct EStream {
    name: String,
    /// one type, or two (merge)
    types: Vec<String>,
    bound: Option<i64>,
    lateness: Option<i64>,
}

impl EStream {
    fn vpl(&self) -> String {
        let src = if self.types.len() == 1 { self.types[0].clone() } else { format!("merge({}, {})", self.types[0], self.types[1]) };
        let mut s = format!("stream {} = {}\n", self.name, src);
        if let Some(b) = self.bound {
            s.push_str(&format!("    .watermark(out_of_order: {}ms)\n", b));
        }
        if let Some(l) = self.lateness {
            s.push_str(&format!("    .allowed_lateness({}ms)\n", l));
        }
        s.push_str("    .emit(uid: uid)\n");
        s
    }
}

#[derive(Clone, Debug)]
enum EStep {
    Ev { uid: i64, ty: String, ts: i64 },
    Adv { src: String, wm: i64 },
}

#[derive(Clone, Debug)]
struct ECase {
    streams: Vec<EStream>,
    /// engine.enable_watermark_tracking() + register_watermark_source(name, bound) done by hand
    external: Option<(String, i64)>,
    steps: Vec<EStep>,
}

impl ECase {
    fn vpl(&self) -> String {
        self.streams.iter().map(|s| s.vpl()).collect::<Vec<_>>().join("\n")
    }
    fn json(&self, upto: usize) -> J {
        json!({
            "lane": "engine",
            "program": self.vpl(),
            "streams": self.streams.iter().map(|s| json!({"name": s.name, "types": s.types, "bound": s.bound, "lateness": s.lateness})).collect::<Vec<_>>(),
            "external_source": self.external.as_ref().map(|(n, b)| json!({"enable_watermark_tracking": true, "register_watermark_source": n, "bound_ms": b})),
            "steps": self.steps[..upto.min(self.steps.len())].iter().map(|s| match s {
                EStep::Ev { uid, ty, ts } => json!({"process": {"uid": uid, "type": ty, "ts_ms": ts}}),
                EStep::Adv { src, wm } => json!({"advance_external_watermark": src, "wm_ms": wm}),
            }).collect::<Vec<_>>(),
            "ts_base": "2024-01-01T00:00:00Z + ts_ms",
        })
    }
    fn from_json(w: &J) -> Option<ECase> {
        let streams = w["streams"].as_array()?.iter().map(|s| EStream {
            name: s["name"].as_str().unwrap_or("").to_string(),
            types: s["types"].as_array().map(|a| a.iter().filter_map(|x| x.as_str().map(String::from)).collect()).unwrap_or_default(),
            bound: s["bound"].as_i64(),
            lateness: s["lateness"].as_i64(),
        }).collect();
        let external = w["external_source"].as_object().map(|o| (o["register_watermark_source"].as_str().unwrap_or("up").to_string(), o["bound_ms"].as_i64().unwrap_or(0)));
        let steps = w["steps"].as_array()?.iter().filter_map(|s| {
            if let Some(p) = s.get("process") {
                Some(EStep::Ev { uid: p["uid"].as_i64()?, ty: p["type"].as_str()?.to_string(), ts: p["ts_ms"].as_i64()? })
            } else {
                Some(EStep::Adv { src: s["advance_external_watermark"].as_str()?.to_string(), wm: s["wm_ms"].as_i64()? })
            }
        }).collect();
        Some(ECase { streams, external, steps })
    }
}

fn run_engine_case(c: &ECase, rt: &tokio::runtime::Runtime, out: &mut Partial, verbose: bool) -> Option<(usize, usize, usize)> {
    out.eval();
    let src = c.vpl();
    let mut l = match catch(std::panic::AssertUnwindSafe(|| load(&src))) {
        Ok(Ok(l)) => l,
        Ok(Err(e)) => {
            out.add("programs_rejected", 1);
            if out.counters.get("programs_rejected").copied().unwrap_or(0) <= 2 {
                out.sample(json!({"rejected_program": src, "error": e}));
            }
            return None;
        }
        Err(p) => {
            out.violation("engine/panic-on-load", "engine panicked loading a watermark program", json!({"program": src, "panic": p, "site": panic_site(&last_panic_location())}));
            return None;
        }
    };
    let mut model = RefTracker::default();
    let mut tracking = false;
    // declared bounds: the program's .watermark ops in stream order (one per type by construction)
    for s in &c.streams {
        if let (Some(b), 1) = (s.bound, s.types.len()) {
            model.register(&s.types[0], b);
            tracking = true;
        } else if s.bound.is_some() {
            tracking = true; // .watermark on a merge source enables tracking but declares no source
        }
    }
    if let Some((n, b)) = &c.external {
        l.engine.enable_watermark_tracking();
        l.engine.register_watermark_source(n, chrono::Duration::milliseconds(*b));
        model.register(n, *b);
        tracking = true;
    }
    let any_lateness_cfg = c.streams.iter().any(|s| s.lateness.is_some());
    let mut prev: Option<Seen> = None;
    let (mut changes, mut late, mut dropped) = (0usize, 0usize, 0usize);
    let mut last_argmin: Option<String> = None;
    for (i, st) in c.steps.iter().enumerate() {
        let w = || c.json(i + 1);
        match st {
            EStep::Adv { src, wm } => {
                let r = catch(std::panic::AssertUnwindSafe(|| rt.block_on(l.engine.advance_external_watermark(src, BASE_MS + *wm))));
                if !matches!(r, Ok(Ok(()))) {
                    out.inconclusive(&format!("advance_external_watermark failed: {:?}", r.err()));
                    return None;
                }
                if tracking {
                    model.advance(src, *wm);
                }
                l.drain();
            }
            EStep::Ev { uid, ty, ts } => {
                let eff_before = if tracking { model.effective() } else { None };
                if eff_before.map_or(false, |e| *ts < e) {
                    late += 1;
                }
                let e = ev(ty, ts_ms(*ts), &[("uid", Value::Int(*uid))]);
                let r = catch(std::panic::AssertUnwindSafe(|| rt.block_on(l.engine.process(e))));
                match r {
                    Ok(Ok(())) => {}
                    Ok(Err(e)) => {
                        out.inconclusive(&format!("engine.process error: {}", e));
                        return None;
                    }
                    Err(p) => {
                        out.violation("engine/panic-on-process", "engine panicked processing an event of a watermark program", json!({"case": w(), "panic": p, "site": panic_site(&last_panic_location())}));
                        return None;
                    }
                }
                let outs = l.drain();
                let mut by_stream: BTreeMap<String, BTreeSet<i64>> = BTreeMap::new();
                for o in &outs {
                    if let Some(u) = get_i(o, "uid") {
                        by_stream.entry(o.event_type.to_string()).or_default().insert(u);
                    }
                }
                let consumers: Vec<&EStream> = c.streams.iter().filter(|s| s.types.contains(ty)).collect();
                let present: Vec<&str> = consumers.iter().filter(|s| by_stream.get(&s.name).map_or(false, |u| u.contains(uid))).map(|s| s.name.as_str()).collect();
                let missing: Vec<&str> = consumers.iter().filter(|s| !present.contains(&s.name.as_str())).map(|s| s.name.as_str()).collect();
                out.add("events_observed", 1);
                if verbose {
                    println!("step {} uid={} type={} ts={} eff_before(ref)={:?} present={:?} missing={:?}", i, uid, ty, ts, eff_before, present, missing);
                }
                if !missing.is_empty() {
                    dropped += 1;
                    out.add("events_dropped", 1);
                    let max_l = consumers.iter().filter_map(|s| s.lateness).max().unwrap_or(0);
                    let allowed = eff_before.map_or(false, |e| *ts < e - max_l);
                    if allowed {
                        out.add("drops_justified_by_reference", 1);
                        if eff_before.map_or(false, |e| *ts == e - max_l - 1) {
                            out.add("drops_exactly_one_ms_beyond_lateness", 1);
                        }
                    } else {
                        let why = match eff_before {
                            None => "no-effective-watermark",
                            Some(e) if *ts >= e => "not-behind-watermark",
                            Some(_) => "within-allowed-lateness",
                        };
                        let scope = if present.is_empty() { "dropped" } else { "dropped-for-some-consumers" };
                        out.violation(
                            &format!("engine/{}/{}", scope, why),
                            "an event is missing from a pass-through consumer although it is not later than the allowed lateness behind the effective watermark",
                            json!({"event": {"uid": uid, "type": ty, "ts_ms": ts}, "missing_from": missing, "present_in": present, "reference_effective_watermark_before": eff_before, "max_allowed_lateness_of_consumers_ms": max_l, "reference": model.json(), "case": w()}),
                        );
                    }
                } else if eff_before.map_or(false, |e| *ts < e) {
                    out.add("late_events_kept", 1);
                    if any_lateness_cfg {
                        out.add("late_events_kept_within_lateness", 1);
                    }
                }
                if tracking && !present.is_empty() {
                    // the engine processed it, so the source saw it
                    model.observe(ty, *ts);
                }
            }
        }
        // tracker state as the engine checkpoints it
        let cp = l.engine.create_checkpoint();
        match (&cp.watermark_state, tracking) {
            (Some(ws), true) => {
                let now = seen_of(ws);
                judge_state("engine-tracker", prev.as_ref(), &now, &model, &w, out);
                prev = Some(now);
            }
            (None, false) => {}
            (Some(ws), false) => {
                if ws.effective_watermark_ms.is_some() {
                    out.inconclusive("harness: engine tracks watermarks although the case declares none");
                    return None;
                }
            }
            (None, true) => {
                out.inconclusive("harness: engine has no watermark tracker although the case declares one");
                return None;
            }
        }
        let am = model.argmin();
        if am.is_some() && am != last_argmin {
            if last_argmin.is_some() {
                changes += 1;
            }
            last_argmin = am;
        }
    }
    Some((changes, late, dropped))
}

fn gen_engine_case(rng: &mut Rng) -> ECase {
    let all = ["A", "B", "C"];
    let nt = 2 + rng.below(2);
    let types: Vec<String> = all[..nt].iter().map(|s| s.to_string()).collect();
    let mut streams: Vec<EStream> = vec![];
    let lateness_any = rng.chance(5, 6);
    let pick_l = |rng: &mut Rng| if lateness_any && rng.chance(2, 3) { Some(*rng.pick(&[0i64, 1, 2, 5, 10, 20])) } else { None };
    for t in &types {
        let declared = rng.chance(3, 4);
        let n_cons = 1 + rng.below(2);
        for k in 0..n_cons {
            streams.push(EStream {
                name: format!("P{}{}", t, k),
                types: vec![t.clone()],
                bound: if declared && k == 0 { Some(*rng.pick(&[0i64, 1, 3, 5, 10])) } else { None },
                lateness: pick_l(rng),
            });
        }
    }
    if rng.chance(1, 3) {
        streams.push(EStream { name: "M".into(), types: vec![types[0].clone(), types[1].clone()], bound: None, lateness: pick_l(rng) });
    }
    rng.shuffle(&mut streams);
    let external = if rng.chance(1, 4) { Some(("upstream".to_string(), 0i64)) } else { None };
    let mut clock = Clock::new(rng, nt);
    let nsteps = 10 + rng.below(40);
    let join_at: Vec<usize> = (0..nt).map(|i| if i > 0 && rng.chance(1, 3) { rng.below(nsteps) } else { 0 }).collect();
    let mut steps = vec![];
    let mut uid = 0;
    // shadow reference only to aim timestamps at the decision boundary (not part of the oracle)
    let mut aim = RefTracker::default();
    for s in &streams {
        if let (Some(b), 1) = (s.bound, s.types.len()) {
            aim.register(&s.types[0], b);
        }
    }
    for k in 0..nsteps {
        clock.tick(rng);
        if let Some((n, _)) = &external {
            if rng.chance(1, 6) {
                let wm = (clock.t - rng.range(0, 40)).max(1);
                steps.push(EStep::Adv { src: n.clone(), wm });
                aim.advance(n, wm);
                continue;
            }
        }
        let s = rng.below(nt);
        if join_at[s] > k {
            continue;
        }
        uid += 1;
        let ty = types[s].clone();
        let mut ts = clock.ts(rng, s);
        if let Some(e) = aim.effective() {
            if rng.chance(1, 3) {
                let max_l = streams.iter().filter(|st| st.types.contains(&ty)).filter_map(|st| st.lateness).max().unwrap_or(0);
                ts = (e - max_l + *rng.pick(&[-2i64, -1, 0, 1]) + if rng.chance(1, 4) { max_l } else { 0 }).max(1);
            }
        }
        // the aim only approximates the engine (it does not know which events get dropped)
        if aim.effective().map_or(true, |e| ts >= e) {
            aim.observe(&ty, ts);
        }
        steps.push(EStep::Ev { uid, ty, ts });
    }
    ECase { streams, external, steps }
}

fn engine_lane(rng: &mut Rng, n: usize, rt: &tokio::runtime::Runtime, out: &mut Partial) {
    for ci in 0..n {
        let c = gen_engine_case(rng);
        if let Some((changes, late, dropped)) = run_engine_case(&c, rt, out, false) {
            if changes >= 2 && late >= 1 {
                out.nontrivial(&format!("E{}{:?}", c.vpl(), c.steps));
            }
            if dropped > 0 {
                out.add("engine_cases_with_a_drop", 1);
            }
            if ci == 0 {
                out.sample(c.json(usize::MAX));
            }
        }
    }
}

fn main() {
    let args = Args::parse();
    install_quiet_panic_hook();
    watchdog("C24", args.pick(900, 7200));
    let mut rep = Report::new("C24", "exploration", &args);
    rep.rule = "tracker lane: 2-4 sources (3/4 registered with bound 0-25 ms, the rest auto-registered by their first event; a third join late), 8-57 observe_event / advance_source_watermark operations with per-source lag 0-40 ms and jitter up to +-30 ms (ms-aligned so that checkpoint() is lossless); the real tracker is read after every operation. engine lane: programs of 2-7 pass-through streams (`T [.watermark(out_of_order: d)] [.allowed_lateness(l)] .emit(uid: uid)`, optional merge(A,B) consumer, at most one .watermark per event type, 1/4 with an extra hand-registered source advanced through advance_external_watermark), 10-49 steps; a third of the timestamps are aimed at wm_eff - max_lateness + {-2..1}; outputs and Engine::create_checkpoint().watermark_state are read after every step. Non-trivial: the source holding the minimum changes >= 2 times and >= 1 event arrives behind the effective watermark; distinct by (configuration, operation sequence).".into();
    rep.assume("a source's watermark is max(observed timestamp) - its out-of-order bound, kept monotone; an event type that no .watermark declares is a source with bound 0 from its first processed event (what observe_event documents)");
    rep.assume("the engine shows an event to the tracker only if it was not dropped, so the reference observes exactly the events that reached at least one consumer");
    rep.assume("only the 'only if' direction of the statement is judged: a late event that is kept is never a violation");
    rep.assume("the allowed lateness of a consumer without .allowed_lateness is 0, so an event behind the effective watermark may be dropped when none of its consumers declares a lateness that covers it");

    if let Some(path) = args.replay.clone() {
        let doc: J = serde_json::from_str(&std::fs::read_to_string(&path).expect("replay file")).expect("json");
        let w = &doc["witness"];
        let case_json = if w.get("case").is_some() { &w["case"] } else { &w["history"] };
        println!("signature: {}", doc["signature"]);
        if case_json["lane"] == "engine" {
            let c = ECase::from_json(case_json).expect("engine case");
            println!("program:\n{}", c.vpl());
            let mut p = Partial::default();
            run_engine_case(&c, &rt(), &mut p, true);
            for v in &p.violations {
                println!("VIOLATION {} :: {}", v.0, v.1);
            }
            println!("violations now: {}", p.violations.len());
        } else {
            let registered: Vec<(String, i64)> = case_json["registered"].as_array().cloned().unwrap_or_default().iter().map(|r| (r[0].as_str().unwrap_or("").to_string(), r[1].as_i64().unwrap_or(0))).collect();
            let ops: Vec<TOp> = case_json["ops"].as_array().cloned().unwrap_or_default().iter().map(|o| {
                if let Some(s) = o["observe_event"].as_str() { TOp::Observe(s.to_string(), o["ts_ms"].as_i64().unwrap_or(0)) } else { TOp::Advance(o["advance_source_watermark"].as_str().unwrap_or("").to_string(), o["wm_ms"].as_i64().unwrap_or(0)) }
            }).collect();
            let mut p = Partial::default();
            run_tracker_case(&registered, &ops, &mut p);
            for v in &p.violations {
                println!("VIOLATION {} :: {} :: {}", v.0, v.1, v.2);
            }
            println!("violations now: {}", p.violations.len());
        }
        std::process::exit(0);
    }

    let threads = ncpu();
    let tracker_per_thread = args.pick(6000usize, 160_000usize) / threads + 1;
    let engine_per_thread = args.pick(2400usize, 50_000usize) / threads + 1;
    let parts = parallel(threads, args.seed ^ 0xC24, move |_ti, mut rng| {
        let mut out = Partial::default();
        let rt = rt();
        tracker_lane(&mut rng, tracker_per_thread, &mut out);
        engine_lane(&mut rng, engine_per_thread, &rt, &mut out);
        out
    });
    for p in parts {
        rep.merge(p);
    }
    std::process::exit(rep.finish());
}
