//! C46 — both event-file readers read the same events from the same file.
//! Monitor: differential between `EventFileParser::parse` (preload) and `StreamingEventReader`
//! on generated files built from every documented line form, and on every shipped `.evt` file.
//! Compared: the sequence of (event type, field name -> value); or both reject.
use serde_json::{json, Value as J};
use std::collections::BTreeSet;
use std::path::{Path, PathBuf};
use varpulis_core::Value;
use varpulis_runtime::event::Event;
use varpulis_runtime::event_file::{EventFileParser, StreamingEventReader};
use vh::*;

// ---------------------------------------------------------------------------
// Running the two real readers
// ---------------------------------------------------------------------------
type Parsed = Result<Vec<Event>, String>;

fn preload(text: &str) -> Parsed {
    EventFileParser::parse(text).map(|v| v.into_iter().map(|t| t.event).collect())
}

fn streaming(text: &str) -> Parsed {
    let rd = StreamingEventReader::new(std::io::Cursor::new(text.as_bytes().to_vec()));
    let mut out = vec![];
    for item in rd {
        match item {
            Ok(e) => out.push(e),
            Err(e) => return Err(e),
        }
    }
    Ok(out)
}

fn vrepr(v: &Value) -> J {
    match v {
        Value::Null => json!(null),
        Value::Bool(b) => json!(b),
        Value::Int(n) => json!({"int": n}),
        Value::Float(f) => json!({"float": format!("{:?}", f)}),
        Value::Str(s) => json!(&**s),
        Value::Timestamp(n) => json!({"timestamp": n}),
        Value::Duration(n) => json!({"duration": n}),
        Value::Array(a) => J::Array(a.iter().map(vrepr).collect()),
        Value::Map(m) => J::Object(m.iter().map(|(k, x)| (k.to_string(), vrepr(x))).collect()),
    }
}

fn erepr(e: &Event) -> J {
    json!({"type": &*e.event_type, "fields": e.data.iter().map(|(k, v)| json!([&**k, vrepr(v)])).collect::<Vec<_>>()})
}

/// "same type and field values": same type, same set of field names, equal values per name.
fn same_event(a: &Event, b: &Event) -> Result<(), &'static str> {
    if a.event_type != b.event_type {
        return Err("type-differs");
    }
    if a.data.len() != b.data.len() {
        return Err("fields-differ");
    }
    for (k, v) in a.data.iter() {
        match b.data.get(k) {
            Some(w) if v == w => {}
            _ => return Err("fields-differ"),
        }
    }
    Ok(())
}

fn same_seq(a: &[Event], b: &[Event]) -> bool {
    a.len() == b.len() && a.iter().zip(b.iter()).all(|(x, y)| same_event(x, y).is_ok())
}

// ---------------------------------------------------------------------------
// Line forms (own classifier over the text; a finite enumeration used in signatures)
// ---------------------------------------------------------------------------
fn form(line: &str) -> &'static str {
    let t = line.trim();
    if t.is_empty() {
        "blank"
    } else if t.starts_with('#') {
        "comment-hash"
    } else if t.starts_with("//") {
        "comment-slash"
    } else if t.starts_with("BATCH") {
        "batch"
    } else if t.starts_with('@') {
        "timing-prefix"
    } else if t.starts_with('{') {
        "jsonl"
    } else {
        let semi = t.ends_with(';');
        let b = t.find('{');
        let p = t.find('(');
        match (b, p) {
            (Some(b), Some(p)) if p < b => {
                if semi {
                    "positional-semicolon"
                } else {
                    "positional"
                }
            }
            (Some(_), _) => {
                if semi {
                    "plain-semicolon"
                } else {
                    "plain"
                }
            }
            (None, Some(_)) => {
                if semi {
                    "positional-semicolon"
                } else {
                    "positional"
                }
            }
            (None, None) => "other",
        }
    }
}

/// Finer label for evidence only (which timing unit, what follows).
fn timing_detail(line: &str) -> String {
    let t = line.trim().trim_start_matches('@');
    let head: String = t.chars().take_while(|c| !c.is_whitespace()).collect();
    let unit: String = head.chars().skip_while(|c| c.is_ascii_digit()).collect();
    let rest = t[head.len()..].trim_start();
    format!("@N{}{}", unit, if rest.starts_with('{') { "+jsonl" } else { "" })
}

// ---------------------------------------------------------------------------
// Generator
// ---------------------------------------------------------------------------
const TYPES: &[&str] = &["A", "B", "Order", "StockTick", "Sensor_1", "T2", "temperature.reading", "\u{c9}v"];
const FIELDS: &[&str] = &["id", "symbol", "price", "x", "user_id", "ok", "tags", "note", "k\u{e9}y"];
const STRS: &[&str] = &[
    "AAPL", "", "a b", "a, b", "x: y", "{z}", "[1, 2]", "(p)", "semi;colon", "ends;", "#hash", "//slashes", "@5s T { a: 1 }", "BATCH 10", "\u{e9}t\u{e9} \u{1F600}",
    "tab\\there", "nl\\nthere", "quote\\\"inside", "back\\\\slash", "it's", "true", "12", "null",
];

fn evt_value(rng: &mut Rng, depth: u32) -> String {
    match rng.below(12) {
        0 => format!("{}", rng.range(-5, 1000)),
        1 => (*rng.pick(&["0", "-1", "9223372036854775807", "-9223372036854775808", "9223372036854775808", "007", "+5"])).to_string(),
        2 => format!("{:?}", (rng.range(-5000, 5000) as f64) / 8.0),
        3 => (*rng.pick(&["150.0", "-0.0", "1e5", "1.5E-3", "NaN", "inf", "-inf", ".5", "5."])).to_string(),
        4 | 5 => format!("\"{}\"", rng.pick(STRS)),
        6 => {
            // (a comma inside single quotes splits the field in the real parser -> rejected by both; kept rare)
            let s = if rng.chance(1, 25) { "a, b" } else { *rng.pick(&["AAPL", "a b", "x: y", "say \"hi\"", "", "semi;"]) };
            format!("'{}'", s)
        }
        7 => (*rng.pick(&["true", "false", "null", "nil"])).to_string(),
        8 | 9 if depth > 0 => {
            let n = rng.below(4);
            let items: Vec<String> = (0..n).map(|_| evt_value(rng, depth - 1)).collect();
            format!("[{}]", items.join(if rng.chance(1, 2) { ", " } else { "," }))
        }
        _ => (*rng.pick(&["BUY", "sensor_7", "up-down", "a.b", "x y"])).to_string(),
    }
}

fn evt_event(rng: &mut Rng) -> String {
    let ty = *rng.pick(TYPES);
    let n = rng.below(5);
    if rng.chance(1, 5) {
        // positional
        // (a brace inside a positional value makes the real parser take the brace form -> rejected by both; kept rare)
        let vals: Vec<String> = (0..n)
            .map(|_| {
                let mut v = evt_value(rng, 2);
                while (v.contains('{') || v.contains('}')) && !rng.chance(1, 12) {
                    v = evt_value(rng, 2);
                }
                v
            })
            .collect();
        return format!("{}({})", ty, vals.join(", "));
    }
    let mut fs = vec![];
    for _ in 0..n {
        let name = *rng.pick(FIELDS);
        let sep = *rng.pick(&[": ", ":", " : "]);
        fs.push(format!("{}{}{}", name, sep, evt_value(rng, 2)));
    }
    match rng.below(4) {
        0 => format!("{} {{{}}}", ty, fs.join(",")),
        1 => format!("{}{{ {} }}", ty, fs.join(", ")),
        _ => format!("{} {{ {} }}", ty, fs.join(", ")),
    }
}

fn json_value(rng: &mut Rng, depth: u32) -> J {
    match rng.below(10) {
        0 => json!(rng.range(-5, 1000)),
        1 => json!(*rng.pick(&[0i64, -1, i64::MAX, i64::MIN])),
        2 => json!((rng.range(-5000, 5000) as f64) / 8.0),
        3 => json!(*rng.pick(&[1e300, -0.0, 1.5e-7, 18446744073709551615.0])),
        4 | 5 => json!(*rng.pick(&["AAPL", "", "a, b", "{z}", "@5s", "# c", "// c", "semi;", "\u{e9}t\u{e9} \u{1F600}", "tab\there", "nl\nthere", "quote\"inside"])),
        6 => json!(rng.chance(1, 2)),
        7 => J::Null,
        8 if depth > 0 => J::Array((0..rng.below(4)).map(|_| json_value(rng, depth - 1)).collect()),
        9 if depth > 0 => {
            let mut m = serde_json::Map::new();
            for _ in 0..rng.below(3) {
                m.insert((*rng.pick(FIELDS)).to_string(), json_value(rng, depth - 1));
            }
            J::Object(m)
        }
        _ => json!(18446744073709551615u64),
    }
}

fn jsonl_event(rng: &mut Rng) -> String {
    let mut data = serde_json::Map::new();
    for _ in 0..rng.below(5) {
        data.insert((*rng.pick(FIELDS)).to_string(), json_value(rng, 2));
    }
    let ty = *rng.pick(TYPES);
    let v = match rng.below(8) {
        0 => json!({"event_type": ty}),
        1 => json!({"event_type": ty, "data": data, "timestamp": "2024-01-01T00:00:00Z"}),
        2 => json!({"event_type": ty, "data": [1, 2]}),
        _ => json!({"event_type": ty, "data": data}),
    };
    let s = v.to_string();
    if rng.chance(1, 6) {
        // some whitespace inside the object
        s.replacen("{", "{ ", 1).replace("\":", "\": ")
    } else {
        s
    }
}

struct Knobs {
    timing: bool,
    batch: bool,
    jsonl: bool,
    malformed: bool,
}

fn gen_file(rng: &mut Rng, k: &Knobs) -> String {
    let n = 4 + rng.below(14);
    let mut lines: Vec<String> = vec![];
    let mut t = 0u64;
    for _ in 0..n {
        let l = match rng.below(20) {
            0 | 1 => {
                if rng.chance(1, 2) {
                    format!("# {}", rng.pick(&["comment", "Order { id: 1 }", "@5s A { x: 1 }", "BATCH 5", ""]))
                } else {
                    format!("// {}", rng.pick(&["comment", "A { x: 1 }", "{\"event_type\": \"A\"}", ""]))
                }
            }
            2 | 3 => (*rng.pick(&["", "", "   ", "\t"])).to_string(),
            4 | 5 if k.batch => {
                t += rng.below(500) as u64;
                match rng.below(5) {
                    0 => format!("BATCH  {}", t),
                    1 => "BATCH".to_string(),
                    _ => format!("BATCH {}", t),
                }
            }
            6 | 7 | 8 | 9 if k.timing => {
                t += rng.below(90) as u64;
                let prefix = match rng.below(5) {
                    0 => format!("@{}s", t),
                    1 => format!("@{}ms", t * 10),
                    2 => format!("@{}m", t / 30),
                    3 => format!("@{}", t * 100),
                    _ => format!("@{}s", t),
                };
                let body = if k.jsonl && rng.chance(1, 5) { jsonl_event(rng) } else { evt_event(rng) };
                let semi = if rng.chance(1, 5) && !body.starts_with('{') { ";" } else { "" };
                format!("{}{}{}{}", prefix, rng.pick(&[" ", " ", "  ", "\t"]), body, semi)
            }
            10 | 11 | 12 if k.jsonl => jsonl_event(rng),
            13 if k.malformed => (*rng.pick(&["Broken { a }", "just some text", "{\"data\": {\"x\": 1}}", "{not json", "T { a: [1, [2, ] }x: }", "{\"event_type\": 5}"])).to_string(),
            _ => {
                let e = evt_event(rng);
                // (a blank before the `;` leaves "} " behind in the real parser: empty braces are then
                // rejected by both readers, so that spelling is kept rare)
                match rng.below(40) {
                    0..=6 => format!("{};", e),
                    7 => format!("{} ;", e),
                    _ => e,
                }
            }
        };
        let l = match rng.below(10) {
            0 => format!("  {}", l),
            1 => format!("{}  ", l),
            2 => format!("\t{}", l),
            _ => l,
        };
        lines.push(l);
    }
    let eol = if rng.chance(1, 8) { "\r\n" } else { "\n" };
    let mut s = lines.join(eol);
    if !rng.chance(1, 5) {
        s.push_str(eol);
    }
    s
}

// ---------------------------------------------------------------------------
// The check on one file text
// ---------------------------------------------------------------------------
fn check_text(origin: &str, text: &str, max_diag_lines: usize, out: &mut Partial) {
    out.eval();
    let r = catch(std::panic::AssertUnwindSafe(|| (preload(text), streaming(text))));
    let witness_text = |t: &str| -> J {
        if t.len() <= 4000 {
            json!(t)
        } else {
            json!(format!("{} ... [{} bytes]", t.chars().take(1500).collect::<String>(), t.len()))
        }
    };
    let (p, s) = match r {
        Ok(x) => x,
        Err(pn) => {
            out.violation("panic/reader", "an event-file reader panicked", json!({"origin": origin, "file": witness_text(text), "panic": pn, "site": panic_site(&last_panic_location())}));
            return;
        }
    };
    let forms: BTreeSet<&'static str> = text.lines().map(form).collect();
    if let Ok(ev) = &p {
        out.add("events_read_by_preload", ev.len() as u64);
        if ev.len() >= 5 && forms.len() >= 3 {
            out.nontrivial(&text);
        }
    }
    if let Ok(ev) = &s {
        out.add("events_read_by_streaming", ev.len() as u64);
    }
    let agree = match (&p, &s) {
        (Ok(a), Ok(b)) => same_seq(a, b),
        (Err(_), Err(_)) => {
            out.add("files_rejected_by_both", 1);
            true
        }
        _ => false,
    };
    if agree {
        out.add("files_agreeing", 1);
        if out.samples.is_empty() && forms.len() >= 4 && p.as_ref().map(|e| e.len() >= 5).unwrap_or(false) {
            out.sample(json!({"origin": origin, "file": witness_text(text), "events": p.as_ref().map(|e| e.len()).unwrap_or(0), "forms": forms}));
        }
        return;
    }
    // ---- diagnose: which line forms are read differently when alone ----
    let mut reported: BTreeSet<String> = BTreeSet::new();
    let mut kept: Vec<&str> = vec![];
    for (n, line) in text.lines().enumerate() {
        if n >= max_diag_lines {
            kept.push(line);
            continue;
        }
        let (lp, ls) = (preload(line), streaming(line));
        let kind: Option<&'static str> = match (&lp, &ls) {
            // the streaming reader treated the line as skippable while the preload reader read
            // (or tried to read) an event from it: one root cause whatever the preload outcome
            (Ok(a), Ok(b)) if b.is_empty() && !a.is_empty() => Some("not-read-by-streaming"),
            (Err(_), Ok(b)) if b.is_empty() => Some("not-read-by-streaming"),
            (Ok(a), Ok(b)) => {
                if same_seq(a, b) {
                    None
                } else if a.len() > b.len() {
                    Some("missing-in-streaming")
                } else if a.len() < b.len() {
                    Some("missing-in-preload")
                } else {
                    Some(same_event(&a[0], &b[0]).err().unwrap_or("fields-differ"))
                }
            }
            (Err(_), Err(_)) => None,
            (Err(_), Ok(_)) => Some("rejected-by-preload-only"),
            (Ok(_), Err(_)) => Some("rejected-by-streaming-only"),
        };
        // The streaming reader is known to skip timing-prefixed lines altogether. So that this
        // does not hide what the preload reader makes of such a line, its reading is also compared
        // with the streaming reader's reading of the SAME line without the prefix.
        let kind = match kind {
            Some("not-read-by-streaming") if form(line) == "timing-prefix" => {
                let body = line.trim_start();
                let body = body.split_once(char::is_whitespace).map(|(_, b)| b.trim_start()).unwrap_or("");
                match (&lp, &streaming(body)) {
                    (Ok(a), Ok(b)) if !b.is_empty() && !same_seq(a, b) => Some("body-read-differently-by-preload"),
                    _ => kind,
                }
            }
            k => k,
        };
        match kind {
            None => kept.push(line),
            Some(k) => {
                let f = form(line);
                let sig = format!("line-read-differently/{}/{}", f, k);
                if f == "timing-prefix" {
                    out.add(&format!("timing_lines_differing_{}", timing_detail(line)), 1);
                }
                if reported.insert(sig.clone()) {
                    let show = |r: &Parsed| match r {
                        Ok(v) => json!({"events": v.iter().map(erepr).collect::<Vec<_>>()}),
                        Err(e) => json!({"rejected": e}),
                    };
                    out.violation(
                        &sig,
                        "one line of the file yields different events in the two readers",
                        json!({"origin": origin, "line_number": n + 1, "line": line, "preload": show(&lp), "streaming": show(&ls),
                               "file": witness_text(text),
                               "file_events_preload": p.as_ref().map(|e| e.len() as i64).unwrap_or(-1), "file_events_streaming": s.as_ref().map(|e| e.len() as i64).unwrap_or(-1)}),
                    );
                }
            }
        }
    }
    // ---- anything left once those lines are removed is context-dependent ----
    let rest = kept.join("\n");
    let (rp, rs) = (preload(&rest), streaming(&rest));
    let rest_agree = match (&rp, &rs) {
        (Ok(a), Ok(b)) => same_seq(a, b),
        (Err(_), Err(_)) => true,
        _ => false,
    };
    if !rest_agree || reported.is_empty() {
        let kind = match (&rp, &rs) {
            (Ok(_), Ok(_)) => "events-differ",
            (Err(_), Ok(_)) => "rejected-by-preload-only",
            (Ok(_), Err(_)) => "rejected-by-streaming-only",
            _ => "events-differ",
        };
        out.violation(
            &format!("file-read-differently/context-dependent/{}", kind),
            "the two readers disagree on the file although every line alone is read alike",
            json!({"origin": origin, "file": witness_text(text), "file_without_differing_lines": witness_text(&rest),
                   "preload": match &rp { Ok(v) => json!(v.iter().take(50).map(erepr).collect::<Vec<_>>()), Err(e) => json!({"rejected": e}) },
                   "streaming": match &rs { Ok(v) => json!(v.iter().take(50).map(erepr).collect::<Vec<_>>()), Err(e) => json!({"rejected": e}) }}),
        );
    }
}

fn find_evt(dir: &Path, out: &mut Vec<PathBuf>, depth: usize) {
    if depth > 8 {
        return;
    }
    let Ok(rd) = std::fs::read_dir(dir) else { return };
    let mut ents: Vec<PathBuf> = rd.filter_map(|e| e.ok().map(|e| e.path())).collect();
    ents.sort();
    for p in ents {
        let name = p.file_name().and_then(|s| s.to_str()).unwrap_or("");
        if name == "target" || name == ".git" || name == "node_modules" {
            continue;
        }
        if p.is_dir() {
            find_evt(&p, out, depth + 1);
        } else if name.ends_with(".evt") {
            out.push(p);
        }
    }
}

fn main() {
    let args = Args::parse();
    install_quiet_panic_hook();
    watchdog("C46", args.pick(600, 3600));
    let mut rep = Report::new("C46", "exploration", &args);
    rep.rule = "generated files of 4-17 lines drawn from: `Type { f: v, ... }` (spacing variants, empty braces), trailing `;`, positional `Type(v, ...)`, `BATCH n` (also bare BATCH), `@Ns` / `@Nms` / `@Nm` / `@N` prefixes before either event syntax, JSONL objects (with/without data, nested values, extra keys), `#` and `//` comments (also ones that look like events), blank/whitespace lines, leading/trailing blanks, LF or CRLF, with or without final newline; values: ints incl. i64 bounds and overflow, floats incl. NaN/inf/-0.0, double- and single-quoted strings containing , : { } [ ] ( ) ; # // @ escapes and non-ASCII, booleans, null/nil, nested arrays, bare identifiers. Four file families: without timing prefixes, with them, JSONL-only, and (small share) with one malformed event line for the both-reject clause. Plus every *.evt shipped under /repo. Non-trivial: >= 3 different line forms and >= 5 events read by the preload reader; distinct by file text.".into();
    rep.assume("events are compared by type and by field name -> value (Value ==); event timestamps and batch/timing offsets are not compared (the streaming reader has no timing by design)");
    rep.assume("the streaming reader 'rejects' a file when any item it yields is an Err");
    rep.assume("malformed BATCH arguments and malformed timing prefixes are not generated: they are not documented line forms");

    if let Some(path) = args.replay.clone() {
        let doc: J = serde_json::from_str(&std::fs::read_to_string(&path).expect("replay file")).expect("json");
        let w = &doc["witness"];
        let text = w["line"].as_str().or_else(|| w["file"].as_str()).unwrap_or("").to_string();
        let show = |r: Parsed| match r {
            Ok(v) => json!(v.iter().map(erepr).collect::<Vec<_>>()),
            Err(e) => json!({"rejected": e}),
        };
        println!("input: {:?}\npreload:   {}\nstreaming: {}", text, show(preload(&text)), show(streaming(&text)));
        return;
    }

    // ---- shipped files ----
    let mut evts = vec![];
    find_evt(Path::new("/repo"), &mut evts, 0);
    rep.set("shipped_evt_files", json!(evts.len()));
    let mut shipped_disagreeing = vec![];
    for p in &evts {
        if let Ok(text) = std::fs::read_to_string(p) {
            let mut one = Partial::default();
            check_text(&p.to_string_lossy(), &text, 3000, &mut one);
            if !one.violations.is_empty() {
                shipped_disagreeing.push(p.strip_prefix("/repo").unwrap_or(p).to_string_lossy().to_string());
            }
            rep.merge(one);
        }
    }
    rep.set("shipped_evt_files_read_differently", json!(shipped_disagreeing));

    // ---- generated files ----
    let threads = ncpu();
    let per_thread = args.pick(2500usize, 80_000usize);
    let parts = parallel(threads, args.seed, move |_ti, mut rng| {
        let mut out = Partial::default();
        for i in 0..per_thread {
            let k = match i % 8 {
                0 | 1 | 2 => Knobs { timing: false, batch: true, jsonl: true, malformed: false },
                3 | 4 => Knobs { timing: true, batch: true, jsonl: true, malformed: false },
                5 => Knobs { timing: false, batch: false, jsonl: true, malformed: false },
                6 => Knobs { timing: true, batch: false, jsonl: false, malformed: false },
                _ => Knobs { timing: false, batch: true, jsonl: true, malformed: rng.chance(1, 2) },
            };
            let text = gen_file(&mut rng, &k);
            check_text("generated", &text, usize::MAX, &mut out);
        }
        out
    });
    for p in parts {
        rep.merge(p);
    }
    std::process::exit(rep.finish());
}
