//! C40 — Value equality is an equivalence consistent with hashing.
//! Monitor: invariant check on the real `impl PartialEq for Value` / `impl Hash for Value`.
//! Pools of values are built so that many members are *meant* to be equal but are represented
//! differently (permuted map insertion orders, maps that went through remove/overwrite,
//! -0.0 vs 0.0, NaNs with different payloads) and many are near misses (same payload in another
//! variant, one entry changed). On every pool: reflexivity of every member, symmetry of every
//! ordered pair, transitivity of every triple, and `a == b => hash(a) == hash(b)` under two
//! hashers (std SipHash `DefaultHasher` and `rustc_hash::FxHasher`).
use serde_json::json;
use std::hash::{Hash, Hasher};
use std::sync::Arc;
use varpulis_core::value::FxIndexMap;
use varpulis_core::Value;
use vh::*;

const FLOAT_BITS: &[u64] = &[
    0x0000_0000_0000_0000, // 0.0
    0x8000_0000_0000_0000, // -0.0
    0x7ff8_0000_0000_0000, // NaN (canonical)
    0xfff8_0000_0000_0000, // -NaN
    0x7ff8_0000_0000_0001, // NaN with payload
    0x7ff0_0000_0000_0001, // signalling NaN
    0x3ff0_0000_0000_0000, // 1.0
    0xbff0_0000_0000_0000, // -1.0
    0x7ff0_0000_0000_0000, // inf
    0xfff0_0000_0000_0000, // -inf
    0x0010_0000_0000_0000, // MIN_POSITIVE
    0x0000_0000_0000_0001, // smallest subnormal
    0x8000_0000_0000_0001, // -smallest subnormal
    0x3fd3_3333_3333_3333, // 0.3
    0x3fd3_3333_3333_3334, // 0.1+0.2
];
const INTS: &[i64] = &[0, 1, -1, 2, i64::MIN, i64::MAX];
const STRS: &[&str] = &["", "a", "b", "0", "1", "a\0", "\u{e9}", "e\u{301}", "true", "null"];
const KEYS: &[&str] = &["a", "b", "c", "", "k1", "\u{e9}"];

fn scalar(rng: &mut Rng) -> Value {
    match rng.below(9) {
        0 => Value::Null,
        1 => Value::Bool(rng.chance(1, 2)),
        2 | 3 => Value::Int(*rng.pick(INTS)),
        4 | 5 => Value::Float(f64::from_bits(*rng.pick(FLOAT_BITS))),
        6 => Value::Str((*rng.pick(STRS)).into()),
        7 => Value::Timestamp(*rng.pick(&[0i64, 1, -1, 2])),
        _ => Value::Duration(*rng.pick(&[0u64, 1, 2, u64::MAX])),
    }
}

fn new_map() -> FxIndexMap<Arc<str>, Value> {
    indexmap::IndexMap::with_hasher(rustc_hash::FxBuildHasher)
}

fn gen_value(rng: &mut Rng, depth: u32) -> Value {
    if depth == 0 || rng.chance(2, 5) {
        return scalar(rng);
    }
    if rng.chance(1, 3) {
        let n = rng.below(4);
        Value::array((0..n).map(|_| gen_value(rng, depth - 1)).collect())
    } else {
        let n = rng.below(5);
        let mut m = new_map();
        for _ in 0..n {
            let k = *rng.pick(KEYS);
            m.insert(Arc::from(k), gen_value(rng, depth - 1));
        }
        Value::map(m)
    }
}

/// A value meant to be equal to `v` whose representation may differ.
fn equal_variant(rng: &mut Rng, v: &Value) -> Value {
    match v {
        Value::Float(f) if f.is_nan() => {
            let nans = [0x7ff8_0000_0000_0000u64, 0xfff8_0000_0000_0000, 0x7ff8_0000_0000_0001, 0x7ff0_0000_0000_0001];
            Value::Float(f64::from_bits(*rng.pick(&nans)))
        }
        Value::Float(f) if *f == 0.0 => Value::Float(if rng.chance(1, 2) { 0.0 } else { -0.0 }),
        Value::Array(a) => Value::array(a.iter().map(|x| if rng.chance(1, 2) { equal_variant(rng, x) } else { x.clone() }).collect()),
        Value::Map(m) => {
            let mut entries: Vec<(Arc<str>, Value)> = m
                .iter()
                .map(|(k, x)| {
                    // a fresh Arc for the key half of the time (pointer identity must not matter)
                    let k2: Arc<str> = if rng.chance(1, 2) { k.clone() } else { Arc::from(&**k) };
                    (k2, if rng.chance(1, 2) { equal_variant(rng, x) } else { x.clone() })
                })
                .collect();
            rng.shuffle(&mut entries);
            let mut out = new_map();
            match rng.below(4) {
                // plain insertion in the permuted order
                0 | 1 => {
                    for (k, x) in entries {
                        out.insert(k, x);
                    }
                }
                // a decoy entry first, removed afterwards (swap_remove / shift_remove move entries)
                2 => {
                    out.insert(Arc::from("__decoy"), Value::Null);
                    for (k, x) in entries {
                        out.insert(k, x);
                    }
                    if rng.chance(1, 2) {
                        out.swap_remove("__decoy");
                    } else {
                        out.shift_remove("__decoy");
                    }
                }
                // every key first inserted with another value, then overwritten (position of first insert kept)
                _ => {
                    let mut ks: Vec<Arc<str>> = entries.iter().map(|e| e.0.clone()).collect();
                    rng.shuffle(&mut ks);
                    for k in ks {
                        out.insert(k, Value::Int(-7));
                    }
                    for (k, x) in entries {
                        out.insert(k, x);
                    }
                }
            }
            Value::map(out)
        }
        other => other.clone(),
    }
}

/// A value close to `v` that is usually NOT equal to it.
fn near_variant(rng: &mut Rng, v: &Value) -> Value {
    match v {
        Value::Int(n) => match rng.below(4) {
            0 => Value::Timestamp(*n),
            1 => Value::Float(*n as f64),
            2 => Value::Duration(*n as u64),
            _ => Value::Str(n.to_string().into()),
        },
        Value::Timestamp(n) => {
            if rng.chance(1, 2) {
                Value::Int(*n)
            } else {
                Value::Duration(*n as u64)
            }
        }
        Value::Duration(n) => {
            if rng.chance(1, 2) {
                Value::Int(*n as i64)
            } else {
                Value::Timestamp(*n as i64)
            }
        }
        Value::Float(f) => {
            if rng.chance(1, 2) {
                Value::Float(f64::from_bits(f.to_bits() ^ 1))
            } else if f.is_finite() {
                Value::Int(*f as i64)
            } else {
                Value::Null
            }
        }
        Value::Bool(b) => {
            if rng.chance(1, 2) {
                Value::Int(*b as i64)
            } else {
                Value::Str(b.to_string().into())
            }
        }
        Value::Null => {
            if rng.chance(1, 2) {
                Value::Str("null".into())
            } else {
                Value::array(vec![])
            }
        }
        Value::Str(s) => {
            if rng.chance(1, 2) {
                Value::Str(format!("{}a", s).into())
            } else {
                Value::array(vec![Value::Str(s.clone())])
            }
        }
        Value::Array(a) => {
            let mut b: Vec<Value> = (**a).clone();
            match rng.below(4) {
                0 if b.len() >= 2 => b.swap(0, 1),
                1 if !b.is_empty() => {
                    b.pop();
                }
                2 if !b.is_empty() => {
                    let i = rng.below(b.len());
                    b[i] = near_variant(rng, &b[i]);
                }
                _ => b.push(Value::Null),
            }
            Value::array(b)
        }
        Value::Map(m) => {
            let mut out: FxIndexMap<Arc<str>, Value> = (**m).clone();
            match rng.below(4) {
                0 if !out.is_empty() => {
                    let i = rng.below(out.len());
                    out.swap_remove_index(i);
                }
                1 if !out.is_empty() => {
                    let i = rng.below(out.len());
                    let (k, x) = out.get_index(i).map(|(k, x)| (k.clone(), x.clone())).unwrap();
                    let nx = near_variant(rng, &x);
                    out.insert(k, nx);
                }
                2 => {
                    // map <-> array of its values
                    return Value::array(out.values().cloned().collect());
                }
                _ => {
                    out.insert(Arc::from("zz"), Value::Null);
                }
            }
            Value::map(out)
        }
    }
}

/// Exact representation (insertion order of maps, float bits) — used to tell "identical in
/// representation" from "equal", and for witnesses.
fn repr(v: &Value) -> String {
    match v {
        Value::Null => "Null".into(),
        Value::Bool(b) => format!("Bool({})", b),
        Value::Int(n) => format!("Int({})", n),
        Value::Float(f) => format!("Float(bits=0x{:016x} {:?})", f.to_bits(), f),
        Value::Str(s) => format!("Str({:?})", s),
        Value::Timestamp(n) => format!("Timestamp({})", n),
        Value::Duration(n) => format!("Duration({})", n),
        Value::Array(a) => format!("Array[{}]", a.iter().map(repr).collect::<Vec<_>>().join(", ")),
        Value::Map(m) => format!("Map{{{}}}", m.iter().map(|(k, x)| format!("{:?}: {}", k, repr(x))).collect::<Vec<_>>().join(", ")),
    }
}

fn h_std(v: &Value) -> u64 {
    let mut h = std::collections::hash_map::DefaultHasher::new();
    v.hash(&mut h);
    h.finish()
}
fn h_fx(v: &Value) -> u64 {
    let mut h = rustc_hash::FxHasher::default();
    v.hash(&mut h);
    h.finish()
}

/// Smallest sub-pair that is equal with different hashes: the root cause of a hash mismatch.
fn localise_hash(a: &Value, b: &Value) -> (String, String, String) {
    let differ = |p: &Value, q: &Value| p == q && (h_std(p) != h_std(q) || h_fx(p) != h_fx(q));
    match (a, b) {
        (Value::Array(x), Value::Array(y)) if x.len() == y.len() => {
            for (p, q) in x.iter().zip(y.iter()) {
                if differ(p, q) {
                    return localise_hash(p, q);
                }
            }
            ("array/children-hash-equal".into(), repr(a), repr(b))
        }
        (Value::Map(x), Value::Map(y)) => {
            for (k, p) in x.iter() {
                if let Some(q) = y.get(k) {
                    if differ(p, q) {
                        return localise_hash(p, q);
                    }
                }
            }
            let same_order = x.len() == y.len() && x.keys().zip(y.keys()).all(|(k1, k2)| k1 == k2);
            (if same_order { "map/same-entry-order" } else { "map/entry-order" }.to_string(), repr(a), repr(b))
        }
        (Value::Float(x), Value::Float(y)) => {
            let c = if x.is_nan() && y.is_nan() {
                "float/nan-payload"
            } else if *x == 0.0 && *y == 0.0 {
                "float/signed-zero"
            } else {
                "float/other"
            };
            (c.to_string(), repr(a), repr(b))
        }
        _ => (format!("{}-{}", a.type_name(), b.type_name()), repr(a), repr(b)),
    }
}

/// Smallest sub-value that is not equal to itself.
fn localise_reflexive(a: &Value) -> String {
    match a {
        Value::Array(x) => {
            for p in x.iter() {
                if !(p == p) {
                    return localise_reflexive(p);
                }
            }
            "array".into()
        }
        Value::Map(x) => {
            for p in x.values() {
                if !(p == p) {
                    return localise_reflexive(p);
                }
            }
            "map".into()
        }
        Value::Float(f) => {
            if f.is_nan() {
                "float/nan".into()
            } else if *f == 0.0 {
                "float/zero".into()
            } else {
                "float/other".into()
            }
        }
        other => other.type_name().into(),
    }
}

fn check_pool(pool: &[Value], out: &mut Partial) {
    let n = pool.len();
    let reprs: Vec<String> = pool.iter().map(repr).collect();
    let hs: Vec<(u64, u64)> = pool.iter().map(|v| (h_std(v), h_fx(v))).collect();
    // eq[i][j] = (pool[i] == pool[j]) evaluated in that direction by the real impl
    let mut eq = vec![vec![false; n]; n];
    for i in 0..n {
        for j in 0..n {
            eq[i][j] = pool[i] == pool[j];
        }
    }
    for i in 0..n {
        out.eval();
        if !eq[i][i] {
            out.violation(
                &format!("not-reflexive/{}", localise_reflexive(&pool[i])),
                "a value is not equal to itself",
                json!({"a": reprs[i]}),
            );
        }
        // a clone must be equal and hash alike
        let c = pool[i].clone();
        if !(c == pool[i]) || h_std(&c) != hs[i].0 || h_fx(&c) != hs[i].1 {
            out.violation(&format!("clone-differs/{}", pool[i].type_name()), "a clone is not equal to / does not hash like its original", json!({"a": reprs[i]}));
        }
    }
    for i in 0..n {
        for j in (i + 1)..n {
            out.eval();
            out.add("pairs_checked", 1);
            if eq[i][j] != eq[j][i] {
                let mut t = [pool[i].type_name(), pool[j].type_name()];
                t.sort();
                out.violation(
                    &format!("not-symmetric/{}-{}", t[0], t[1]),
                    "a == b and b == a disagree",
                    json!({"a": reprs[i], "b": reprs[j], "a_eq_b": eq[i][j], "b_eq_a": eq[j][i]}),
                );
            }
            if eq[i][j] {
                out.add("equal_pairs", 1);
                if reprs[i] != reprs[j] {
                    out.add("equal_pairs_with_different_representation", 1);
                    out.nontrivial(&(reprs[i].clone(), reprs[j].clone()));
                    if out.samples.len() < 2 {
                        out.sample(json!({"a": reprs[i], "b": reprs[j], "equal": true, "hash_std": [hs[i].0, hs[j].0], "hash_fx": [hs[i].1, hs[j].1]}));
                    }
                }
                if hs[i] != hs[j] {
                    let which: Vec<&str> = [("DefaultHasher", hs[i].0 != hs[j].0), ("FxHasher", hs[i].1 != hs[j].1)].iter().filter(|x| x.1).map(|x| x.0).collect();
                    let (cause, sa, sb) = localise_hash(&pool[i], &pool[j]);
                    out.violation(
                        &format!("eq-but-hash-differs/{}", cause),
                        "two equal values have different hashes",
                        json!({"a": reprs[i], "b": reprs[j], "a_eq_b": true, "hashers_that_differ": which,
                               "smallest_equal_subvalues_with_different_hashes": {"a": sa, "b": sb},
                               "hash_std": [hs[i].0, hs[j].0], "hash_fx": [hs[i].1, hs[j].1]}),
                    );
                }
            }
        }
    }
    for i in 0..n {
        for j in 0..n {
            if !eq[i][j] || i == j {
                continue;
            }
            for k in 0..n {
                if k == i || k == j || !eq[j][k] {
                    continue;
                }
                out.add("transitivity_triples_checked", 1);
                if !eq[i][k] {
                    let mut t = [pool[i].type_name(), pool[j].type_name(), pool[k].type_name()];
                    t.sort();
                    out.violation(
                        &format!("not-transitive/{}-{}-{}", t[0], t[1], t[2]),
                        "a == b and b == c but a != c",
                        json!({"a": reprs[i], "b": reprs[j], "c": reprs[k]}),
                    );
                }
            }
        }
    }
}

fn main() {
    let args = Args::parse();
    install_quiet_panic_hook();
    watchdog("C40", args.pick(600, 3600));
    let mut rep = Report::new("C40", "exploration", &args);
    rep.rule = "pools of 14 values of depth <=3 over every Value variant: 3-4 random seeds, the rest derived from pool members either as an intended-equal variant (maps rebuilt by inserting the same entries in a permuted order / through a removed decoy entry / through overwritten placeholders, fresh key Arcs, -0.0 vs 0.0, NaNs with other payloads, recursively) or as a near miss (same payload in another variant, one element/entry changed). Every member: reflexivity and clone; every ordered pair: symmetry; every equal pair: hash equality under DefaultHasher and FxHasher; every triple: transitivity. Non-trivial: a pair the real == reports equal whose exact representations (entry order, float bits) differ; distinct by the two representations.".into();
    rep.assume("hash equality is judged with two concrete hashers (SipHash-1-3 DefaultHasher with fixed keys, FxHasher); a collision making two differently-fed hashers agree would hide a defect, not fabricate one");
    rep.assume("which values ought to be equal is not prescribed by the oracle: only equivalence laws and eq=>hash-eq on whatever the real == reports");

    let threads = ncpu();
    let pools_per_thread = args.pick(6000usize, 250_000usize);
    let parts = parallel(threads, args.seed, move |_ti, mut rng| {
        let mut out = Partial::default();
        for _ in 0..pools_per_thread {
            let mut pool: Vec<Value> = vec![];
            let seeds = 3 + rng.below(2);
            for _ in 0..seeds {
                let d = rng.below(4) as u32;
                pool.push(gen_value(&mut rng, d));
            }
            while pool.len() < 14 {
                let src = pool[rng.below(pool.len())].clone();
                let v = if rng.chance(3, 5) { equal_variant(&mut rng, &src) } else { near_variant(&mut rng, &src) };
                pool.push(v);
            }
            let r = catch(std::panic::AssertUnwindSafe(|| {
                let mut p = Partial::default();
                check_pool(&pool, &mut p);
                p
            }));
            match r {
                Ok(p) => merge_partial(&mut out, p),
                Err(pn) => out.violation(
                    "panic/eq-or-hash",
                    "== or hash panicked",
                    json!({"pool": pool.iter().map(repr).collect::<Vec<_>>(), "panic": pn, "site": panic_site(&last_panic_location())}),
                ),
            }
        }
        out
    });
    for p in parts {
        rep.merge(p);
    }
    std::process::exit(rep.finish());
}

fn merge_partial(into: &mut Partial, p: Partial) {
    into.evaluations += p.evaluations;
    into.nontrivial.extend(p.nontrivial);
    for s in p.samples {
        into.sample(s);
    }
    for (sig, what, w) in p.violations {
        into.violation(&sig, &what, w);
    }
    for (k, n) in p.counters {
        *into.counters.entry(k).or_insert(0) += n;
    }
    for w in p.inconclusive {
        into.inconclusive(&w);
    }
}
