//! C36 — a restarted coordinator recovers exactly its applied Raft state (RocksStore).
//!
//! Histories of legal `RaftStorage` calls (save_vote, append_to_log, delete_conflict_logs_since,
//! apply_to_state_machine, build_snapshot, purge_logs_upto, install_snapshot; <= 20 steps) are run
//! against the real `RocksStore`. The storage writes of a history are counted with hook H6, then
//! the history is re-run on a fresh directory once per write index n with a fail-stop armed at
//! write n (the failing call returns Err = the process died there), the store is dropped and
//! reopened with `RocksStore::open_with_shared_state`, and what the reopened store reports is
//! compared with
//!   * a write-level model of what the completed writes persisted (vote, log, last_purged,
//!     last_applied, membership), and
//!   * the fold of `apply_command` over the *full* committed command history up to the recovered
//!     `last_applied` (so state that recovery cannot rebuild from the surviving log is seen).
//!
//! H6 is process-global, so one process runs its histories strictly one after the other; the
//! parent process only fans the histories out over subprocess shards of this same binary.
use openraft::{CommittedLeaderId, Entry, EntryPayload, LogId, Membership, RaftLogReader, RaftSnapshotBuilder, RaftStorage, SnapshotMeta, StoredMembership, Vote};
use serde_json::{json, Value as J};
use std::collections::{BTreeMap, BTreeSet};
use varpulis_cluster::raft::persistent_store::RocksStore;
use varpulis_cluster::raft::state_machine::{apply_command, CoordinatorState};
use varpulis_cluster::raft::store::{MemStore, SharedCoordinatorState};
use varpulis_cluster::raft::{ClusterCommand, NodeId, RaftNode, TypeConfig};
use varpulis_cluster::verif::{storage_crash_after, storage_crash_disarm, storage_writes_reset};
use varpulis_cluster::{ClusterConnector, WorkerCapacity};
use vh::*;

/// Oracle self-test switch (`--perturb <name>`, never set by the driver).
static PERTURB: std::sync::OnceLock<String> = std::sync::OnceLock::new();
fn perturb(name: &str) -> bool {
    PERTURB.get().map(|p| p == name).unwrap_or(false)
}

type Ent = Entry<TypeConfig>;
type Lid = LogId<NodeId>;
type Mem = StoredMembership<NodeId, RaftNode>;

// ---------------------------------------------------------------------------------------------
// canonical JSON
// ---------------------------------------------------------------------------------------------
fn canon(v: &J) -> String {
    match v {
        J::Object(m) => {
            let mut keys: Vec<&String> = m.keys().collect();
            keys.sort();
            let parts: Vec<String> = keys.iter().map(|k| format!("{}:{}", serde_json::to_string(k).unwrap(), canon(&m[*k]))).collect();
            format!("{{{}}}", parts.join(","))
        }
        J::Array(a) => format!("[{}]", a.iter().map(canon).collect::<Vec<_>>().join(",")),
        other => other.to_string(),
    }
}

fn to_j<T: serde::Serialize>(t: &T) -> J {
    serde_json::to_value(t).unwrap_or(J::Null)
}

fn lid_s(l: &Option<Lid>) -> String {
    match l {
        None => "none".to_string(),
        Some(l) => format!("T{}-N{}.{}", l.leader_id.term, l.leader_id.node_id, l.index),
    }
}

// ---------------------------------------------------------------------------------------------
// histories
// ---------------------------------------------------------------------------------------------
#[derive(Clone, serde::Serialize, serde::Deserialize)]
enum Op {
    SaveVote { vote: Vote<NodeId> },
    Append { entries: Vec<Ent> },
    DeleteConflictSince { log_id: Lid },
    Apply { entries: Vec<Ent> },
    BuildSnapshot,
    Purge { upto: Lid },
    /// `data` is the snapshot text a leader with the same committed log produced at `meta.last_log_id`
    InstallSnapshot { meta: SnapshotMeta<NodeId, RaftNode>, data: String },
}

impl Op {
    fn kind(&self) -> &'static str {
        match self {
            Op::SaveVote { .. } => "save_vote",
            Op::Append { .. } => "append",
            Op::DeleteConflictSince { .. } => "delete_conflict",
            Op::Apply { .. } => "apply",
            Op::BuildSnapshot => "build_snapshot",
            Op::Purge { .. } => "purge",
            Op::InstallSnapshot { .. } => "install_snapshot",
        }
    }
    /// number of storage writes the op performs, in the order of `Model::write`
    fn writes(&self) -> usize {
        match self {
            Op::SaveVote { .. } | Op::Append { .. } | Op::DeleteConflictSince { .. } => 1,
            Op::Apply { .. } | Op::Purge { .. } => 2,
            Op::BuildSnapshot => 0,
            Op::InstallSnapshot { .. } => 4,
        }
    }
    fn human(&self) -> J {
        fn ent(e: &Ent) -> J {
            let p = match &e.payload {
                EntryPayload::Blank => json!("blank"),
                EntryPayload::Normal(c) => to_j(c),
                EntryPayload::Membership(m) => json!({"membership": to_j(m)}),
            };
            json!({"log_id": lid_s(&Some(e.log_id)), "payload": p})
        }
        match self {
            Op::SaveVote { vote } => json!({"save_vote": format!("{}", vote)}),
            Op::Append { entries } => json!({"append_to_log": entries.iter().map(ent).collect::<Vec<_>>()}),
            Op::DeleteConflictSince { log_id } => json!({"delete_conflict_logs_since": lid_s(&Some(*log_id))}),
            Op::Apply { entries } => json!({"apply_to_state_machine": entries.iter().map(ent).collect::<Vec<_>>()}),
            Op::BuildSnapshot => json!("get_snapshot_builder().build_snapshot()"),
            Op::Purge { upto } => json!({"purge_logs_upto": lid_s(&Some(*upto))}),
            Op::InstallSnapshot { meta, .. } => json!({"install_snapshot": {"last_log_id": lid_s(&meta.last_log_id), "snapshot_id": meta.snapshot_id}}),
        }
    }
}

#[derive(Clone, serde::Serialize, serde::Deserialize)]
struct History {
    label: String,
    /// the committed log of the cluster (index i at position i-1): the commands "up to position p"
    committed: Vec<Ent>,
    ops: Vec<Op>,
}

impl History {
    fn total_writes(&self) -> usize {
        self.ops.iter().map(|o| o.writes()).sum()
    }
    /// (op index, writes of that op completed before the crash) for a crash at write n
    fn locate(&self, n: usize) -> Option<(usize, usize)> {
        let mut left = n;
        for (i, o) in self.ops.iter().enumerate() {
            if left < o.writes() {
                return Some((i, left));
            }
            left -= o.writes();
        }
        None
    }
    fn human(&self) -> J {
        J::Array(self.ops.iter().enumerate().map(|(i, o)| json!({"step": i, "op": o.human()})).collect())
    }
}

// ---------------------------------------------------------------------------------------------
// write-level model of the persisted data
// ---------------------------------------------------------------------------------------------
#[derive(Clone, Default)]
struct Model {
    vote: Option<Vote<NodeId>>,
    log: BTreeMap<u64, Ent>,
    last_purged: Option<Lid>,
    last_applied: Option<Lid>,
    membership: Mem,
    /// index of the installed snapshot whose data / meta record has been written
    snap_data: Option<u64>,
    snap_meta: Option<u64>,
    /// (index, state text) of the last install_snapshot whose four writes all completed
    full_install: Option<(u64, String)>,
    /// an install_snapshot persisted its last_applied but not (yet) all of the snapshot
    partial_install: Option<u64>,
    /// indices of snapshots built by completed build_snapshot calls
    built: Vec<u64>,
    /// highest log index deleted by a purge write
    purged_upto: u64,
}

fn membership_after(prev: &Mem, entries: &[Ent]) -> Mem {
    let mut m = prev.clone();
    for e in entries {
        if let EntryPayload::Membership(mm) = &e.payload {
            m = StoredMembership::new(Some(e.log_id), mm.clone());
        }
    }
    m
}

impl Model {
    /// effect of the `w`-th storage write (0-based) of `op`
    fn write(&mut self, op: &Op, w: usize) {
        match (op, w) {
            (Op::SaveVote { vote }, 0) => self.vote = Some(*vote),
            (Op::Append { entries }, 0) => {
                for e in entries {
                    self.log.insert(e.log_id.index, e.clone());
                }
            }
            (Op::DeleteConflictSince { log_id }, 0) => {
                self.log.retain(|k, _| *k < log_id.index);
            }
            (Op::Purge { upto }, 0) => {
                if perturb("model-purge-keeps-boundary") {
                    self.log.retain(|k, _| *k >= upto.index);
                } else {
                    self.log.retain(|k, _| *k > upto.index);
                }
                self.purged_upto = self.purged_upto.max(upto.index);
            }
            (Op::Purge { upto }, 1) => self.last_purged = Some(*upto),
            (Op::Apply { entries }, 0) => self.last_applied = entries.last().map(|e| e.log_id),
            (Op::Apply { entries }, 1) => self.membership = membership_after(&self.membership, entries),
            (Op::InstallSnapshot { meta, .. }, 0) => {
                self.last_applied = meta.last_log_id;
                self.partial_install = meta.last_log_id.map(|l| l.index);
            }
            (Op::InstallSnapshot { meta, .. }, 1) => self.membership = meta.last_membership.clone(),
            (Op::InstallSnapshot { meta, .. }, 2) => self.snap_data = meta.last_log_id.map(|l| l.index),
            (Op::InstallSnapshot { meta, data }, 3) => {
                self.snap_meta = meta.last_log_id.map(|l| l.index);
                self.partial_install = None;
                let st = serde_json::from_str::<J>(data).ok().and_then(|v| v.get("state").cloned()).unwrap_or(J::Null);
                self.full_install = Some((meta.last_log_id.map(|l| l.index).unwrap_or(0), st.to_string()));
            }
            _ => {}
        }
    }
    /// effect of a completed op that performs no write
    fn complete(&mut self, op: &Op) {
        if let Op::BuildSnapshot = op {
            self.built.push(self.last_applied.map(|l| l.index).unwrap_or(0));
        }
    }
    /// the model after the first `n` writes of the history (ops wholly before the crash completed)
    fn after_writes(h: &History, n: usize) -> Model {
        let mut m = Model::default();
        let mut left = n;
        for op in &h.ops {
            let w = op.writes();
            if left >= w {
                for i in 0..w {
                    m.write(op, i);
                }
                // (calls without writes that precede the crashing write complete as well)
                m.complete(op);
                left -= w;
            } else {
                for i in 0..left {
                    m.write(op, i);
                }
                return m;
            }
        }
        m
    }
}

fn fold_state(committed: &[Ent], upto: u64) -> J {
    let mut st = CoordinatorState::default();
    for e in committed.iter().take(upto as usize) {
        if let EntryPayload::Normal(c) = &e.payload {
            apply_command(&mut st, c.clone());
        }
    }
    to_j(&st)
}

/// what a recovery that used everything on disk could rebuild: the last fully stored installed
/// snapshot plus the surviving log entries above it, up to `upto`
fn best_effort_state(m: &Model, upto: u64) -> Option<J> {
    let (base_idx, mut st): (u64, CoordinatorState) = match &m.full_install {
        Some((k, text)) if *k <= upto => (*k, serde_json::from_str(text).ok()?),
        _ => (0, CoordinatorState::default()),
    };
    for i in base_idx + 1..=upto {
        match m.log.get(&i) {
            Some(e) => {
                if let EntryPayload::Normal(c) = &e.payload {
                    apply_command(&mut st, c.clone());
                }
            }
            None => return None,
        }
    }
    Some(to_j(&st))
}

// ---------------------------------------------------------------------------------------------
// history generation
// ---------------------------------------------------------------------------------------------
struct Gen {
    rng: Rng,
    committed: Vec<Ent>,
    uid: u64,
    term: u64,
    inserts_only: bool,
}

fn gen_cmd(rng: &mut Rng, uid: &mut u64, inserts_only: bool) -> ClusterCommand {
    *uid += 1;
    let u = *uid;
    let w = format!("w{}", rng.below(3));
    let g = format!("g{}", rng.below(3));
    let c = format!("c{}", rng.below(2));
    let m = format!("m{}", rng.below(2));
    let roll = if inserts_only { rng.below(60) } else { rng.below(100) };
    match roll {
        0..=19 => ClusterCommand::RegisterWorker { id: w, address: format!("http://h{}:9000", u), api_key: format!("k{}", u), capacity: WorkerCapacity { cpu_cores: 1 + rng.below(8), pipelines_running: 0, max_pipelines: 10 + rng.below(5) } },
        20..=34 => ClusterCommand::GroupDeployed { name: g.clone(), group: json!({"id": g, "name": format!("grp{}", u), "status": "running"}) },
        35..=44 => {
            let mut params = std::collections::HashMap::new();
            params.insert("host".to_string(), format!("h{}", u));
            ClusterCommand::ConnectorCreated { name: c.clone(), connector: ClusterConnector { name: c, connector_type: "mqtt".into(), params, description: None } }
        }
        45..=52 => ClusterCommand::MigrationStarted { task: json!({"id": m, "pipeline": format!("p{}", u), "status": "checkpointing"}) },
        53..=59 => ClusterCommand::ScalingPolicySet { policy: Some(json!({"min_workers": 1, "max_workers": 2 + rng.below(8), "cooldown_secs": u})) },
        60..=67 => ClusterCommand::WorkerStatusChanged { id: w, status: rng.pick(&["ready", "unhealthy", "draining"]).to_string() },
        68..=73 => ClusterCommand::WorkerPipelinesUpdated { id: w, assigned_pipelines: vec![format!("p{}", u)] },
        74..=79 => ClusterCommand::GroupUpdated { name: g.clone(), group: json!({"id": g, "name": format!("grp{}", u), "status": "partially_running"}) },
        80..=85 => ClusterCommand::DeregisterWorker { id: w },
        86..=90 => ClusterCommand::GroupRemoved { name: g },
        91..=93 => ClusterCommand::ConnectorRemoved { name: c },
        94..=96 => ClusterCommand::MigrationRemoved { id: m },
        _ => ClusterCommand::ScalingPolicySet { policy: None },
    }
}

impl Gen {
    fn new(rng: Rng, inserts_only: bool) -> Gen {
        Gen { rng, committed: vec![], uid: 0, term: 1, inserts_only }
    }
    /// the committed entry at `idx` (1-based), generating the committed log lazily
    fn committed_entry(&mut self, idx: u64) -> Ent {
        while (self.committed.len() as u64) < idx {
            let i = self.committed.len() as u64 + 1;
            let id = LogId::new(CommittedLeaderId::new(self.term, 1), i);
            let roll = if self.inserts_only { 100 } else { self.rng.below(100) };
            let payload = if roll < 8 {
                EntryPayload::Blank
            } else if roll < 18 {
                let mut set = BTreeSet::new();
                for k in 1..=(1 + self.rng.below(3)) as u64 {
                    set.insert(k);
                }
                EntryPayload::Membership(Membership::new(vec![set], None))
            } else {
                EntryPayload::Normal(gen_cmd(&mut self.rng, &mut self.uid, self.inserts_only))
            };
            self.committed.push(Entry { log_id: id, payload });
        }
        self.committed[idx as usize - 1].clone()
    }
    /// snapshot (meta, text) a leader holding the committed log produces at index k — built by the
    /// real in-memory store, whose snapshot format RocksStore shares
    fn leader_snapshot(&mut self, rt: &tokio::runtime::Runtime, k: u64) -> Result<(SnapshotMeta<NodeId, RaftNode>, String), String> {
        self.committed_entry(k);
        let entries: Vec<Ent> = self.committed[..k as usize].to_vec();
        rt.block_on(async {
            let mut leader = MemStore::new();
            leader.apply_to_state_machine(&entries).await.map_err(|e| format!("leader apply: {e}"))?;
            let mut b = leader.get_snapshot_builder().await;
            let snap = b.build_snapshot().await.map_err(|e| format!("leader snapshot: {e}"))?;
            let text = String::from_utf8(snap.snapshot.into_inner()).map_err(|e| format!("leader snapshot utf8: {e}"))?;
            Ok((snap.meta, text))
        })
    }
}

/// the follower-side bookkeeping that keeps generated histories legal for openraft
#[derive(Default)]
struct Node {
    /// index -> (entry, divergent = not the committed entry of that index)
    log: BTreeMap<u64, (Ent, bool)>,
    last_purged: u64,
    last_applied: u64,
    snap_last: u64,
    /// after installing a snapshot beyond the local log openraft purges up to it before anything else
    pending_purge: Option<u64>,
    vote_term: u64,
}

impl Node {
    fn log_last(&self) -> u64 {
        self.log.keys().next_back().copied().unwrap_or(0).max(self.last_purged)
    }
    fn first_divergent(&self) -> Option<u64> {
        self.log.iter().find(|(_, v)| v.1).map(|(k, _)| *k)
    }
    fn last_clean(&self) -> u64 {
        match self.first_divergent() {
            Some(d) => d - 1,
            None => self.log_last(),
        }
    }
}

fn gen_history(rt: &tokio::runtime::Runtime, rng: Rng, steps: usize, label: &str) -> Result<History, String> {
    let mut g = Gen::new(rng, false);
    let mut n = Node::default();
    let mut ops: Vec<Op> = vec![];
    // per-history bias so that some histories are snapshot/purge heavy and others conflict heavy
    let bias_snap = 1 + g.rng.below(3) as u32;
    let bias_conflict = 1 + g.rng.below(3) as u32;
    let mut guard = 0;
    while ops.len() < steps && guard < 400 {
        guard += 1;
        let can_apply = n.last_clean() > n.last_applied && n.pending_purge.is_none();
        let can_build = n.last_applied > n.snap_last && n.pending_purge.is_none();
        let can_purge = n.snap_last > n.last_purged;
        let divergent = n.first_divergent();
        let deletable_from = n.last_applied.max(n.last_purged) + 1;
        let mut choices: Vec<(&str, u32)> = vec![("vote", 6)];
        if let Some(_k) = n.pending_purge {
            choices.push(("purge", 90));
        } else {
            choices.push(("append", 28));
            if can_apply {
                choices.push(("apply", 30));
            }
            if can_build {
                choices.push(("build", 10 * bias_snap));
            }
            if can_purge {
                choices.push(("purge", 10 * bias_snap));
            }
            if divergent.is_some() {
                choices.push(("delete", 14 * bias_conflict));
            } else {
                if n.log_last() >= deletable_from && n.log.contains_key(&deletable_from) {
                    choices.push(("delete", 2 * bias_conflict));
                }
                choices.push(("install", 3 * bias_snap));
            }
        }
        let total: u32 = choices.iter().map(|c| c.1).sum();
        let mut roll = (g.rng.next_u64() % total as u64) as u32;
        let mut pick = "vote";
        for (name, w) in &choices {
            if roll < *w {
                pick = name;
                break;
            }
            roll -= w;
        }
        match pick {
            "vote" => {
                n.vote_term = n.vote_term.max(g.term) + g.rng.below(2) as u64;
                let node = 1 + g.rng.below(3) as u64;
                let vote = if g.rng.chance(1, 2) { Vote::new_committed(n.vote_term, node) } else { Vote::new(n.vote_term, node) };
                ops.push(Op::SaveVote { vote });
            }
            "append" => {
                let cnt = 1 + g.rng.below(3) as u64;
                let start = n.log_last() + 1;
                let mut diverging = n.first_divergent().is_some();
                if !diverging && g.rng.chance(bias_conflict, 12) {
                    diverging = true;
                    g.term += 1;
                }
                let mut entries = vec![];
                for i in start..start + cnt {
                    let e = if diverging {
                        g.uid += 1;
                        Entry { log_id: LogId::new(CommittedLeaderId::new(g.term, 3), i), payload: EntryPayload::Normal(ClusterCommand::GroupDeployed { name: format!("stale{}", g.uid), group: json!({"id": format!("stale{}", g.uid), "status": "never-committed"}) }) }
                    } else {
                        g.committed_entry(i)
                    };
                    n.log.insert(i, (e.clone(), diverging));
                    entries.push(e);
                }
                ops.push(Op::Append { entries });
            }
            "delete" => {
                let from = match n.first_divergent() {
                    Some(d) => d,
                    None => deletable_from + g.rng.below((n.log_last() - deletable_from + 1) as usize) as u64,
                };
                let Some((e, _)) = n.log.get(&from) else { continue };
                let log_id = e.log_id;
                n.log.retain(|k, _| *k < from);
                // the new leader writes in a higher term; committed entries not generated yet get it
                g.term += 1;
                ops.push(Op::DeleteConflictSince { log_id });
            }
            "apply" => {
                let hi = n.last_clean();
                let upto = n.last_applied + 1 + g.rng.below((hi - n.last_applied).min(4) as usize) as u64;
                let entries: Vec<Ent> = (n.last_applied + 1..=upto).map(|i| n.log[&i].0.clone()).collect();
                n.last_applied = upto;
                ops.push(Op::Apply { entries });
            }
            "build" => {
                n.snap_last = n.last_applied;
                ops.push(Op::BuildSnapshot);
            }
            "purge" => {
                let upto = match n.pending_purge.take() {
                    Some(k) => k,
                    None => {
                        if g.rng.chance(2, 3) {
                            n.snap_last
                        } else {
                            n.last_purged + 1 + g.rng.below((n.snap_last - n.last_purged) as usize) as u64
                        }
                    }
                };
                let log_id = g.committed_entry(upto).log_id;
                n.log.retain(|k, _| *k > upto);
                n.last_purged = upto;
                ops.push(Op::Purge { upto: log_id });
            }
            "install" => {
                let k = n.last_applied + 1 + g.rng.below(4) as u64;
                let (meta, data) = g.leader_snapshot(rt, k)?;
                let local_has = n.log.get(&k).map(|(e, _)| Some(e.log_id) == meta.last_log_id).unwrap_or(false);
                n.last_applied = k;
                n.snap_last = k;
                if !local_has {
                    n.pending_purge = Some(k);
                }
                ops.push(Op::InstallSnapshot { meta, data });
            }
            _ => {}
        }
    }
    Ok(History { label: label.to_string(), committed: g.committed, ops })
}

/// small hand-written histories (commands are inserts only, so that every lost command is visible)
fn scenario(rt: &tokio::runtime::Runtime, which: usize, seed: u64) -> Result<History, String> {
    let mut g = Gen::new(Rng::new(seed).fork(7_000 + which as u64), true);
    let e = |g: &mut Gen, a: u64, b: u64| -> Vec<Ent> { (a..=b).map(|i| g.committed_entry(i)).collect() };
    let (label, ops): (&str, Vec<Op>) = match which {
        0 => ("scenario/apply-build-purge", {
            let es = e(&mut g, 1, 2);
            vec![Op::Append { entries: es.clone() }, Op::Apply { entries: es.clone() }, Op::BuildSnapshot, Op::Purge { upto: es[1].log_id }]
        }),
        1 => ("scenario/install-purge", {
            let (meta, data) = g.leader_snapshot(rt, 2)?;
            let upto = meta.last_log_id.ok_or("snapshot without log id")?;
            vec![Op::InstallSnapshot { meta, data }, Op::Purge { upto }]
        }),
        2 => ("scenario/vote-append-apply-conflict", {
            let es = e(&mut g, 1, 3);
            let stale = Entry { log_id: LogId::new(CommittedLeaderId::new(1, 3), 4), payload: EntryPayload::Normal(ClusterCommand::GroupDeployed { name: "stale".into(), group: json!({"id": "stale"}) }) };
            g.term = 2;
            let e4 = g.committed_entry(4);
            vec![
                Op::SaveVote { vote: Vote::new(1, 2) },
                Op::Append { entries: es.clone() },
                Op::Append { entries: vec![stale.clone()] },
                Op::Apply { entries: es[..2].to_vec() },
                Op::SaveVote { vote: Vote::new_committed(2, 1) },
                Op::DeleteConflictSince { log_id: stale.log_id },
                Op::Append { entries: vec![e4.clone()] },
                Op::Apply { entries: vec![es[2].clone(), e4] },
            ]
        }),
        3 => ("scenario/build-partial-purge-then-more", {
            let es = e(&mut g, 1, 5);
            vec![
                Op::Append { entries: es[..3].to_vec() },
                Op::Apply { entries: es[..3].to_vec() },
                Op::BuildSnapshot,
                Op::Purge { upto: es[1].log_id },
                Op::Append { entries: es[3..].to_vec() },
                Op::Apply { entries: es[3..].to_vec() },
            ]
        }),
        _ => ("scenario/install-then-log", {
            let (meta, data) = g.leader_snapshot(rt, 3)?;
            let upto = meta.last_log_id.ok_or("snapshot without log id")?;
            let es = e(&mut g, 4, 5);
            vec![Op::InstallSnapshot { meta, data }, Op::Purge { upto }, Op::Append { entries: es.clone() }, Op::Apply { entries: es }]
        }),
    };
    Ok(History { label: label.to_string(), committed: g.committed, ops })
}
const SCENARIOS: usize = 5;

// ---------------------------------------------------------------------------------------------
// running a history against the real store
// ---------------------------------------------------------------------------------------------
fn scratch_dir() -> std::io::Result<tempfile::TempDir> {
    if std::path::Path::new("/dev/shm").is_dir() {
        if let Ok(d) = tempfile::Builder::new().prefix("vh-c36-").tempdir_in("/dev/shm") {
            return Ok(d);
        }
    }
    tempfile::Builder::new().prefix("vh-c36-").tempdir()
}

async fn exec(store: &mut RocksStore, op: &Op) -> Result<(), String> {
    let r = match op {
        Op::SaveVote { vote } => store.save_vote(vote).await,
        Op::Append { entries } => store.append_to_log(entries.clone()).await,
        Op::DeleteConflictSince { log_id } => store.delete_conflict_logs_since(*log_id).await,
        Op::Apply { entries } => store.apply_to_state_machine(entries).await.map(|_| ()),
        Op::BuildSnapshot => {
            let mut b = store.get_snapshot_builder().await;
            b.build_snapshot().await.map(|_| ())
        }
        Op::Purge { upto } => store.purge_logs_upto(*upto).await,
        Op::InstallSnapshot { meta, data } => match store.begin_receiving_snapshot().await {
            Ok(mut b) => {
                *b = std::io::Cursor::new(data.clone().into_bytes());
                store.install_snapshot(meta, b).await
            }
            Err(e) => Err(e),
        },
    };
    r.map_err(|e| format!("{e} / {e:?}"))
}

struct Recovered {
    vote: Option<Vote<NodeId>>,
    log: Vec<Ent>,
    last_purged: Option<Lid>,
    last_log_id: Option<Lid>,
    last_applied: Option<Lid>,
    membership: Mem,
    shared_state: J,
    internal_state: J,
}

enum RunEnd {
    /// all ops returned Ok
    Completed,
    /// op index whose call returned the simulated crash
    Crashed(usize, String),
}

struct RunOut {
    end: RunEnd,
    /// storage writes attempted per executed op (counting pass only meaningful without a crash)
    writes_per_op: Vec<u64>,
    rec: Recovered,
}

static OPENS: std::sync::atomic::AtomicU64 = std::sync::atomic::AtomicU64::new(0);
static OPEN_US: std::sync::atomic::AtomicU64 = std::sync::atomic::AtomicU64::new(0);

fn open(path: &str) -> Result<(RocksStore, SharedCoordinatorState), String> {
    let t0 = std::time::Instant::now();
    let r = RocksStore::open_with_shared_state(path);
    OPEN_US.fetch_add(t0.elapsed().as_micros() as u64, std::sync::atomic::Ordering::Relaxed);
    OPENS.fetch_add(1, std::sync::atomic::Ordering::Relaxed);
    r
}

/// Run `h` on a fresh directory with a crash armed at write `crash_at` (None: count writes only),
/// drop the store, reopen, read everything back. Err = harness trouble (never a verdict).
fn run_once(rt: &tokio::runtime::Runtime, h: &History, crash_at: Option<usize>) -> Result<RunOut, String> {
    let dir = scratch_dir().map_err(|e| format!("tempdir: {e}"))?;
    let path = dir.path().to_str().ok_or("non-utf8 tempdir")?.to_string();
    storage_writes_reset();
    let (mut store, shared) = open(&path)?;
    let mut end = RunEnd::Completed;
    let mut writes_per_op = vec![];
    match crash_at {
        Some(n) => storage_crash_after(n as u64),
        None => storage_writes_reset(),
    }
    for (i, op) in h.ops.iter().enumerate() {
        let r = rt.block_on(exec(&mut store, op));
        if crash_at.is_none() {
            writes_per_op.push(storage_crash_disarm());
            storage_writes_reset();
        }
        match r {
            Ok(()) => {}
            Err(e) if crash_at.is_some() && e.contains("verif: simulated crash") => {
                end = RunEnd::Crashed(i, e.split(" / ").next().unwrap_or("").to_string());
                break;
            }
            Err(e) => {
                storage_crash_disarm();
                return Err(format!("step {i} ({}) failed with a real storage error: {e}", op.kind()));
            }
        }
    }
    storage_crash_disarm();
    // the process dies: nothing in memory survives
    drop(store);
    drop(shared);
    let (mut store, shared) = open(&path)?;
    let rec = rt.block_on(async {
        let vote = store.read_vote().await.map_err(|e| format!("read_vote: {e}"))?;
        let log = store.try_get_log_entries(0u64..).await.map_err(|e| format!("try_get_log_entries: {e}"))?;
        let ls = store.get_log_state().await.map_err(|e| format!("get_log_state: {e}"))?;
        let (last_applied, membership) = store.last_applied_state().await.map_err(|e| format!("last_applied_state: {e}"))?;
        let mut b = store.get_snapshot_builder().await;
        let snap = b.build_snapshot().await.map_err(|e| format!("build_snapshot after reopen: {e}"))?;
        let internal: J = serde_json::from_slice(&snap.snapshot.into_inner()).map_err(|e| format!("snapshot json: {e}"))?;
        let shared_state = {
            let g = shared.read().unwrap_or_else(|e| e.into_inner());
            to_j(&*g)
        };
        Ok::<_, String>(Recovered { vote, log, last_purged: ls.last_purged_log_id, last_log_id: ls.last_log_id, last_applied, membership, shared_state, internal_state: internal.get("state").cloned().unwrap_or(J::Null) })
    })?;
    drop(store);
    drop(shared);
    drop(dir);
    Ok(RunOut { end, writes_per_op, rec })
}

// ---------------------------------------------------------------------------------------------
// judging one (history, crash point)
// ---------------------------------------------------------------------------------------------
#[derive(Default)]
struct Out {
    p: Partial,
    /// signature -> (size of the witness, what, witness) — the smallest witness per signature
    best: BTreeMap<String, (usize, String, J)>,
    sig_counts: BTreeMap<String, u64>,
}

impl Out {
    fn violation(&mut self, sig: &str, what: &str, size: usize, witness: J) {
        *self.sig_counts.entry(sig.to_string()).or_insert(0) += 1;
        match self.best.get(sig) {
            Some((s, _, _)) if *s <= size => {}
            _ => {
                self.best.insert(sig.to_string(), (size, what.to_string(), witness));
            }
        }
    }
}

fn crash_pos(h: &History, crash_at: Option<usize>) -> (&'static str, Option<(usize, usize)>) {
    match crash_at.and_then(|n| h.locate(n)) {
        None => ("after-last-write", None),
        Some((i, 0)) => ("before-op", Some((i, 0))),
        Some((i, w)) => (
            match h.ops[i].kind() {
                "apply" => "mid-apply",
                "purge" => "mid-purge",
                "install_snapshot" => "mid-install",
                _ => "mid-other",
            },
            Some((i, w)),
        ),
    }
}

/// `table_ok`: the per-op write counts observed in the counting pass equal the model's table; when
/// not, the crashed op's components are accepted in their before- or after-op value instead.
fn judge(h: &History, crash_at: Option<usize>, run: &RunOut, table_ok: bool, out: &mut Out) {
    let total = h.total_writes();
    let n = crash_at.unwrap_or(total);
    let (mut pos, mut loc) = crash_pos(h, crash_at);
    let mut model = Model::after_writes(h, n);
    // When the write table is out of date (the store's write structure changed), the call that
    // crashed is taken from what happened, and each component is accepted in its value before or
    // after that call.
    let (mut pre, mut post) = (None, None);
    if !table_ok {
        let after_ops = |k: usize| -> Model { Model::after_writes(h, h.ops[..k].iter().map(|o| o.writes()).sum()) };
        match run.end {
            RunEnd::Crashed(i, _) => {
                model = after_ops(i);
                pre = Some(after_ops(i));
                post = Some(after_ops(i + 1));
                loc = Some((i, 0));
                pos = match h.ops[i].kind() {
                    "apply" => "in-apply",
                    "purge" => "in-purge",
                    "install_snapshot" => "in-install",
                    _ => "in-other",
                };
            }
            RunEnd::Completed => {
                model = after_ops(h.ops.len());
                loc = None;
                pos = "after-last-write";
            }
        }
    }
    // signature component: the crash position matters only when it is inside a call
    let pos_sig = if pos.starts_with("mid-") || pos.starts_with("in-") { pos } else { "call-boundary" };
    let r = &run.rec;
    let executed = match run.end {
        RunEnd::Completed => h.ops.len(),
        RunEnd::Crashed(i, _) => i + 1,
    };
    let crash_site = match &run.end {
        RunEnd::Completed => "none (all calls returned; process killed afterwards)".to_string(),
        RunEnd::Crashed(_, e) => e.clone(),
    };
    let base_witness = |extra: J| -> J {
        let mut w = json!({
            "history_label": h.label,
            "history": h.human(),
            "crash": {"before_storage_write": crash_at, "position": pos, "in_step": loc.map(|l| l.0), "writes_of_that_step_completed": loc.map(|l| l.1), "error_returned": crash_site},
            "then": "store dropped; RocksStore::open_with_shared_state on the same directory",
            "recovered": {"vote": r.vote.map(|v| format!("{v}")), "log": r.log.iter().map(|e| lid_s(&Some(e.log_id))).collect::<Vec<_>>(), "last_purged": lid_s(&r.last_purged), "last_log_id": lid_s(&r.last_log_id), "last_applied": lid_s(&r.last_applied), "membership": format!("{:?}", r.membership)},
            "machine_readable": {"history": to_j(h), "crash_at": crash_at},
        });
        if let (J::Object(m), J::Object(e)) = (&mut w, extra) {
            for (k, v) in e {
                m.insert(k, v);
            }
        }
        w
    };
    macro_rules! check_component {
        ($name:expr, $what:expr, $got:expr, $field:ident, $fmt:expr) => {{
            out.p.add("component_comparisons", 1);
            let ok = $got == model.$field || pre.as_ref().map(|m| $got == m.$field).unwrap_or(false) || post.as_ref().map(|m| $got == m.$field).unwrap_or(false);
            if !ok {
                out.violation(&format!("{}/{}", $name, pos_sig), $what, executed, base_witness(json!({"expected": $fmt(&model.$field), "observed": $fmt(&$got)})));
            }
        }};
    }
    check_component!("vote", "the vote read after restart is not the last vote whose save completed", r.vote, vote, |v: &Option<Vote<NodeId>>| v.map(|v| format!("{v}")));
    check_component!("last_purged", "the purge position after restart is not the one persisted before the crash", r.last_purged, last_purged, |l: &Option<Lid>| lid_s(l));
    check_component!("last_applied", "the applied position after restart is not the one persisted before the crash", r.last_applied, last_applied, |l: &Option<Lid>| lid_s(l));
    check_component!("membership", "the stored membership after restart is not the one persisted before the crash", r.membership, membership, |m: &Mem| format!("{m:?}"));
    // log: index set + content
    {
        out.p.add("component_comparisons", 1);
        let got: Vec<String> = r.log.iter().map(|e| canon(&to_j(e))).collect();
        let as_vec = |m: &Model| -> Vec<String> { m.log.values().map(|e| canon(&to_j(e))).collect() };
        let ok = got == as_vec(&model) || pre.as_ref().map(|m| got == as_vec(m)).unwrap_or(false) || post.as_ref().map(|m| got == as_vec(m)).unwrap_or(false);
        if !ok {
            let want_idx: Vec<u64> = model.log.keys().copied().collect();
            let got_idx: Vec<u64> = r.log.iter().map(|e| e.log_id.index).collect();
            let what = if want_idx != got_idx { "index-set" } else { "content" };
            out.violation(
                &format!("log/{}/{}", what, pos_sig),
                "the log read after restart is not the log persisted before the crash",
                executed,
                base_witness(json!({"expected_log": model.log.values().map(|e| lid_s(&Some(e.log_id))).collect::<Vec<_>>(), "expected_indices": want_idx, "observed_indices": got_idx})),
            );
        }
    }
    // informational: a hole between the purge position and the first log entry (openraft: "must not leave a hole")
    if let Some(first) = r.log.first() {
        let lp = r.last_purged.map(|l| l.index).unwrap_or(0);
        if first.log_id.index > lp + 1 && r.last_applied.map(|l| l.index).unwrap_or(0) < first.log_id.index {
            out.p.add("info_log_starts_above_purge_position_and_applied", 1);
        } else if first.log_id.index > lp + 1 {
            out.p.add("info_log_starts_above_purge_position", 1);
        }
    }
    if pos == "mid-apply" {
        if let Some((i, 1)) = loc {
            if let Op::Apply { entries } = &h.ops[i] {
                if entries.iter().any(|e| matches!(e.payload, EntryPayload::Membership(_))) {
                    out.p.add("info_mid_apply_crash_leaves_membership_behind_last_applied", 1);
                }
            }
        }
    }
    // the two views of the state must agree
    if canon(&r.shared_state) != canon(&r.internal_state) {
        out.violation("state/shared-vs-internal", "after restart the published SharedCoordinatorState differs from the store's own state machine", executed, base_witness(json!({"shared": r.shared_state, "internal": r.internal_state})));
    }
    // state == fold of the committed commands up to the recovered applied position
    let l = r.last_applied.map(|l| l.index).unwrap_or(0);
    if l as usize > h.committed.len() {
        // an applied position the history never produced: already reported as last_applied/..
        return;
    }
    out.p.add("state_comparisons", 1);
    let mut expected = fold_state(&h.committed, l);
    if perturb("oracle-forgets-first-command") && l >= 1 {
        let mut st = CoordinatorState::default();
        for e in h.committed.iter().take(l as usize).skip(1) {
            if let EntryPayload::Normal(c) = &e.payload {
                apply_command(&mut st, c.clone());
            }
        }
        expected = to_j(&st);
    }
    if canon(&expected) != canon(&r.shared_state) {
        let cause = if model.partial_install == Some(l) || (pos == "in-install" && !table_ok && post.as_ref().map(|m| m.last_applied.map(|x| x.index) == Some(l)).unwrap_or(false)) {
            "mid-install"
        } else {
            match best_effort_state(&model, l) {
                // everything needed is on disk (stored snapshot + surviving log) and yields the expected state
                Some(b) if canon(&b) == canon(&expected) && model.full_install.as_ref().map(|f| f.0 <= l).unwrap_or(false) => "installed-snapshot-ignored",
                Some(_) => "unexplained",
                // some applied entry above the last stored snapshot is no longer in the log
                None if !model.built.is_empty() && model.purged_upto >= 1 => "built-snapshot-not-persisted",
                None => "unexplained",
            }
        };
        let what = match cause {
            "mid-install" => "crash inside install_snapshot after last_applied was persisted but before the snapshot was: the restarted store reports the snapshot's applied position with a state that lacks the snapshot's commands",
            "installed-snapshot-ignored" => "after a completed install_snapshot the restarted store reports the snapshot's applied position but rebuilds its state only from the log entries that survive: the stored snapshot is never read",
            "built-snapshot-not-persisted" => "after build_snapshot + purge_logs_upto the restarted store reports the applied position but the commands of the purged entries are gone: the built snapshot was never persisted and recovery only replays surviving log entries",
            _ => "the state after restart is not the fold of the committed commands up to the recovered applied position",
        };
        out.violation(&format!("state/{}", cause), what, executed, base_witness(json!({"recovered_last_applied_index": l, "expected_state": expected, "observed_state": r.shared_state})));
    }
}

/// all crash points of one history
fn check_history(rt: &tokio::runtime::Runtime, h: &History, out: &mut Out) {
    // counting pass = the crash point after the last write
    let counted = match run_once(rt, h, None) {
        Ok(r) => r,
        Err(e) => {
            out.p.inconclusive(&format!("counting pass of {}: {e}", h.label));
            return;
        }
    };
    let table: Vec<u64> = h.ops.iter().map(|o| o.writes() as u64).collect();
    let table_ok = counted.writes_per_op == table;
    if !table_ok {
        out.p.add("histories_with_unexpected_write_structure", 1);
    }
    let total: usize = counted.writes_per_op.iter().sum::<u64>() as usize;
    out.p.eval();
    out.p.add("crash_points", 1);
    out.p.add("histories", 1);
    out.p.add("storage_writes", total as u64);
    judge(h, None, &counted, table_ok, out);
    let hh = hash64(&to_j(h).to_string());
    for n in 0..total {
        let run = match run_once(rt, h, Some(n)) {
            Ok(r) => r,
            Err(e) => {
                out.p.inconclusive(&format!("{} crash at write {n}: {e}", h.label));
                continue;
            }
        };
        // the crash must hit where the write table says it does
        let crashed_at = match run.end {
            RunEnd::Crashed(i, _) => Some(i),
            RunEnd::Completed => None,
        };
        if table_ok {
            if crashed_at != h.locate(n).map(|l| l.0) {
                out.p.inconclusive(&format!("{}: crash armed at write {n} hit step {:?}, write table says {:?} (non-deterministic write count)", h.label, crashed_at, h.locate(n)));
                continue;
            }
        } else if crashed_at.is_none() {
            out.p.inconclusive(&format!("{}: crash armed at write {n} of {total} was never reached", h.label));
            continue;
        }
        out.p.eval();
        out.p.add("crash_points", 1);
        // position of the crash inside its call, by the write counts observed in the counting pass
        let inside = {
            let mut left = n as u64;
            let mut inside = false;
            for w in &counted.writes_per_op {
                if left < *w {
                    inside = left > 0;
                    break;
                }
                left -= *w;
            }
            inside
        };
        let (pos, _) = crash_pos(h, Some(n));
        out.p.add(&format!("crash_points_{}", if table_ok { pos } else if inside { "inside-a-call" } else { "before-a-call" }), 1);
        if inside {
            out.p.nontrivial(&(hh, n));
        }
        judge(h, Some(n), &run, table_ok, out);
    }
    if out.p.samples.len() < 2 {
        out.p.sample(json!({"history_label": h.label, "history": h.human(), "storage_writes": total, "crash_points_enumerated": total + 1}));
    }
}

// ---------------------------------------------------------------------------------------------
// sharding
// ---------------------------------------------------------------------------------------------
fn history_for(rt: &tokio::runtime::Runtime, seed: u64, idx: usize, thorough: bool) -> Result<History, String> {
    if idx < SCENARIOS {
        return scenario(rt, idx, seed);
    }
    let mut rng = Rng::new(seed).fork(100_000 + idx as u64);
    let steps = if thorough { 8 + rng.below(13) } else { 5 + rng.below(8) };
    gen_history(rt, rng, steps, &format!("random/{idx}"))
}

fn shard_main(args: &Args, indices: &[usize]) -> J {
    let rt = tokio::runtime::Builder::new_current_thread().enable_all().build().expect("rt");
    let mut out = Out::default();
    for idx in indices.iter().copied() {
        match history_for(&rt, args.seed, idx, args.thorough()) {
            Ok(h) => {
                let r = catch(std::panic::AssertUnwindSafe(|| check_history(&rt, &h, &mut out)));
                if let Err(p) = r {
                    storage_crash_disarm();
                    out.violation("panic", "panic while running a storage history / reopening the store", h.ops.len(), json!({"history_label": h.label, "history": h.human(), "panic": p, "site": panic_site(&last_panic_location()), "machine_readable": {"history": to_j(&h)}}));
                }
            }
            Err(e) => out.p.inconclusive(&format!("history generation {idx}: {e}")),
        }
    }
    out.p.add("rocks_opens", OPENS.load(std::sync::atomic::Ordering::Relaxed));
    out.p.add("ms_rocks_open_sum", OPEN_US.load(std::sync::atomic::Ordering::Relaxed) / 1000);
    json!({
        "evaluations": out.p.evaluations,
        "nontrivial": out.p.nontrivial.iter().collect::<Vec<_>>(),
        "samples": out.p.samples,
        "counters": out.p.counters,
        "inconclusive": out.p.inconclusive,
        "best": out.best.iter().map(|(k, v)| json!({"sig": k, "size": v.0, "what": v.1, "witness": v.2})).collect::<Vec<_>>(),
        "sig_counts": out.sig_counts,
    })
}

fn replay(args: &Args, path: &std::path::Path) -> i32 {
    let doc: J = serde_json::from_str(&std::fs::read_to_string(path).expect("replay file")).expect("json");
    let mr = &doc["witness"]["machine_readable"];
    let h: History = serde_json::from_value(mr["history"].clone()).expect("history");
    let crash_at = mr["crash_at"].as_u64().map(|n| n as usize);
    let rt = tokio::runtime::Builder::new_current_thread().enable_all().build().expect("rt");
    let mut out = Out::default();
    match run_once(&rt, &h, crash_at) {
        Ok(run) => judge(&h, crash_at, &run, true, &mut out),
        Err(e) => {
            println!("INCONCLUSIVE property=C36 reason=replay failed: {e}");
            return 2;
        }
    }
    let _ = args;
    for (sig, (_, what, w)) in &out.best {
        println!("REPLAY signature={sig} :: {what}\n{}", serde_json::to_string_pretty(&json!({"crash": w["crash"], "recovered": w["recovered"], "expected": w.get("expected"), "observed": w.get("observed"), "expected_state": w.get("expected_state"), "observed_state": w.get("observed_state")})).unwrap());
    }
    if out.best.is_empty() {
        println!("REPLAY: no violation on this witness");
        0
    } else {
        1
    }
}

fn main() {
    let args = Args::parse();
    install_quiet_panic_hook();
    watchdog("C36", args.pick(600, 5400));
    if let Some(p) = args.opt("--perturb") {
        let _ = PERTURB.set(p);
    }
    if let Some(path) = args.replay.clone() {
        std::process::exit(replay(&args, &path));
    }
    let nhist = args.opt("--histories").and_then(|s| s.parse().ok()).unwrap_or(args.pick(SCENARIOS + 22, SCENARIOS + 240));
    if let Some(s) = args.opt("--shard-indices") {
        let indices: Vec<usize> = s.split(',').filter_map(|x| x.parse().ok()).collect();
        let res = shard_main(&args, &indices);
        println!("SHARD-RESULT {}", res);
        std::process::exit(0);
    }

    let mut rep = Report::new("C36", "fault_enumeration", &args);
    rep.rule = "histories of legal RaftStorage calls on RocksStore (5 hand-written scenarios + seeded random histories of 5-12 steps quick / 8-20 thorough: save_vote, append (committed or stale-leader entries), delete_conflict_logs_since, apply (only committed entries present in the log), build_snapshot, purge (only up to the last built/installed snapshot), install_snapshot (leader snapshot above the applied position, followed by the purge openraft issues)). For each history the storage writes are counted through H6 and EVERY write index n gets its own run on a fresh directory with a fail-stop before write n, plus the crash after the last write; then drop + open_with_shared_state. One evaluation = one (history, crash point). Non-trivial: the crash point lies strictly inside a multi-write storage call (apply, purge, install_snapshot: >=1 but not all of its writes done); distinct by (history, write index).".into();
    rep.assume("fail-stop model of H6: the armed write and everything after it does not reach RocksDB; completed RocksDB writes survive the drop of the DB handle (WAL), no torn or reordered writes");
    rep.assume("the committed command history is the harness's own record of the entries it generated; the expected state is the fold of the crate's apply_command over it (C35 checks apply_command itself against an independent model)");
    rep.assume("vote / log / last_purged / last_applied / membership are compared with a write-level model (which write of which call persists what, in the order the store issues them); the per-call write counts of the model are re-validated against H6 in every counting pass, and a call whose count differs is judged per component against its before/after values instead");
    rep.assume("install_snapshot data is the snapshot the real MemStore of a leader with the same committed log builds (same StateMachineSnapshot format)");
    rep.exhaustive = Some(true);
    rep.set("exhaustive_over", json!("crash points of each generated history (every storage write index + after the last write); histories themselves are sampled"));

    let nshards = args.opt("--nshards").and_then(|s| s.parse().ok()).unwrap_or_else(ncpu).max(1).min(nhist);
    // balance the shards by the number of store openings each history costs (2 per crash point)
    let mut shard_load: Vec<(usize, Vec<usize>)> = vec![(0, vec![]); nshards];
    {
        let rt = tokio::runtime::Builder::new_current_thread().enable_all().build().expect("rt");
        let mut costs: Vec<(usize, usize)> = (0..nhist).map(|i| (history_for(&rt, args.seed, i, args.thorough()).map(|h| h.total_writes() + 1).unwrap_or(1), i)).collect();
        costs.sort_by(|a, b| b.cmp(a));
        for (cost, idx) in costs {
            let s = shard_load.iter_mut().min_by_key(|s| s.0).expect("shards");
            s.0 += cost;
            s.1.push(idx);
        }
    }
    let exe = std::env::current_exe().expect("current_exe");
    let mut children = vec![];
    for (s, (_, indices)) in shard_load.iter().enumerate() {
        let mut cmd = std::process::Command::new(&exe);
        cmd.arg("--shard-indices").arg(indices.iter().map(|i| i.to_string()).collect::<Vec<_>>().join(",")).arg("--tier").arg(&args.tier).arg("--seed").arg((args.seed as i64).to_string()).arg("--verif-dir").arg(&args.verif_dir);
        if let Some(p) = PERTURB.get() {
            cmd.arg("--perturb").arg(p);
        }
        cmd.stdout(std::process::Stdio::piped()).stderr(std::process::Stdio::piped());
        match cmd.spawn() {
            Ok(c) => children.push((s, c)),
            Err(e) => rep.inconclusive(&format!("cannot spawn shard {s}: {e}")),
        }
    }
    let mut best: BTreeMap<String, (usize, String, J)> = BTreeMap::new();
    let mut counts: BTreeMap<String, u64> = BTreeMap::new();
    for (s, c) in children {
        let o = match c.wait_with_output() {
            Ok(o) => o,
            Err(e) => {
                rep.inconclusive(&format!("shard {s}: {e}"));
                continue;
            }
        };
        let text = String::from_utf8_lossy(&o.stdout);
        let Some(line) = text.lines().find_map(|l| l.strip_prefix("SHARD-RESULT ")) else {
            let err = String::from_utf8_lossy(&o.stderr);
            rep.inconclusive(&format!("shard {s} produced no result (status {:?}): {}", o.status.code(), err.chars().rev().take(300).collect::<String>().chars().rev().collect::<String>()));
            continue;
        };
        let v: J = match serde_json::from_str(line) {
            Ok(v) => v,
            Err(e) => {
                rep.inconclusive(&format!("shard {s} result unreadable: {e}"));
                continue;
            }
        };
        let mut p = Partial::default();
        p.evaluations = v["evaluations"].as_u64().unwrap_or(0);
        for h in v["nontrivial"].as_array().cloned().unwrap_or_default() {
            if let Some(h) = h.as_u64() {
                p.nontrivial.insert(h);
            }
        }
        p.samples = v["samples"].as_array().cloned().unwrap_or_default();
        if let Some(m) = v["counters"].as_object() {
            for (k, n) in m {
                p.counters.insert(k.clone(), n.as_u64().unwrap_or(0));
            }
        }
        for w in v["inconclusive"].as_array().cloned().unwrap_or_default() {
            p.inconclusive.push(w.as_str().unwrap_or("").to_string());
        }
        rep.merge(p);
        for b in v["best"].as_array().cloned().unwrap_or_default() {
            let sig = b["sig"].as_str().unwrap_or("").to_string();
            let size = b["size"].as_u64().unwrap_or(0) as usize;
            match best.get(&sig) {
                Some((s0, _, _)) if *s0 <= size => {}
                _ => {
                    best.insert(sig, (size, b["what"].as_str().unwrap_or("").to_string(), b["witness"].clone()));
                }
            }
        }
        if let Some(m) = v["sig_counts"].as_object() {
            for (k, n) in m {
                *counts.entry(k.clone()).or_insert(0) += n.as_u64().unwrap_or(0);
            }
        }
    }
    for (sig, (_, what, w)) in best {
        rep.violation(&sig, &what, w);
        let total = counts.get(&sig).copied().unwrap_or(1);
        rep.sig_counts.insert(sig, total);
    }
    rep.add("shards", nshards as u64);
    std::process::exit(rep.finish());
}
