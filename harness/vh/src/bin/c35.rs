//! C35 — replicated coordinator state is deterministic and snapshot-equivalent.
//!
//! (i)   random committed logs over all 16 command kinds (+ blank and membership entries), applied
//!       through `RaftStorage::apply_to_state_machine` in random batchings on `MemStore` and
//!       `RocksStore`; the state after every batch is compared (canonical JSON) with a harness-side
//!       reference fold of the commands, and with the other batchings / the other store.
//! (ii)  for every index i of the log: build a snapshot at i, install it on a fresh store of the
//!       same kind, apply the rest, compare state + last_applied_state with the full replay.
//! (iii) openraft's own storage conformance suite (`openraft::testing::Suite`) against both stores:
//!       every test of `Suite::test_store` is run on its own (so that all failing tests are seen,
//!       not only the first), then `test_all` as a whole when none failed.
use openraft::storage::{Adaptor, RaftLogStorage, RaftStateMachine};
use openraft::testing::{StoreBuilder, Suite};
use openraft::{CommittedLeaderId, Entry, EntryPayload, LogId, Membership, RaftSnapshotBuilder, RaftStorage, StorageError, StoredMembership};
use serde_json::{json, Value as J};
use std::collections::{BTreeMap, BTreeSet};
use varpulis_cluster::raft::persistent_store::RocksStore;
use varpulis_cluster::raft::store::{MemStore, SharedCoordinatorState};
use varpulis_cluster::raft::{ClusterCommand, NodeId, RaftNode, TypeConfig};
use varpulis_cluster::{ClusterConnector, WorkerCapacity};
use vh::*;

/// Oracle self-test switch (`--perturb <name>`, never set by the driver): deliberately wrong
/// expectations used to confirm that the monitor fires. Run with `--verif-dir <scratch>`.
static PERTURB: std::sync::OnceLock<String> = std::sync::OnceLock::new();
fn perturb(name: &str) -> bool {
    PERTURB.get().map(|p| p == name).unwrap_or(false)
}

// ---------------------------------------------------------------------------------------------
// canonical JSON
// ---------------------------------------------------------------------------------------------
fn canon(v: &J) -> String {
    match v {
        J::Object(m) => {
            let mut keys: Vec<&String> = m.keys().collect();
            keys.sort();
            let parts: Vec<String> = keys.iter().map(|k| format!("{}:{}", serde_json::to_string(k).unwrap(), canon(&m[*k]))).collect();
            format!("{{{}}}", parts.join(","))
        }
        J::Array(a) => format!("[{}]", a.iter().map(canon).collect::<Vec<_>>().join(",")),
        other => other.to_string(),
    }
}

fn shared_json(s: &SharedCoordinatorState) -> J {
    let g = s.read().unwrap_or_else(|e| e.into_inner());
    serde_json::to_value(&*g).unwrap_or(J::Null)
}

// ---------------------------------------------------------------------------------------------
// reference model of the replicated state (own bookkeeping, JSON shaped like CoordinatorState)
// ---------------------------------------------------------------------------------------------
#[derive(Clone, Default)]
struct RefState {
    workers: BTreeMap<String, J>,
    groups: BTreeMap<String, J>,
    connectors: BTreeMap<String, J>,
    migrations: BTreeMap<String, J>,
    scaling: Option<J>,
    models: BTreeMap<String, J>,
}

impl RefState {
    fn apply(&mut self, c: &ClusterCommand) {
        match c {
            ClusterCommand::RegisterWorker { id, address, api_key, capacity } => {
                self.workers.insert(
                    id.clone(),
                    json!({"id": id, "address": address, "api_key": api_key, "status": "ready", "cpu_cores": capacity.cpu_cores,
                        "pipelines_running": capacity.pipelines_running, "max_pipelines": capacity.max_pipelines, "assigned_pipelines": [], "events_processed": 0}),
                );
            }
            ClusterCommand::DeregisterWorker { id } => {
                self.workers.remove(id);
            }
            ClusterCommand::WorkerStatusChanged { id, status } => {
                if let Some(w) = self.workers.get_mut(id) {
                    w["status"] = json!(status);
                }
            }
            ClusterCommand::WorkerPipelinesUpdated { id, assigned_pipelines } => {
                if let Some(w) = self.workers.get_mut(id) {
                    w["assigned_pipelines"] = json!(assigned_pipelines);
                }
            }
            ClusterCommand::GroupUpdated { name, .. } if perturb("ref-ignores-group-update") && self.groups.contains_key(name) => {}
            ClusterCommand::GroupDeployed { name, group } | ClusterCommand::GroupUpdated { name, group } => {
                self.groups.insert(name.clone(), group.clone());
            }
            ClusterCommand::GroupRemoved { name } => {
                self.groups.remove(name);
            }
            ClusterCommand::MigrationStarted { task } => {
                if let Some(id) = task.get("id").and_then(|v| v.as_str()) {
                    self.migrations.insert(id.to_string(), task.clone());
                }
            }
            ClusterCommand::MigrationUpdated { id, status } => {
                if let Some(m) = self.migrations.get_mut(id) {
                    m["status"] = json!(status);
                }
            }
            ClusterCommand::MigrationRemoved { id } => {
                self.migrations.remove(id);
            }
            ClusterCommand::ConnectorCreated { name, connector } | ClusterCommand::ConnectorUpdated { name, connector } => {
                self.connectors.insert(name.clone(), serde_json::to_value(connector).unwrap());
            }
            ClusterCommand::ConnectorRemoved { name } => {
                self.connectors.remove(name);
            }
            ClusterCommand::ScalingPolicySet { policy } => {
                self.scaling = policy.clone();
            }
            ClusterCommand::ModelRegistered { name, entry } => {
                self.models.insert(name.clone(), serde_json::to_value(entry).unwrap());
            }
            ClusterCommand::ModelRemoved { name } => {
                self.models.remove(name);
            }
        }
    }
    fn json(&self) -> J {
        json!({"workers": self.workers, "pipeline_groups": self.groups, "connectors": self.connectors, "active_migrations": self.migrations,
            "scaling_policy": self.scaling, "models": self.models})
    }
}

fn cmd_kind(c: &ClusterCommand) -> &'static str {
    match c {
        ClusterCommand::RegisterWorker { .. } => "RegisterWorker",
        ClusterCommand::DeregisterWorker { .. } => "DeregisterWorker",
        ClusterCommand::WorkerStatusChanged { .. } => "WorkerStatusChanged",
        ClusterCommand::WorkerPipelinesUpdated { .. } => "WorkerPipelinesUpdated",
        ClusterCommand::GroupDeployed { .. } => "GroupDeployed",
        ClusterCommand::GroupUpdated { .. } => "GroupUpdated",
        ClusterCommand::GroupRemoved { .. } => "GroupRemoved",
        ClusterCommand::MigrationStarted { .. } => "MigrationStarted",
        ClusterCommand::MigrationUpdated { .. } => "MigrationUpdated",
        ClusterCommand::MigrationRemoved { .. } => "MigrationRemoved",
        ClusterCommand::ConnectorCreated { .. } => "ConnectorCreated",
        ClusterCommand::ConnectorUpdated { .. } => "ConnectorUpdated",
        ClusterCommand::ConnectorRemoved { .. } => "ConnectorRemoved",
        ClusterCommand::ScalingPolicySet { .. } => "ScalingPolicySet",
        ClusterCommand::ModelRegistered { .. } => "ModelRegistered",
        ClusterCommand::ModelRemoved { .. } => "ModelRemoved",
    }
}

/// which top-level component of the state differs (signature component)
fn diff_component(a: &J, b: &J) -> &'static str {
    for k in ["workers", "pipeline_groups", "connectors", "active_migrations", "scaling_policy", "models"] {
        if canon(a.get(k).unwrap_or(&J::Null)) != canon(b.get(k).unwrap_or(&J::Null)) {
            return match k {
                "workers" => "workers",
                "pipeline_groups" => "pipeline_groups",
                "connectors" => "connectors",
                "active_migrations" => "active_migrations",
                "scaling_policy" => "scaling_policy",
                _ => "models",
            };
        }
    }
    "other"
}

// ---------------------------------------------------------------------------------------------
// log generation
// ---------------------------------------------------------------------------------------------
fn gen_cmd(rng: &mut Rng, uid: &mut u64) -> ClusterCommand {
    *uid += 1;
    let u = *uid;
    let w = format!("w{}", rng.below(3));
    let g = format!("g{}", rng.below(3));
    let m = format!("m{}", rng.below(3));
    let c = format!("c{}", rng.below(3));
    let md = format!("md{}", rng.below(2));
    match rng.below(16) {
        0 => ClusterCommand::RegisterWorker { id: w, address: format!("http://h{}:9000", u), api_key: format!("k{}", u), capacity: WorkerCapacity { cpu_cores: 1 + rng.below(8), pipelines_running: rng.below(3), max_pipelines: 10 + rng.below(90) } },
        1 => ClusterCommand::DeregisterWorker { id: w },
        2 => ClusterCommand::WorkerStatusChanged { id: w, status: rng.pick(&["ready", "unhealthy", "draining"]).to_string() },
        3 => ClusterCommand::WorkerPipelinesUpdated { id: w, assigned_pipelines: (0..rng.below(3)).map(|i| format!("p{}-{}", u, i)).collect() },
        4 => ClusterCommand::GroupDeployed { name: g.clone(), group: json!({"id": g, "name": format!("grp{}", u), "status": "running", "z": u, "a": [1, {"b": u}]}) },
        5 => ClusterCommand::GroupUpdated { name: g.clone(), group: json!({"id": g, "name": format!("grp{}", u), "status": "partially_running", "placements": {"p": {"worker_id": format!("w{}", rng.below(3)), "epoch": u}}}) },
        6 => ClusterCommand::GroupRemoved { name: g },
        7 => {
            if rng.chance(1, 8) {
                // a task without a string id is ignored by the state machine
                ClusterCommand::MigrationStarted { task: json!({"id": u, "pipeline": "p"}) }
            } else {
                ClusterCommand::MigrationStarted { task: json!({"id": m, "pipeline": format!("p{}", u), "status": "checkpointing"}) }
            }
        }
        8 => ClusterCommand::MigrationUpdated { id: m, status: rng.pick(&["deploying", "completed", "failed"]).to_string() },
        9 => ClusterCommand::MigrationRemoved { id: m },
        10 | 11 => {
            let mut params = std::collections::HashMap::new();
            params.insert("host".to_string(), format!("h{}", u));
            if rng.chance(1, 2) {
                params.insert("port".to_string(), format!("{}", 1000 + rng.below(9000)));
            }
            let conn = ClusterConnector { name: c.clone(), connector_type: rng.pick(&["mqtt", "kafka"]).to_string(), params, description: if rng.chance(1, 2) { Some(format!("d{}", u)) } else { None } };
            if rng.chance(1, 2) {
                ClusterCommand::ConnectorCreated { name: c, connector: conn }
            } else {
                ClusterCommand::ConnectorUpdated { name: c, connector: conn }
            }
        }
        12 => ClusterCommand::ConnectorRemoved { name: c },
        13 => ClusterCommand::ScalingPolicySet { policy: if rng.chance(1, 4) { None } else { Some(json!({"min_workers": 1, "max_workers": 2 + rng.below(8), "scale_up_threshold": 5.5, "scale_down_threshold": 1.0, "cooldown_secs": u})) } },
        14 => ClusterCommand::ModelRegistered {
            name: md.clone(),
            entry: varpulis_cluster::model_registry::ModelRegistryEntry { name: md, s3_key: format!("s3/{}", u), format: "onnx".into(), inputs: vec!["x".into()], outputs: vec![format!("y{}", u)], size_bytes: u, uploaded_at: if rng.chance(1, 3) { String::new() } else { format!("2024-01-01T00:00:{:02}Z", u % 60) }, description: if rng.chance(1, 2) { String::new() } else { format!("m{}", u) } },
        },
        _ => ClusterCommand::ModelRemoved { name: format!("md{}", rng.below(2)) },
    }
}

fn lid(term: u64, index: u64) -> LogId<NodeId> {
    LogId::new(CommittedLeaderId::new(term, 0), index)
}

struct GLog {
    entries: Vec<Entry<TypeConfig>>,
    /// reference state after each entry (index i = after entries[..=i])
    ref_after: Vec<J>,
    /// expected (last_applied, last_membership) after each entry
    applied_after: Vec<(LogId<NodeId>, StoredMembership<NodeId, RaftNode>)>,
    has_overwrite_or_remove: bool,
}

fn key_of(c: &ClusterCommand) -> Option<(String, bool)> {
    // (key, is_remove)
    Some(match c {
        ClusterCommand::RegisterWorker { id, .. } => (format!("w:{id}"), false),
        ClusterCommand::DeregisterWorker { id } => (format!("w:{id}"), true),
        ClusterCommand::WorkerStatusChanged { id, .. } | ClusterCommand::WorkerPipelinesUpdated { id, .. } => (format!("w:{id}"), false),
        ClusterCommand::GroupDeployed { name, .. } | ClusterCommand::GroupUpdated { name, .. } => (format!("g:{name}"), false),
        ClusterCommand::GroupRemoved { name } => (format!("g:{name}"), true),
        ClusterCommand::MigrationStarted { task } => (format!("m:{}", task.get("id")?.as_str()?), false),
        ClusterCommand::MigrationUpdated { id, .. } => (format!("m:{id}"), false),
        ClusterCommand::MigrationRemoved { id } => (format!("m:{id}"), true),
        ClusterCommand::ConnectorCreated { name, .. } | ClusterCommand::ConnectorUpdated { name, .. } => (format!("c:{name}"), false),
        ClusterCommand::ConnectorRemoved { name } => (format!("c:{name}"), true),
        ClusterCommand::ScalingPolicySet { .. } => ("scaling".to_string(), false),
        ClusterCommand::ModelRegistered { name, .. } => (format!("md:{name}"), false),
        ClusterCommand::ModelRemoved { name } => (format!("md:{name}"), true),
    })
}

fn gen_log(rng: &mut Rng, max_len: usize) -> GLog {
    let n = 3 + rng.below(max_len - 2);
    let mut term = 1u64;
    let mut uid = 0u64;
    let mut entries = vec![];
    let mut rs = RefState::default();
    let mut ref_after = vec![];
    let mut applied_after = vec![];
    let mut mem: StoredMembership<NodeId, RaftNode> = StoredMembership::default();
    let mut live: BTreeSet<String> = BTreeSet::new();
    let mut has = false;
    for i in 0..n {
        if rng.chance(1, 10) {
            term += 1;
        }
        let id = lid(term, i as u64 + 1);
        let payload = match rng.below(20) {
            0 => EntryPayload::Blank,
            1 => {
                let mut set = BTreeSet::new();
                for k in 1..=(1 + rng.below(3)) as u64 {
                    set.insert(k);
                }
                let m = Membership::new(vec![set], None);
                mem = StoredMembership::new(Some(id), m.clone());
                EntryPayload::Membership(m)
            }
            _ => {
                let c = gen_cmd(rng, &mut uid);
                if let Some((k, is_rm)) = key_of(&c) {
                    if live.contains(&k) {
                        has = true;
                    }
                    if is_rm {
                        live.remove(&k);
                    } else if !matches!(c, ClusterCommand::WorkerStatusChanged { .. } | ClusterCommand::WorkerPipelinesUpdated { .. } | ClusterCommand::MigrationUpdated { .. }) {
                        live.insert(k);
                    }
                }
                rs.apply(&c);
                EntryPayload::Normal(c)
            }
        };
        entries.push(Entry { log_id: id, payload });
        ref_after.push(rs.json());
        applied_after.push((id, mem.clone()));
    }
    GLog { entries, ref_after, applied_after, has_overwrite_or_remove: has }
}

fn entry_json(e: &Entry<TypeConfig>) -> J {
    let payload = match &e.payload {
        EntryPayload::Blank => json!("blank"),
        EntryPayload::Normal(c) => serde_json::to_value(c).unwrap_or(J::Null),
        EntryPayload::Membership(m) => json!({"membership": serde_json::to_value(m).unwrap_or(J::Null)}),
    };
    json!({"term": e.log_id.leader_id.term, "index": e.log_id.index, "payload": payload})
}

fn log_json(l: &GLog) -> J {
    J::Array(l.entries.iter().map(entry_json).collect())
}

// ---------------------------------------------------------------------------------------------
// stores
// ---------------------------------------------------------------------------------------------
#[derive(Clone, Copy, PartialEq, Eq, Debug)]
enum Kind {
    Mem,
    Rocks,
}

impl Kind {
    fn name(self) -> &'static str {
        match self {
            Kind::Mem => "mem",
            Kind::Rocks => "rocks",
        }
    }
}

enum AnyStore {
    Mem(MemStore, SharedCoordinatorState),
    Rocks(RocksStore, SharedCoordinatorState, #[allow(dead_code)] tempfile::TempDir),
}

/// RocksDB directories: tmpfs when there is one (opening a store fsyncs several files), else the
/// default temp dir. Removed when the guard drops.
fn scratch_dir() -> std::io::Result<tempfile::TempDir> {
    if std::path::Path::new("/dev/shm").is_dir() {
        if let Ok(d) = tempfile::tempdir_in("/dev/shm") {
            return Ok(d);
        }
    }
    tempfile::tempdir()
}

static ROCKS_OPEN_US: std::sync::atomic::AtomicU64 = std::sync::atomic::AtomicU64::new(0);
static ROCKS_OPENS: std::sync::atomic::AtomicU64 = std::sync::atomic::AtomicU64::new(0);

fn io_err(e: StorageError<NodeId>) -> String {
    format!("{e}")
}

impl AnyStore {
    fn new(kind: Kind) -> Result<AnyStore, String> {
        match kind {
            Kind::Mem => {
                let (s, sh) = MemStore::with_shared_state();
                Ok(AnyStore::Mem(s, sh))
            }
            Kind::Rocks => {
                let dir = scratch_dir().map_err(|e| format!("tempdir: {e}"))?;
                let t0 = std::time::Instant::now();
                let (s, sh) = RocksStore::open_with_shared_state(dir.path().to_str().ok_or("non-utf8 tempdir")?)?;
                ROCKS_OPEN_US.fetch_add(t0.elapsed().as_micros() as u64, std::sync::atomic::Ordering::Relaxed);
                ROCKS_OPENS.fetch_add(1, std::sync::atomic::Ordering::Relaxed);
                Ok(AnyStore::Rocks(s, sh, dir))
            }
        }
    }
    fn state(&self) -> J {
        match self {
            AnyStore::Mem(_, sh) => shared_json(sh),
            AnyStore::Rocks(_, sh, _) => shared_json(sh),
        }
    }
    async fn apply(&mut self, es: &[Entry<TypeConfig>]) -> Result<usize, String> {
        match self {
            AnyStore::Mem(s, _) => s.apply_to_state_machine(es).await.map(|r| r.len()).map_err(io_err),
            AnyStore::Rocks(s, _, _) => s.apply_to_state_machine(es).await.map(|r| r.len()).map_err(io_err),
        }
    }
    async fn applied(&mut self) -> Result<(Option<LogId<NodeId>>, StoredMembership<NodeId, RaftNode>), String> {
        match self {
            AnyStore::Mem(s, _) => s.last_applied_state().await.map_err(io_err),
            AnyStore::Rocks(s, _, _) => s.last_applied_state().await.map_err(io_err),
        }
    }
    /// build a snapshot; returns (meta, bytes)
    async fn snapshot(&mut self) -> Result<(openraft::SnapshotMeta<NodeId, RaftNode>, Vec<u8>), String> {
        match self {
            AnyStore::Mem(s, _) => {
                let mut b = s.get_snapshot_builder().await;
                let snap = b.build_snapshot().await.map_err(io_err)?;
                Ok((snap.meta, snap.snapshot.into_inner()))
            }
            AnyStore::Rocks(s, _, _) => {
                let mut b = s.get_snapshot_builder().await;
                let snap = b.build_snapshot().await.map_err(io_err)?;
                Ok((snap.meta, snap.snapshot.into_inner()))
            }
        }
    }
    async fn install(&mut self, meta: &openraft::SnapshotMeta<NodeId, RaftNode>, bytes: Vec<u8>) -> Result<(), String> {
        match self {
            AnyStore::Mem(s, _) => {
                let mut b = s.begin_receiving_snapshot().await.map_err(io_err)?;
                *b = std::io::Cursor::new(bytes);
                s.install_snapshot(meta, b).await.map_err(io_err)
            }
            AnyStore::Rocks(s, _, _) => {
                let mut b = s.begin_receiving_snapshot().await.map_err(io_err)?;
                *b = std::io::Cursor::new(bytes);
                s.install_snapshot(meta, b).await.map_err(io_err)
            }
        }
    }
}

fn random_batching(rng: &mut Rng, n: usize) -> Vec<usize> {
    // cut points: batch sizes summing to n
    let mut sizes = vec![];
    let mut left = n;
    let mode = rng.below(4);
    while left > 0 {
        let s = match mode {
            0 => 1,
            1 => left,
            2 => 1 + rng.below(3),
            _ => 1 + rng.below(left),
        }
        .min(left);
        sizes.push(s);
        left -= s;
    }
    sizes
}

/// Lane (i): one batching of one log on one store; compares after every batch with the reference.
/// Returns the final state (canonical) or None when the case ended with a verdict/inconclusive.
fn lane_batching(rt: &tokio::runtime::Runtime, kind: Kind, log: &GLog, sizes: &[usize], out: &mut Partial) -> Option<String> {
    let mut st = match AnyStore::new(kind) {
        Ok(s) => s,
        Err(e) => {
            out.inconclusive(&format!("cannot create {} store: {e}", kind.name()));
            return None;
        }
    };
    out.eval();
    let mut pos = 0usize;
    for s in sizes {
        let batch = &log.entries[pos..pos + s];
        match rt.block_on(st.apply(batch)) {
            Ok(n) if n == batch.len() => {}
            Ok(n) => {
                out.violation(&format!("batching/{}/response-count", kind.name()), "apply_to_state_machine returned a wrong number of responses", json!({"log": log_json(log), "batch_sizes": sizes, "batch_len": batch.len(), "responses": n}));
                return None;
            }
            Err(e) => {
                out.violation(&format!("batching/{}/apply-error", kind.name()), "apply_to_state_machine failed on a committed log", json!({"log": log_json(log), "batch_sizes": sizes, "error": e}));
                return None;
            }
        }
        pos += s;
        let got = st.state();
        let want = &log.ref_after[pos - 1];
        out.add("state_comparisons", 1);
        if canon(&got) != canon(want) {
            // which command kinds touched the differing component last?
            let comp = diff_component(&got, want);
            let last_kind = log.entries[..pos]
                .iter()
                .rev()
                .find_map(|e| match &e.payload {
                    EntryPayload::Normal(c) if component_of(c) == comp => Some(cmd_kind(c)),
                    _ => None,
                })
                .unwrap_or("none");
            out.violation(
                &format!("semantics/{}/{}/{}", kind.name(), comp, last_kind),
                "state after applying a committed prefix differs from the reference fold of the commands",
                json!({"log": log_json(log), "batch_sizes": sizes, "applied_upto_index": pos, "expected_state": want, "observed_state": got}),
            );
            return None;
        }
        match rt.block_on(st.applied()) {
            Ok((la, mem)) => {
                let (wla, wmem) = &log.applied_after[pos - 1];
                if la != Some(*wla) || &mem != wmem {
                    out.violation(
                        &format!("batching/{}/last-applied-state", kind.name()),
                        "last_applied_state after a batch is not (last entry of the batch, last membership entry)",
                        json!({"log": log_json(log), "batch_sizes": sizes, "applied_upto_index": pos, "observed_last_applied": format!("{:?}", la), "observed_membership": format!("{:?}", mem)}),
                    );
                    return None;
                }
            }
            Err(e) => {
                out.inconclusive(&format!("last_applied_state failed: {e}"));
                return None;
            }
        }
    }
    Some(canon(&st.state()))
}

fn component_of(c: &ClusterCommand) -> &'static str {
    match c {
        ClusterCommand::RegisterWorker { .. } | ClusterCommand::DeregisterWorker { .. } | ClusterCommand::WorkerStatusChanged { .. } | ClusterCommand::WorkerPipelinesUpdated { .. } => "workers",
        ClusterCommand::GroupDeployed { .. } | ClusterCommand::GroupUpdated { .. } | ClusterCommand::GroupRemoved { .. } => "pipeline_groups",
        ClusterCommand::MigrationStarted { .. } | ClusterCommand::MigrationUpdated { .. } | ClusterCommand::MigrationRemoved { .. } => "active_migrations",
        ClusterCommand::ConnectorCreated { .. } | ClusterCommand::ConnectorUpdated { .. } | ClusterCommand::ConnectorRemoved { .. } => "connectors",
        ClusterCommand::ScalingPolicySet { .. } => "scaling_policy",
        ClusterCommand::ModelRegistered { .. } | ClusterCommand::ModelRemoved { .. } => "models",
    }
}

/// Lane (ii): snapshot at index i (1-based count of applied entries), install on a fresh store,
/// apply the rest, compare with the full replay.
fn lane_snapshot(rt: &tokio::runtime::Runtime, kind: Kind, log: &GLog, i: usize, rng: &mut Rng, full_replay: &str, out: &mut Partial) -> bool {
    let n = log.entries.len();
    let (mut a, mut b) = match (AnyStore::new(kind), AnyStore::new(kind)) {
        (Ok(a), Ok(b)) => (a, b),
        _ => {
            out.inconclusive(&format!("cannot create {} store", kind.name()));
            return false;
        }
    };
    out.eval();
    let sizes = random_batching(rng, i);
    let mut pos = 0;
    for s in &sizes {
        if let Err(e) = rt.block_on(a.apply(&log.entries[pos..pos + s])) {
            out.inconclusive(&format!("apply failed in snapshot lane: {e}"));
            return false;
        }
        pos += s;
    }
    let (meta, bytes) = match rt.block_on(a.snapshot()) {
        Ok(x) => x,
        Err(e) => {
            out.violation(&format!("snapshot/{}/build-error", kind.name()), "building a snapshot failed", json!({"log": log_json(log), "snapshot_index": i, "error": e}));
            return false;
        }
    };
    let (wla, wmem) = &log.applied_after[i - 1];
    if meta.last_log_id != Some(*wla) || &meta.last_membership != wmem {
        out.violation(
            &format!("snapshot/{}/meta", kind.name()),
            "snapshot meta is not (last applied log id, last applied membership)",
            json!({"log": log_json(log), "snapshot_index": i, "observed_meta": format!("{:?}", meta)}),
        );
        return false;
    }
    if let Err(e) = rt.block_on(b.install(&meta, bytes)) {
        out.violation(&format!("snapshot/{}/install-error", kind.name()), "installing a snapshot on a fresh store failed", json!({"log": log_json(log), "snapshot_index": i, "error": e}));
        return false;
    }
    // state right after install = reference at i
    let got_i = b.state();
    if canon(&got_i) != canon(&log.ref_after[i - 1]) {
        let comp = diff_component(&got_i, &log.ref_after[i - 1]);
        out.violation(
            &format!("snapshot/{}/installed-state/{}", kind.name(), comp),
            "state right after installing a snapshot differs from the state the snapshot was taken at",
            json!({"log": log_json(log), "snapshot_index": i, "expected_state": log.ref_after[i - 1], "observed_state": got_i}),
        );
        return false;
    }
    let rest = &log.entries[i..];
    let sizes2 = random_batching(rng, rest.len());
    let mut pos = 0;
    for s in &sizes2 {
        if let Err(e) = rt.block_on(b.apply(&rest[pos..pos + s])) {
            out.violation(&format!("snapshot/{}/apply-after-install-error", kind.name()), "applying the rest of the log after a snapshot install failed", json!({"log": log_json(log), "snapshot_index": i, "error": e}));
            return false;
        }
        pos += s;
    }
    let mut got = b.state();
    if perturb("snapshot-loses-models") {
        got["models"] = json!({});
    }
    out.add("state_comparisons", 1);
    if canon(&got) != full_replay {
        let comp = diff_component(&got, &log.ref_after[n - 1]);
        out.violation(
            &format!("snapshot/{}/final-state/{}", kind.name(), comp),
            "snapshot at index i + rest of the log does not yield the state of replaying the whole log",
            json!({"log": log_json(log), "snapshot_index": i, "expected_state": log.ref_after[n - 1], "observed_state": got}),
        );
        return false;
    }
    match rt.block_on(b.applied()) {
        Ok((la, mem)) => {
            let (wla, wmem) = &log.applied_after[n - 1];
            if la != Some(*wla) || &mem != wmem {
                out.violation(
                    &format!("snapshot/{}/last-applied-state", kind.name()),
                    "last_applied_state after snapshot install + rest differs from the full replay",
                    json!({"log": log_json(log), "snapshot_index": i, "observed_last_applied": format!("{:?}", la), "observed_membership": format!("{:?}", mem), "expected_last_applied": format!("{:?}", wla), "expected_membership": format!("{:?}", wmem)}),
                );
                return false;
            }
        }
        Err(e) => {
            out.inconclusive(&format!("last_applied_state failed: {e}"));
            return false;
        }
    }
    true
}

// ---------------------------------------------------------------------------------------------
// lane (iii): openraft conformance suite
// ---------------------------------------------------------------------------------------------
struct MemBuilder;
impl StoreBuilder<TypeConfig, Adaptor<TypeConfig, MemStore>, Adaptor<TypeConfig, MemStore>, ()> for MemBuilder {
    async fn build(&self) -> Result<((), Adaptor<TypeConfig, MemStore>, Adaptor<TypeConfig, MemStore>), StorageError<NodeId>> {
        let (l, s) = Adaptor::new(MemStore::new());
        Ok(((), l, s))
    }
}

struct RocksBuilder;
impl StoreBuilder<TypeConfig, Adaptor<TypeConfig, RocksStore>, Adaptor<TypeConfig, RocksStore>, tempfile::TempDir> for RocksBuilder {
    async fn build(&self) -> Result<(tempfile::TempDir, Adaptor<TypeConfig, RocksStore>, Adaptor<TypeConfig, RocksStore>), StorageError<NodeId>> {
        let dir = scratch_dir().map_err(|e| StorageError::IO { source: openraft::StorageIOError::write(&e) })?;
        let store = RocksStore::open(dir.path().to_str().unwrap_or("/nonexistent")).map_err(|e| StorageError::IO { source: openraft::StorageIOError::write(openraft::AnyError::error(e)) })?;
        let (l, s) = Adaptor::new(store);
        Ok((dir, l, s))
    }
}

/// outcome of one suite test: Ok, Err(storage error), or a panic (failed assertion)
enum SuiteOutcome {
    Pass,
    StorageErr(String),
    Assert(String, String),
}

fn run_suite_test<LS, SM, B, G, F, Fu>(builder: &B, f: F) -> SuiteOutcome
where
    LS: RaftLogStorage<TypeConfig>,
    SM: RaftStateMachine<TypeConfig>,
    B: StoreBuilder<TypeConfig, LS, SM, G>,
    G: Send + Sync,
    F: FnOnce(LS, SM) -> Fu,
    Fu: std::future::Future<Output = Result<(), StorageError<NodeId>>>,
{
    let r = catch(std::panic::AssertUnwindSafe(|| {
        let rt = tokio::runtime::Builder::new_current_thread().enable_all().build().expect("rt");
        rt.block_on(async {
            let (_g, ls, sm) = builder.build().await?;
            f(ls, sm).await
        })
    }));
    match r {
        Ok(Ok(())) => SuiteOutcome::Pass,
        Ok(Err(e)) => SuiteOutcome::StorageErr(format!("{e}")),
        Err(p) => SuiteOutcome::Assert(p, panic_site(&last_panic_location())),
    }
}

macro_rules! suite_tests {
    ($S:ty, $builder:expr, $kind:expr, $out:expr, [$($name:ident),* $(,)?]) => {{
        let mut handles: Vec<(&'static str, std::thread::JoinHandle<SuiteOutcome>)> = vec![];
        $(
            let b = $builder;
            handles.push((stringify!($name), std::thread::Builder::new().stack_size(16 << 20).spawn(move || {
                run_suite_test(&b, |ls, sm| <$S>::$name(ls, sm))
            }).expect("spawn")));
        )*
        let mut failed = 0usize;
        for (name, h) in handles {
            $out.eval();
            $out.add("suite_tests_run", 1);
            match h.join() {
                Ok(SuiteOutcome::Pass) => {}
                Ok(SuiteOutcome::StorageErr(e)) => {
                    failed += 1;
                    $out.violation(&format!("suite/{}/{}", $kind, name), "openraft storage conformance test returned a storage error", json!({"store": $kind, "suite_test": name, "error": e, "openraft": "0.9 testing::Suite"}));
                }
                Ok(SuiteOutcome::Assert(p, site)) => {
                    failed += 1;
                    $out.violation(&format!("suite/{}/{}", $kind, name), "openraft storage conformance test failed an assertion", json!({"store": $kind, "suite_test": name, "assertion": p, "site": site, "openraft": "0.9 testing::Suite"}));
                }
                Err(_) => {
                    $out.inconclusive(&format!("suite test thread {} died", name));
                }
            }
        }
        failed
    }};
}

macro_rules! all_suite_tests {
    ($S:ty, $builder:expr, $kind:expr, $out:expr) => {
        suite_tests!($S, $builder, $kind, $out, [
            last_membership_in_log_initial, last_membership_in_log, last_membership_in_log_multi_step, get_membership_initial,
            get_membership_from_log_and_empty_sm, get_membership_from_empty_log_and_sm, get_membership_from_log_le_sm_last_applied,
            get_membership_from_log_gt_sm_last_applied_1, get_membership_from_log_gt_sm_last_applied_2, get_initial_state_without_init,
            get_initial_state_membership_from_log_and_sm, get_initial_state_with_state, get_initial_state_last_log_gt_sm,
            get_initial_state_last_log_lt_sm, get_initial_state_log_ids, get_initial_state_re_apply_committed, save_vote, get_log_entries,
            limited_get_log_entries, try_get_log_entry, initial_logs, get_log_state, get_log_id, last_id_in_log, last_applied_state,
            purge_logs_upto_0, purge_logs_upto_5, purge_logs_upto_20, delete_logs_since_11, delete_logs_since_0, append_to_log, snapshot_meta,
            apply_single, apply_multiple
        ])
    };
}

type MemAd = Adaptor<TypeConfig, MemStore>;
type RocksAd = Adaptor<TypeConfig, RocksStore>;
type MemSuite = Suite<TypeConfig, MemAd, MemAd, MemBuilder, ()>;
type RocksSuite = Suite<TypeConfig, RocksAd, RocksAd, RocksBuilder, tempfile::TempDir>;

fn lane_suite(out: &mut Partial) {
    // every test of Suite::test_store on its own
    let mut failed = 0usize;
    failed += all_suite_tests!(MemSuite, MemBuilder, "mem", out);
    failed += all_suite_tests!(RocksSuite, RocksBuilder, "rocks", out);
    // transfer_snapshot takes the builder
    for kind in ["mem", "rocks"] {
        out.eval();
        out.add("suite_tests_run", 1);
        let r = catch(std::panic::AssertUnwindSafe(|| {
            let rt = tokio::runtime::Builder::new_current_thread().enable_all().build().expect("rt");
            if kind == "mem" {
                rt.block_on(MemSuite::transfer_snapshot(&MemBuilder))
            } else {
                rt.block_on(RocksSuite::transfer_snapshot(&RocksBuilder))
            }
        }));
        match r {
            Ok(Ok(())) => {}
            Ok(Err(e)) => {
                failed += 1;
                out.violation(&format!("suite/{}/transfer_snapshot", kind), "openraft storage conformance test returned a storage error", json!({"store": kind, "suite_test": "transfer_snapshot", "error": format!("{e}")}));
            }
            Err(p) => {
                failed += 1;
                out.violation(&format!("suite/{}/transfer_snapshot", kind), "openraft storage conformance test failed an assertion", json!({"store": kind, "suite_test": "transfer_snapshot", "assertion": p, "site": panic_site(&last_panic_location())}));
            }
        }
    }
    // the library's own entry point, as a cross-check that the list above is complete
    if failed == 0 {
        let hm = std::thread::spawn(|| catch(|| MemSuite::test_all(MemBuilder).map_err(|e| format!("{e}"))));
        let hr = std::thread::spawn(|| catch(|| RocksSuite::test_all(RocksBuilder).map_err(|e| format!("{e}"))));
        for (kind, h) in [("mem", hm), ("rocks", hr)] {
            out.eval();
            match h.join() {
                Ok(Ok(Ok(()))) => {}
                Ok(Ok(Err(e))) => out.violation(&format!("suite/{}/test_all", kind), "Suite::test_all returned a storage error", json!({"store": kind, "error": e})),
                Ok(Err(p)) => out.violation(&format!("suite/{}/test_all", kind), "Suite::test_all failed an assertion not covered by the individual tests", json!({"store": kind, "assertion": p})),
                Err(_) => out.inconclusive("test_all thread died"),
            }
        }
        out.add("suite_test_all_runs", 2);
    }
}

fn main() {
    let args = Args::parse();
    install_quiet_panic_hook();
    watchdog("C35", args.pick(900, 7200));
    if let Some(p) = args.opt("--perturb") {
        let _ = PERTURB.set(p);
    }
    let mut rep = Report::new("C35", "exploration", &args);
    rep.rule = "logs of 3-60 entries (terms non-decreasing; 90% commands uniformly over the 16 kinds with ids from {w0..2, g0..2, m0..2, c0..2, md0..1} so that overwrites, updates of missing keys and removals occur; 5% blank; 5% membership). Lane (i): 3 random batchings (all-singletons / one batch / small / arbitrary) per store kind, state compared with the reference after every batch and across batchings/stores at the end. Lane (ii): every snapshot index 1..n on MemStore, and a sample of indices (all in thorough) on RocksStore. Lane (iii): the 35 tests of openraft::testing::Suite::test_store, each on a fresh store. Non-trivial: a log with >=1 overwrite/removal of a key set earlier and >=3 entries (so that a snapshot index lies strictly inside); distinct by log.".into();
    rep.assume("reference fold: harness-side model of the 16 commands (insert/overwrite, update-if-present, remove, set) — independent of apply_command; its signatures are prefixed semantics/ so that they are distinguishable from batching/ and snapshot/ findings");
    rep.assume("state is observed through the SharedCoordinatorState published by the store (what the Coordinator reads)");
    let threads = ncpu();
    let seed = args.seed;

    // lane (iii) in its own thread, concurrently with the random lanes
    let suite_handle = std::thread::Builder::new()
        .stack_size(32 << 20)
        .spawn(|| {
            let mut out = Partial::default();
            let t0 = std::time::Instant::now();
            lane_suite(&mut out);
            out.add("ms_suite_lane", t0.elapsed().as_millis() as u64);
            out
        })
        .expect("spawn suite");

    // RocksStore::open costs ~0.25 s in this sandbox: in the quick tier only the first logs of a
    // thread also go through RocksStore, all of them through MemStore.
    let logs_per_thread = args.pick(24usize, 160usize);
    let rocks_logs_per_thread = args.pick(2usize, 16usize);
    let thorough = args.thorough();
    let parts = parallel(threads, seed, move |_ti, mut rng| {
        let mut out = Partial::default();
        let rt = tokio::runtime::Builder::new_current_thread().enable_all().build().expect("rt");
        let t_thread = std::time::Instant::now();
        for li in 0..logs_per_thread {
            let max_len = if li % 3 == 0 { 60 } else { 20 };
            let log = gen_log(&mut rng, max_len);
            let n = log.entries.len();
            out.add("logs", 1);
            out.add("entries", n as u64);
            if log.has_overwrite_or_remove && n >= 3 {
                out.nontrivial(&log_json(&log).to_string());
            }
            // lane (i)
            let mut finals: Vec<(Kind, Vec<usize>, String)> = vec![];
            let mut ok = true;
            let with_rocks = li < rocks_logs_per_thread;
            let kinds: &[Kind] = if with_rocks { &[Kind::Mem, Kind::Rocks] } else { &[Kind::Mem] };
            for kind in kinds.iter().copied() {
                let nb = if kind == Kind::Mem { 3 } else if thorough { 2 } else { 1 };
                for _ in 0..nb {
                    let sizes = random_batching(&mut rng, n);
                    let r = catch(std::panic::AssertUnwindSafe(|| lane_batching(&rt, kind, &log, &sizes, &mut out)));
                    match r {
                        Ok(Some(f)) => finals.push((kind, sizes, f)),
                        Ok(None) => {
                            ok = false;
                        }
                        Err(p) => {
                            ok = false;
                            out.violation(&format!("panic/{}/apply", kind.name()), "panic while applying a committed log", json!({"log": log_json(&log), "panic": p, "site": panic_site(&last_panic_location())}));
                        }
                    }
                }
            }
            if !ok {
                continue;
            }
            for w in finals.windows(2) {
                if w[0].2 != w[1].2 {
                    out.violation(
                        &format!("batching/{}-vs-{}/final-state", w[0].0.name(), w[1].0.name()),
                        "the same committed log applied in two batchings yields different states",
                        json!({"log": log_json(&log), "batching_a": w[0].1, "store_a": w[0].0.name(), "batching_b": w[1].1, "store_b": w[1].0.name()}),
                    );
                }
            }
            let full = finals[0].2.clone();
            if out.samples.is_empty() && log.has_overwrite_or_remove {
                out.sample(json!({"log": log_json(&log), "batchings": finals.iter().map(|f| json!({"store": f.0.name(), "sizes": f.1})).collect::<Vec<_>>(), "final_state": log.ref_after[n - 1]}));
            }
            // lane (ii)
            for i in 1..=n {
                let r = catch(std::panic::AssertUnwindSafe(|| lane_snapshot(&rt, Kind::Mem, &log, i, &mut rng, &full, &mut out)));
                match r {
                    Ok(true) => out.add("snapshot_indices_mem", 1),
                    Ok(false) => break,
                    Err(p) => {
                        out.violation("panic/mem/snapshot", "panic in the snapshot lane", json!({"log": log_json(&log), "snapshot_index": i, "panic": p, "site": panic_site(&last_panic_location())}));
                        break;
                    }
                }
            }
            let rocks_indices: Vec<usize> = if !with_rocks {
                vec![]
            } else if thorough {
                (1..=n).collect()
            } else {
                let mut v = vec![1 + rng.below(n), n / 2, n - 1];
                v.retain(|i| *i >= 1);
                v.sort();
                v.dedup();
                v
            };
            for i in rocks_indices {
                let r = catch(std::panic::AssertUnwindSafe(|| lane_snapshot(&rt, Kind::Rocks, &log, i, &mut rng, &full, &mut out)));
                match r {
                    Ok(true) => out.add("snapshot_indices_rocks", 1),
                    Ok(false) => break,
                    Err(p) => {
                        out.violation("panic/rocks/snapshot", "panic in the snapshot lane", json!({"log": log_json(&log), "snapshot_index": i, "panic": p, "site": panic_site(&last_panic_location())}));
                        break;
                    }
                }
            }
        }
        out.add("ms_random_lanes_thread_sum", t_thread.elapsed().as_millis() as u64);
        out
    });
    for p in parts {
        rep.merge(p);
    }
    rep.add("rocks_stores_opened", ROCKS_OPENS.load(std::sync::atomic::Ordering::Relaxed));
    rep.add("ms_rocks_open_sum", ROCKS_OPEN_US.load(std::sync::atomic::Ordering::Relaxed) / 1000);
    match suite_handle.join() {
        Ok(p) => rep.merge(p),
        Err(_) => rep.inconclusive("conformance suite thread died"),
    }
    std::process::exit(rep.finish());
}
