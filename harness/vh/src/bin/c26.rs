//! C26 — splitting a program across execution contexts does not change its output.
//! Monitor: real ContextOrchestrator (OS threads) with hook H7 (trace + seeded perturbation at
//! real suspension points), small channel capacities, many repetitions. Offline trace check:
//! every event forwarded across contexts is received exactly once and in production order;
//! output clause against the same program on the plain engine.
#[path = "../ctxrun.rs"]
mod ctxrun;
use ctxrun::*;
use serde_json::json;
use std::collections::BTreeMap;
use vh::*;

/// The outputs differ from the plain engine's although the trace shows no cross-context loss at all. Used only to
/// decide whether to run the same case again with a longer quiescence window (a context thread that was not
/// scheduled for a while looks exactly like this); the verdict is taken on the last run.
fn unexplained_output_difference(p: &CProg, events: &[varpulis_runtime::event::Event], out: &RunOut) -> bool {
    if out.trace.iter().any(|t| t.kind == "dropped") {
        return false;
    }
    let Ok(plain) = run_plain(p, events) else { return false };
    let mut a: Vec<String> = plain.iter().map(canon).collect();
    let mut b: Vec<String> = out.outputs.iter().map(canon).collect();
    a.sort();
    b.sort();
    a != b
}

/// Some forward to another context has neither a matching receive nor a recorded drop.
fn undelivered_without_drop(out: &RunOut) -> bool {
    let mut got: std::collections::BTreeSet<(String, String, i64)> = Default::default();
    let mut gone: std::collections::BTreeSet<(String, String, i64)> = Default::default();
    for t in &out.trace {
        match t.kind {
            "recv" => {
                got.insert((t.ctx.clone(), t.event_type.clone(), t.id));
            }
            "dropped" => {
                gone.insert((t.target.clone(), t.event_type.clone(), t.id));
            }
            _ => {}
        }
    }
    out.trace.iter().any(|t| t.kind == "forward" && t.ctx != t.target && !got.contains(&(t.target.clone(), t.event_type.clone(), t.id)) && !gone.contains(&(t.target.clone(), t.event_type.clone(), t.id)))
}

fn main() {
    let args = Args::parse();
    install_quiet_panic_hook();
    watchdog("C26", args.pick(1500, 14400));
    let mut rep = Report::new("C26", "exploration", &args);
    rep.rule = "programs with 2-3 contexts and 1-2 chains of 2-3 streams using the documented cross-context form (.context(a) .. .emit(context: b, ..) feeding a derived stream in b; one producer in three uses a plain emit instead, so that the event must reach the other context through the orchestrator's routing table), pass-through, count-window or aliased-sequence (`S as a -> S as b`) consumers with uid fingerprints; 30-300 input events; channel capacity from {1,2,4,16,1000}; hook H7 injects seeded yields/sleeps at recv / forward / barrier. Non-trivial: run with >=20 cross-context events and >=1 forward whose try_send failed; distinct by hash of the recorded order of (context, kind) trace entries (= distinct interleavings actually seen).".into();
    rep.assume("a forwarded event that is never received counts as lost when hook H7 recorded that its try_send failed (the drop mechanism); an enqueued event that is still not received after the run was repeated with quiescence windows of 1 s and 4 s is inconclusive");
    rep.assume("H7 is process-global: runs are serialised; the context threads themselves run truly in parallel");
    #[cfg(not(varpulis_verif))]
    rep.inconclusive("built without --cfg varpulis_verif");
    let runs = args.pick(200usize, 1500usize);
    let mut rng = Rng::new(args.seed ^ 0xC26);
    let mut interleavings = std::collections::BTreeSet::new();
    let mut full_queue_episodes = 0u64;
    let mut cross_events = 0u64;
    let budget = std::time::Instant::now();
    let max_secs = args.pick(240u64, 3000u64);
    for run in 0..runs {
        if budget.elapsed().as_secs() > max_secs {
            rep.set("stopped_early_after_runs", json!(run));
            break;
        }
        let p = gen_cprog(&mut rng);
        for st in &p.streams {
            if st.seq {
                rep.add("aliased_sequence_consumers", 1);
                if p.streams.iter().any(|q| q.name == st.src && q.ctx != st.ctx) {
                    rep.add("aliased_sequence_consumers_in_another_context", 1);
                }
            }
            if st.implicit && st.emit_to.map_or(false, |t| t != st.ctx) {
                rep.add("producers_relying_on_the_routing_table", 1);
            }
        }
        let n = 30 + rng.below(args.pick(120, 270));
        let events = gen_events(&mut rng, n);
        let cfg = RunCfg {
            capacity: *rng.pick(&[1usize, 1, 2, 4, 16, 1000, 1000]),
            perturb_permille: *rng.pick(&[0u64, 50, 200, 500]),
            perturb_max_us: *rng.pick(&[1u64, 20, 200]),
            seed: rng.next_u64(),
            checkpoints_at: vec![],
            stable_ms: 120,
            drain_every: 1,
        };
        rep.eval();
        let mut cfg = cfg;
        let mut out = run_contexts(&p, &events, &cfg);
        // an event that was enqueued (no recorded drop) but not yet received when the trace went quiet means the
        // machine was too busy for the quiescence window: run again with a longer one instead of judging
        for longer in [1000u64, 4000] {
            if out.build_error.is_some() || (out.quiesced && !undelivered_without_drop(&out) && !unexplained_output_difference(&p, &events, &out)) {
                break;
            }
            rep.add("reruns_with_longer_quiescence_window", 1);
            cfg.stable_ms = longer;
            out = run_contexts(&p, &events, &cfg);
        }
        if let Some(e) = &out.build_error {
            rep.add("programs_rejected", 1);
            if rep.samples.len() < 2 {
                rep.sample(json!({"rejected": p.vpl(true), "error": e}));
            }
            continue;
        }
        let wit = |extra: serde_json::Value| json!({"program": p.vpl(true), "events": events.len(), "capacity": cfg.capacity, "perturb_permille": cfg.perturb_permille, "perturb_max_us": cfg.perturb_max_us, "seed": cfg.seed, "detail": extra});
        // ---- (i) exactly-once, in order, per (producer ctx -> consumer ctx, stream type) ----
        let mut fwd: BTreeMap<(String, String, String), Vec<(i64, usize)>> = BTreeMap::new(); // (from,to,type) -> [(uid, capacity)]
        let mut rcv: BTreeMap<(String, String), Vec<i64>> = BTreeMap::new(); // (ctx,type) -> uids
        let mut dropped: std::collections::BTreeSet<(String, String, String, i64)> = Default::default(); // try_send failed
        let mut order_hash = vec![];
        for t in &out.trace {
            order_hash.push((t.ctx.clone(), t.kind));
            match t.kind {
                "forward" => fwd.entry((t.ctx.clone(), t.target.clone(), t.event_type.clone())).or_default().push((t.id, t.target_capacity)),
                "recv" => rcv.entry((t.ctx.clone(), t.event_type.clone())).or_default().push(t.id),
                "dropped" => {
                    dropped.insert((t.ctx.clone(), t.target.clone(), t.event_type.clone(), t.id));
                }
                _ => {}
            }
        }
        interleavings.insert(hash64(&order_hash));
        let mut run_cross = 0u64;
        let mut run_full = 0u64;
        for ((from, to, ty), sent) in &fwd {
            if from == to {
                continue; // intra-context forward: judged by the output clause
            }
            run_cross += sent.len() as u64;
            run_full += sent.iter().filter(|(u, _)| dropped.contains(&(from.clone(), to.clone(), ty.clone(), *u))).count() as u64;
            let got = rcv.get(&(to.clone(), ty.clone())).cloned().unwrap_or_default();
            let sent_uids: Vec<i64> = sent.iter().map(|(u, _)| *u).collect();
            // duplicates
            let mut seen = std::collections::BTreeSet::new();
            if got.iter().any(|u| !seen.insert(*u)) {
                rep.violation("cross-context/delivered-twice", "an event forwarded to another context was received more than once", wit(json!({"from": from, "to": to, "type": ty, "received": got})));
            }
            // order of what was received
            let pos: BTreeMap<i64, usize> = sent_uids.iter().enumerate().map(|(i, u)| (*u, i)).collect();
            let got_pos: Vec<usize> = got.iter().filter_map(|u| pos.get(u).copied()).collect();
            if got_pos.windows(2).any(|w| w[0] > w[1]) {
                rep.violation("cross-context/reordered", "events were received in a different order than they were produced", wit(json!({"from": from, "to": to, "type": ty, "sent": sent_uids, "received": got})));
            }
            // losses
            let missing: Vec<(i64, usize)> = sent.iter().filter(|(u, _)| !got.contains(u)).cloned().collect();
            if !missing.is_empty() {
                let was_dropped = |u: i64| dropped.contains(&(from.clone(), to.clone(), ty.clone(), u));
                if missing.iter().any(|(u, _)| was_dropped(*u)) {
                    rep.violation(
                        "cross-context/lost-on-full-queue",
                        "an event forwarded to another context was never received; its try_send into the target context's full queue failed and the result is ignored",
                        wit(json!({"from": from, "to": to, "type": ty, "sent": sent.len(), "received": got.len(), "missing_uids_with_observed_capacity": missing.iter().take(10).collect::<Vec<_>>()})),
                    );
                }
                if missing.iter().any(|(u, _)| !was_dropped(*u)) {
                    if out.quiesced {
                        rep.inconclusive("events enqueued for another context (no recorded drop) were not received although the trace stayed quiet for 4 s");
                    } else {
                        rep.inconclusive("run did not quiesce within its bound");
                    }
                }
            }
        }
        // ---- (i') every output of a stream whose consumer lives in another context is forwarded there ----
        if out.quiesced {
            for st in &p.streams {
                let Some(prod) = p.streams.iter().find(|q| q.name == st.src && q.ctx != st.ctx) else { continue };
                let produced: Vec<i64> = out.outputs.iter().filter(|e| &*e.event_type == prod.name.as_str()).filter_map(|e| e.get_int("uid")).collect();
                let key = (format!("c{}", prod.ctx), format!("c{}", st.ctx), prod.name.clone());
                let forwarded: std::collections::BTreeSet<i64> = fwd.get(&key).map(|v| v.iter().map(|(u, _)| *u).collect()).unwrap_or_default();
                let never: Vec<i64> = produced.iter().filter(|u| !forwarded.contains(u)).copied().collect();
                rep.add("producer_outputs_checked_for_forwarding", produced.len() as u64);
                if !never.is_empty() {
                    rep.violation(
                        &format!("cross-context/not-forwarded/{}-consumer/{}-emit", if st.seq { "aliased-sequence" } else if st.window.is_some() { "window" } else { "pass-through" }, if prod.implicit { "plain" } else { "targeted" }),
                        "a stream's output events were never forwarded to the context in which its consumer runs",
                        wit(json!({"producer": prod.name, "consumer": st.name, "from": key.0, "to": key.1, "produced": produced.len(), "forwarded": forwarded.len(), "first_not_forwarded_uids": never.iter().take(10).collect::<Vec<_>>()})),
                    );
                }
            }
        }
        cross_events += run_cross;
        full_queue_episodes += run_full;
        if run_cross >= 20 && run_full >= 1 {
            rep.nontrivial(&order_hash);
        }
        // ---- (ii) output clause vs the plain engine (all generated programs are single-producer) ----
        // streams whose input edge recorded a loss, and everything downstream of them
        let mut lossy: std::collections::BTreeSet<String> = Default::default();
        for ((f, t, ty), sent) in &fwd {
            if f != t && sent.iter().any(|(u, _)| !rcv.get(&(t.clone(), ty.clone())).map(|g| g.contains(u)).unwrap_or(false)) {
                for st in p.streams.iter().filter(|st| &st.src == ty) {
                    lossy.insert(st.name.clone());
                }
            }
        }
        loop {
            let more: Vec<String> = p.streams.iter().filter(|st| lossy.contains(&st.src) && !lossy.contains(&st.name)).map(|st| st.name.clone()).collect();
            if more.is_empty() {
                break;
            }
            lossy.extend(more);
        }
        match run_plain(&p, &events) {
            Ok(plain) => {
                let mut a: BTreeMap<String, Vec<String>> = BTreeMap::new();
                let mut b: BTreeMap<String, Vec<String>> = BTreeMap::new();
                for e in &plain {
                    a.entry(e.event_type.to_string()).or_default().push(canon(e));
                }
                for e in &out.outputs {
                    b.entry(e.event_type.to_string()).or_default().push(canon(e));
                }
                rep.add("outputs_compared", out.outputs.len() as u64);
                // a difference is explained by a recorded loss only for streams downstream of the lossy edge
                let differing: Vec<String> = a.keys().chain(b.keys()).filter(|k| a.get(*k) != b.get(*k)).cloned().collect::<std::collections::BTreeSet<_>>().into_iter().collect();
                let unexplained: Vec<String> = differing.iter().filter(|k| !lossy.contains(*k)).cloned().collect();
                if !differing.is_empty() && unexplained.is_empty() {
                    rep.add("output_differences_explained_by_recorded_loss", 1);
                }
                if !unexplained.is_empty() {
                    if !out.quiesced {
                        rep.inconclusive("outputs differ but the run did not quiesce");
                    } else {
                        let bad = unexplained[0].clone();
                        let (x, y) = (a.get(&bad).cloned().unwrap_or_default(), b.get(&bad).cloned().unwrap_or_default());
                        let how = if y.len() < x.len() { "fewer" } else if y.len() > x.len() { "more" } else { "different-or-reordered" };
                        let st = p.streams.iter().find(|s| s.name == bad);
                        let kind = match st { Some(s) if s.seq => "aliased-sequence", Some(s) if s.window.is_some() => "window", Some(_) => "pass-through", None => "unknown" };
                        let pos = match st { Some(s) if p.streams.iter().any(|q| q.name == s.src && q.ctx != s.ctx) => "cross-context-consumer", Some(s) if p.streams.iter().any(|q| q.name == s.src) => "same-context-consumer", _ => "base-consumer" };
                        rep.violation(&format!("output/{}/{}/{}", how, kind, pos), "outputs with contexts differ from the same program without contexts although no cross-context loss was recorded", wit(json!({"stream": bad, "without_contexts": x.len(), "with_contexts": y.len(), "first_without": x.iter().take(5).collect::<Vec<_>>(), "first_with": y.iter().take(5).collect::<Vec<_>>() })));
                    }
                }
            }
            Err(e) => rep.inconclusive(&format!("plain engine rejected the context-free program: {}", e)),
        }
        if rep.samples.len() < 2 {
            rep.sample(json!({"program": p.vpl(true), "events": events.len(), "capacity": cfg.capacity, "trace_entries": out.trace.len(), "cross_context_events": run_cross, "forwards_dropped_on_full_queue": run_full}));
        }
    }
    rep.set("distinct_interleavings_seen", json!(interleavings.len()));
    rep.set("forwards_dropped_on_full_queue", json!(full_queue_episodes));
    rep.set("cross_context_events", json!(cross_events));
    std::process::exit(rep.finish());
}
