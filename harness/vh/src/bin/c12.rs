//! C12 — tumbling, count and session windows partition their input exactly.
//!
//! Monitor (conservation + shape, own bookkeeping; no window logic is re-implemented):
//!   * direct lane: the real `TumblingWindow`, `CountWindow`, `SessionWindow`,
//!     `PartitionedTumblingWindow`, `PartitionedSessionWindow` driven through their public API with
//!     interleaved add / add_shared, advance_watermark, flush / flush_shared / flush_columnar;
//!   * engine lane: `.window(..)` programs (also `.partition_by(k).window(n)`, which only exists in
//!     the engine) through parse -> load -> process (+ external watermarks); each emission is decoded
//!     from count / sum(bit) / sum(uid) / first(uid) / last(uid), which give the exact emitted set;
//!     what is still buffered is read from `Engine::create_checkpoint()`.
//! Conservation (all streams, arbitrary watermarks): every arrived uid is in exactly one emission
//! or in the final buffer, never twice, never before it arrived, each window in arrival order.
//! Shape: a count window closed by an arrival has exactly `size` events; for in-order timestamps
//! and watermarks consistent with the stream (never above the largest timestamp seen) every
//! tumbling window holds only events with ts < ts_first + duration and every session window has
//! consecutive gaps <= gap.
use serde_json::{json, Value as J};
use std::collections::{BTreeMap, BTreeSet};
use std::sync::Arc;
use varpulis_runtime::event::{Event, SharedEvent};
use varpulis_runtime::window::{CountWindow, PartitionedSessionWindow, PartitionedTumblingWindow, SessionWindow, TumblingWindow};
use vh::eng::*;
use vh::*;

#[path = "../winjoin.rs"]
mod winjoin;
use winjoin::*;

#[derive(Clone, Copy, Debug, PartialEq, Eq, Hash)]
enum Kind {
    Tumbling,
    Count,
    Session,
    PTumbling,
    PCount,
    PSession,
}

impl Kind {
    const ALL: [Kind; 6] = [Kind::Tumbling, Kind::Count, Kind::Session, Kind::PTumbling, Kind::PCount, Kind::PSession];
    fn name(self) -> &'static str {
        match self {
            Kind::Tumbling => "tumbling",
            Kind::Count => "count",
            Kind::Session => "session",
            Kind::PTumbling => "p-tumbling",
            Kind::PCount => "p-count",
            Kind::PSession => "p-session",
        }
    }
    fn from_name(s: &str) -> Option<Kind> {
        Kind::ALL.into_iter().find(|k| k.name() == s)
    }
    fn partitioned(self) -> bool {
        matches!(self, Kind::PTumbling | Kind::PCount | Kind::PSession)
    }
    fn is_count(self) -> bool {
        matches!(self, Kind::Count | Kind::PCount)
    }
    fn is_tumbling(self) -> bool {
        matches!(self, Kind::Tumbling | Kind::PTumbling)
    }
    fn is_session(self) -> bool {
        matches!(self, Kind::Session | Kind::PSession)
    }
}

#[derive(Clone, Debug, Hash)]
enum Op {
    /// api: 0 = add_shared, 1 = add (owned)
    Add(GEv, u8),
    Wm(i64),
    /// 0 = flush_shared, 1 = flush, 2 = flush_columnar (plain windows only)
    Flush(u8),
}

#[derive(Clone, Debug, Hash)]
struct Case {
    kind: Kind,
    engine: bool,
    /// duration / gap in ms, or count
    size: i64,
    ops: Vec<Op>,
}

impl Case {
    fn lane(&self) -> &'static str {
        if self.engine { "engine" } else { "direct" }
    }
    fn program(&self) -> String {
        let mut s = String::from("stream S = T\n");
        if self.kind.partitioned() {
            s.push_str("    .partition_by(k)\n");
        }
        if self.kind.is_count() {
            s.push_str(&format!("    .window({})\n", self.size));
        } else if self.kind.is_session() {
            s.push_str(&format!("    .window(session: {}ms)\n", self.size));
        } else {
            s.push_str(&format!("    .window({}ms)\n", self.size));
        }
        s.push_str(FP_TAIL);
        s
    }
    fn adds(&self) -> impl Iterator<Item = &GEv> {
        self.ops.iter().filter_map(|o| if let Op::Add(g, _) = o { Some(g) } else { None })
    }
    fn timestamps_in_order(&self) -> bool {
        in_order(self.adds().map(|g| g.ts))
    }
    /// every watermark is <= the largest timestamp added before it
    fn watermarks_consistent(&self) -> bool {
        let mut max_seen: Option<i64> = None;
        for o in &self.ops {
            match o {
                Op::Add(g, _) => max_seen = Some(max_seen.map_or(g.ts, |m| m.max(g.ts))),
                Op::Wm(w) => {
                    if max_seen.map_or(true, |m| *w > m) {
                        return false;
                    }
                }
                Op::Flush(_) => {}
            }
        }
        true
    }
    fn json(&self) -> J {
        let ops: Vec<J> = self
            .ops
            .iter()
            .map(|o| match o {
                Op::Add(g, api) => {
                    let mut j = g.json();
                    j["op"] = json!(if self.engine { "process" } else if *api == 0 { "add_shared" } else { "add" });
                    j
                }
                Op::Wm(t) => json!({"op": if self.engine { "advance_external_watermark" } else { "advance_watermark" }, "ts_ms": t}),
                Op::Flush(v) => {
                    let name = ["flush_shared", "flush", "flush_columnar"][*v as usize];
                    json!({ "op": name })
                }
            })
            .collect();
        json!({"kind": self.kind.name(), "lane": self.lane(), "size": self.size,
               "unit": if self.kind.is_count() { "events" } else { "ms" },
               "program": if self.engine { J::String(self.program()) } else { J::Null },
               "ops": ops, "then": if self.engine { "create_checkpoint() to read the buffered events" } else { "flush_shared() twice" }})
    }
    fn from_json(j: &J) -> Option<Case> {
        let mut ops = vec![];
        for o in j["ops"].as_array()? {
            ops.push(match o["op"].as_str()? {
                "add_shared" | "process" => Op::Add(GEv::from_json(o)?, 0),
                "add" => Op::Add(GEv::from_json(o)?, 1),
                "advance_watermark" | "advance_external_watermark" => Op::Wm(o["ts_ms"].as_i64()?),
                "flush_shared" => Op::Flush(0),
                "flush" => Op::Flush(1),
                "flush_columnar" => Op::Flush(2),
                _ => return None,
            });
        }
        Some(Case { kind: Kind::from_name(j["kind"].as_str()?)?, engine: j["lane"].as_str()? == "engine", size: j["size"].as_i64()?, ops })
    }
}

/// One observed window: a closed emission, a flush result, or buffered content.
#[derive(Clone, Debug)]
struct Em {
    op_idx: usize,
    trigger: &'static str,
    /// uids; direct lane: in emitted order; engine lane: the exact set, ascending (= arrival order)
    uids: Vec<i64>,
    /// engine lane: first(uid) / last(uid) as reported
    ends: Option<(Option<i64>, Option<i64>)>,
}

fn uids_shared(v: &[SharedEvent]) -> Result<Vec<i64>, String> {
    v.iter().map(|e| uid_of(e).ok_or_else(|| "emitted event without uid".to_string())).collect()
}
fn uids_owned(v: &[Event]) -> Result<Vec<i64>, String> {
    v.iter().map(|e| uid_of(e).ok_or_else(|| "emitted event without uid".to_string())).collect()
}

fn run_direct(c: &Case) -> Result<Vec<Em>, String> {
    enum W {
        T(TumblingWindow),
        C(CountWindow),
        S(SessionWindow),
        PT(PartitionedTumblingWindow),
        PS(PartitionedSessionWindow),
    }
    let d = chrono::Duration::milliseconds(c.size);
    let mut w = match c.kind {
        Kind::Tumbling => W::T(TumblingWindow::new(d)),
        Kind::Count => W::C(CountWindow::new(c.size as usize)),
        Kind::Session => W::S(SessionWindow::new(d)),
        Kind::PTumbling => W::PT(PartitionedTumblingWindow::new("k".to_string(), d)),
        Kind::PSession => W::PS(PartitionedSessionWindow::new("k".to_string(), d)),
        Kind::PCount => return Err("partitioned count window has no public direct API".into()),
    };
    let mut ems = vec![];
    let flush_shared = |w: &mut W| -> Vec<SharedEvent> {
        match w {
            W::T(w) => w.flush_shared(),
            W::C(w) => w.flush_shared(),
            W::S(w) => w.flush_shared(),
            W::PT(w) => w.flush_shared(),
            W::PS(w) => w.flush_shared(),
        }
    };
    for (i, op) in c.ops.iter().enumerate() {
        match op {
            Op::Add(g, api) => {
                let e = g.event();
                let r: Option<Vec<i64>> = if *api == 0 {
                    let e = Arc::new(e);
                    match &mut w {
                        W::T(w) => w.add_shared(e),
                        W::C(w) => w.add_shared(e),
                        W::S(w) => w.add_shared(e),
                        W::PT(w) => w.add_shared(e),
                        W::PS(w) => w.add_shared(e),
                    }
                    .map(|v| uids_shared(&v))
                    .transpose()?
                } else {
                    match &mut w {
                        W::T(w) => w.add(e),
                        W::C(w) => w.add(e),
                        W::S(w) => w.add(e),
                        W::PT(w) => w.add(e),
                        W::PS(w) => w.add(e),
                    }
                    .map(|v| uids_owned(&v))
                    .transpose()?
                };
                if let Some(u) = r {
                    ems.push(Em { op_idx: i, trigger: "add", uids: u, ends: None });
                }
            }
            Op::Wm(t) => {
                let t = ts_ms(*t);
                let rs: Vec<Vec<SharedEvent>> = match &mut w {
                    W::T(w) => w.advance_watermark(t).into_iter().collect(),
                    W::C(_) => vec![],
                    W::S(w) => w.advance_watermark(t).into_iter().collect(),
                    W::PT(w) => w.advance_watermark(t).into_iter().map(|(_, v)| v).collect(),
                    W::PS(w) => w.advance_watermark(t).into_iter().map(|(_, v)| v).collect(),
                };
                for v in rs {
                    ems.push(Em { op_idx: i, trigger: "watermark", uids: uids_shared(&v)?, ends: None });
                }
            }
            Op::Flush(variant) => {
                let u = match (variant, &mut w) {
                    (1, W::T(w)) => uids_owned(&w.flush())?,
                    (1, W::C(w)) => uids_owned(&w.flush())?,
                    (1, W::S(w)) => uids_owned(&w.flush())?,
                    (1, W::PT(w)) => uids_owned(&w.flush())?,
                    (1, W::PS(w)) => uids_owned(&w.flush())?,
                    (2, W::T(w)) => uids_shared(w.flush_columnar().events())?,
                    (2, W::C(w)) => uids_shared(w.flush_columnar().events())?,
                    (2, W::S(w)) => uids_shared(w.flush_columnar().events())?,
                    (_, w) => uids_shared(&flush_shared(w))?,
                };
                ems.push(Em { op_idx: i, trigger: "flush", uids: u, ends: None });
            }
        }
    }
    let n = c.ops.len();
    ems.push(Em { op_idx: n, trigger: "final-flush", uids: uids_shared(&flush_shared(&mut w))?, ends: None });
    ems.push(Em { op_idx: n, trigger: "flush-after-flush", uids: uids_shared(&flush_shared(&mut w))?, ends: None });
    Ok(ems)
}

enum EngErr {
    Harness(String),
    Undecodable(usize, &'static str, String),
}

fn run_engine(c: &Case, rt: &tokio::runtime::Runtime) -> Result<Vec<Em>, EngErr> {
    let mut l = load(&c.program()).map_err(EngErr::Harness)?;
    let has_wm = c.ops.iter().any(|o| matches!(o, Op::Wm(_)));
    if has_wm {
        l.engine.enable_watermark_tracking();
        l.engine.register_watermark_source("ext", chrono::Duration::zero());
    }
    let mut ems = vec![];
    for (i, op) in c.ops.iter().enumerate() {
        let trigger = match op {
            Op::Add(g, _) => {
                rt.block_on(l.engine.process(g.event())).map_err(|e| EngErr::Harness(format!("process: {}", e)))?;
                "add"
            }
            Op::Wm(t) => {
                rt.block_on(l.engine.advance_external_watermark("ext", ts_ms(*t).timestamp_millis())).map_err(|e| EngErr::Harness(format!("watermark: {}", e)))?;
                "watermark"
            }
            Op::Flush(_) => continue,
        };
        for o in l.drain() {
            if &*o.event_type != "S" {
                continue;
            }
            let fp = decode_fp(&o).map_err(|e| match e {
                FpErr::Inconsistent(e) => EngErr::Undecodable(i, trigger, e),
                FpErr::Malformed(e) => EngErr::Harness(format!("unreadable engine emission: {}", e)),
            })?;
            ems.push(Em { op_idx: i, trigger, uids: fp.set, ends: Some((fp.first, fp.last)) });
        }
    }
    let cp = l.engine.create_checkpoint();
    if let Some(w) = cp.window_states.get("S") {
        for g in checkpoint_groups(w).map_err(EngErr::Harness)? {
            ems.push(Em { op_idx: c.ops.len(), trigger: "buffered", uids: g, ends: None });
        }
    }
    Ok(ems)
}

fn ems_json(ems: &[Em]) -> J {
    J::Array(ems.iter().filter(|e| !(e.uids.is_empty() && e.trigger != "add")).map(|e| json!({"after_op_index": e.op_idx, "by": e.trigger, "uids": e.uids, "first_last": e.ends.map(|(a, b)| json!([a, b]))})).collect())
}

fn check_case(c: &Case, rt: &tokio::runtime::Runtime, out: &mut Partial) {
    out.eval();
    let sig = |clause: &str| format!("{}/{}/{}", c.kind.name(), c.lane(), clause);
    let run = catch(std::panic::AssertUnwindSafe(|| if c.engine { run_engine(c, rt) } else { run_direct(c).map_err(EngErr::Harness) }));
    let ems = match run {
        Ok(Ok(e)) => e,
        Ok(Err(EngErr::Harness(e))) => {
            out.inconclusive(&format!("harness could not drive a generated case ({}): {}", c.kind.name(), e));
            return;
        }
        Ok(Err(EngErr::Undecodable(i, trigger, e))) => {
            out.violation(&sig(&format!("conservation/duplicate-within-emission/on-{}", trigger)), "emission is not a set of distinct arrived events (count differs from the number of distinct event bits summed)", json!({"case": c.json(), "after_op_index": i, "detail": e}));
            return;
        }
        Err(p) => {
            out.violation(&sig("panic"), "window panicked", json!({"case": c.json(), "panic": p, "site": panic_site(&last_panic_location())}));
            return;
        }
    };
    // ---- the monitor's own bookkeeping of what arrived
    let mut arrival: BTreeMap<i64, (usize, i64, i64)> = BTreeMap::new(); // uid -> (op index, ts, key)
    for (i, o) in c.ops.iter().enumerate() {
        if let Op::Add(g, _) = o {
            arrival.insert(g.uid, (i, g.ts, g.key));
        }
    }
    out.add("events_added", arrival.len() as u64);
    out.add("windows_observed", ems.iter().filter(|e| !e.uids.is_empty()).count() as u64);
    let closed = ems.iter().filter(|e| !e.uids.is_empty() && e.op_idx < c.ops.len()).count();
    let buffered: usize = ems.iter().filter(|e| e.op_idx == c.ops.len()).map(|e| e.uids.len()).sum();
    if closed >= 2 && buffered >= 1 {
        out.nontrivial(c);
    }
    let in_order_ts = c.timestamps_in_order();
    let shape_applies = in_order_ts && c.watermarks_consistent();
    if shape_applies && !c.kind.is_count() {
        out.add("runs_with_time_shape_clause", 1);
    }
    let mut reported: BTreeSet<String> = BTreeSet::new();
    let mut report = |out: &mut Partial, clause: String, what: &str, em: Option<&Em>, detail: J| {
        let s = sig(&clause);
        if reported.insert(s.clone()) {
            out.violation(&s, what, json!({"case": c.json(), "window": em.map(|e| json!({"after_op_index": e.op_idx, "by": e.trigger, "uids": e.uids})), "detail": detail, "observed_windows": ems_json(&ems)}));
        }
    };
    let mut emitted: BTreeMap<i64, usize> = BTreeMap::new();
    for (ei, em) in ems.iter().enumerate() {
        let on = format!("on-{}", em.trigger);
        // -- conservation: known, arrived before, not twice
        let mut usable = true;
        for u in &em.uids {
            match arrival.get(u) {
                None => {
                    usable = false;
                    report(out, format!("conservation/phantom/{}", on), "a window contains an event that was never added", Some(em), json!({"uid": u}));
                }
                Some((at, _, _)) if *at > em.op_idx => {
                    usable = false;
                    report(out, format!("conservation/phantom/{}", on), "a window contains an event before it was added", Some(em), json!({"uid": u}));
                }
                _ => {}
            }
            if let Some(prev) = emitted.insert(*u, ei) {
                let prev_by = ems[prev].trigger;
                report(out, format!("conservation/duplicate/{}", on), "an event is emitted twice", Some(em), json!({"uid": u, "first_seen_in_window_by": prev_by, "first_seen_after_op_index": ems[prev].op_idx}));
            }
        }
        if !usable {
            continue;
        }
        // -- split into per-partition windows (a partitioned flush concatenates its partitions)
        let mut groups: BTreeMap<i64, Vec<i64>> = BTreeMap::new();
        for u in &em.uids {
            let key = if c.kind.partitioned() { arrival[u].2 } else { 0 };
            groups.entry(key).or_default().push(*u);
        }
        // -- arrival order inside each window
        for g in groups.values() {
            if g.windows(2).any(|w| arrival[&w[0]].0 >= arrival[&w[1]].0) {
                report(out, format!("conservation/order/{}", on), "a window is not in arrival order", Some(em), json!({"window_of_one_partition": g}));
            }
        }
        if let Some((f, l)) = em.ends {
            if !em.uids.is_empty() && (f != em.uids.first().copied() || l != em.uids.last().copied()) {
                report(out, format!("conservation/order/{}", on), "first(uid)/last(uid) of an emission are not its earliest/latest arrived events", Some(em), json!({"first": f, "last": l}));
            }
        }
        // -- shape
        if c.kind.is_count() && em.trigger == "add" && em.uids.len() as i64 != c.size {
            report(out, "shape/close-size".to_string(), "a count window closed with a number of events different from its size", Some(em), json!({"size": c.size, "closed_with": em.uids.len()}));
        }
        if shape_applies && em.trigger != "flush-after-flush" {
            for g in groups.values() {
                if g.is_empty() {
                    continue;
                }
                if c.kind.is_tumbling() {
                    let first_ts = arrival[&g[0]].1;
                    if let Some(bad) = g.iter().find(|u| arrival[*u].1 >= first_ts + c.size) {
                        report(out, format!("shape/span/{}", on), "a tumbling window (in-order timestamps, consistent watermarks) holds an event at or after ts_first + duration", Some(em), json!({"window_of_one_partition": g, "first_ts_ms": first_ts, "duration_ms": c.size, "offending_uid": bad, "offending_ts_ms": arrival[bad].1}));
                    }
                }
                if c.kind.is_session() {
                    if let Some(w) = g.windows(2).find(|w| arrival[&w[1]].1 - arrival[&w[0]].1 > c.size) {
                        report(out, format!("shape/gap/{}", on), "a session window (in-order timestamps, consistent watermarks) holds consecutive events further apart than the gap", Some(em), json!({"window_of_one_partition": g, "gap_ms": c.size, "pair": w, "distance_ms": arrival[&w[1]].1 - arrival[&w[0]].1}));
                    }
                }
            }
        }
    }
    // -- conservation: nothing lost
    let lost: Vec<i64> = arrival.keys().filter(|u| !emitted.contains_key(u)).copied().collect();
    if !lost.is_empty() {
        let ooo = if in_order_ts { "in-order" } else { "out-of-order" };
        report(out, format!("conservation/lost/{}", ooo), "an added event is neither in an emitted window nor in the final buffer", None, json!({"lost_uids": lost}));
    }
    if out.samples.len() < 3 && closed >= 3 && buffered >= 1 && arrival.len() <= 12 {
        out.sample(json!({"case": c.json(), "observed_windows": ems_json(&ems)}));
    }
}

/// Random op sequence. `hostile` = out-of-order timestamps and arbitrary watermarks
/// (conservation clauses only); otherwise in-order timestamps with ties and watermarks that never
/// exceed the largest timestamp seen (all clauses).
fn gen_case(rng: &mut Rng, kind: Kind, engine: bool, hostile: bool) -> Case {
    let size = rng.range(1, 5);
    let len = 4 + rng.below(27);
    let nkeys = if kind.partitioned() { rng.range(1, 3) } else { 1 };
    let incs = [0, 0, 0, 1, 1, 1, 2, size - 1, size, size, size + 1, 2 * size + 1];
    let mut walk = rng.range(0, 3);
    let mut max_seen: Option<i64> = None;
    let mut last_wm = i64::MIN;
    let mut ops = vec![];
    let wm_den = *rng.pick(&[3u32, 5, 1000]);
    let flush_den = if engine { u32::MAX } else { *rng.pick(&[6u32, 12, 1000]) };
    for i in 0..len {
        if i > 0 {
            walk += (*rng.pick(&incs)).max(0);
        }
        let mut t = walk;
        if hostile && rng.chance(1, 3) {
            t = (walk - rng.range(1, 2 * size + 2)).max(0);
        }
        ops.push(Op::Add(GEv::new(i as i64 + 1, "T", t, rng.range(0, nkeys - 1)), if engine { 0 } else { rng.below(2) as u8 }));
        max_seen = Some(max_seen.map_or(t, |m: i64| m.max(t)));
        if !kind.is_count() && rng.chance(1, wm_den) {
            let m = max_seen.unwrap();
            let mut w = if hostile { m + rng.range(-(size + 1), 2 * size + 2) } else { m - rng.range(0, size + 1) };
            if engine && hostile && w <= last_wm && rng.chance(1, 2) {
                w = last_wm + 1; // the engine ignores watermarks that do not advance
            }
            last_wm = last_wm.max(w);
            ops.push(Op::Wm(w));
        }
        if flush_den != u32::MAX && rng.chance(1, flush_den) {
            let variant = if kind.partitioned() { rng.below(2) } else { rng.below(3) } as u8;
            ops.push(Op::Flush(variant));
        }
    }
    Case { kind, engine, size, ops }
}

fn alphabet(size: i64) -> Vec<i64> {
    let mut a: Vec<i64> = vec![0, 1, size, size + 1];
    a.sort();
    a.dedup();
    let mut next = size + 2;
    while a.len() < 4 {
        a.push(next);
        next += 1;
    }
    a
}

fn main() {
    let args = Args::parse();
    install_quiet_panic_hook();
    watchdog("C12", args.pick(600, 7200));
    let mut rep = Report::new("C12", "exploration", &args);
    rep.rule = "window kinds tumbling / count / session, plain and under a partition key (partitioned count only through the engine), sizes/gaps 1-5 (ms or events). Direct lane: every stream of length <= L over a 4-value timestamp alphabet {0,1,size,size+1} (L = 5 quick, 6 thorough; in-order and out-of-order, ties), also with one watermark (every alphabet value and max+size) inserted at every position (length <= 4 quick, <= 6 thorough), and random op sequences of 4-30 adds interleaved with advance_watermark and flush/flush_shared/flush_columnar; half of the random runs are 'hostile' (late events up to 2*size+2 behind, watermarks up to 2*size+2 ahead of the stream). Engine lane: the same random sequences (adds + external watermarks) through `.window(..)` programs with fingerprint aggregates, buffer read from create_checkpoint(). Non-trivial: run with >= 2 non-empty closed windows and a non-empty final buffer; distinct by (kind, lane, size, op sequence).".into();
    rep.assume("shape clauses for tumbling/session windows are only demanded for in-order timestamps and watermarks <= the largest timestamp seen so far (DESIGN C12); conservation is demanded always");
    rep.assume("a window returned by flush or found in the final buffer is a window in the sense of the shape clauses; an empty emission is not a violation");
    rep.assume("engine lane: count == popcount(sum(bit)) and sum(uid) agreeing with the decoded set identify the emitted set exactly (<= 50 events per stream, exact in f64)");
    let rt0 = rt();
    if let Some(path) = args.replay.clone() {
        let w = read_replay(&path);
        let c = Case::from_json(&w["case"]).expect("replay witness has no parsable case");
        let mut p = Partial::default();
        check_case(&c, &rt0, &mut p);
        println!("replayed case: {}", c.json());
        for (s, what, wit) in &p.violations {
            println!("VIOLATION-ON-REPLAY signature={} :: {}\n{}", s, what, serde_json::to_string_pretty(wit).unwrap());
        }
        if p.violations.is_empty() {
            println!("no violation on replay");
        }
        std::process::exit(if p.violations.is_empty() { 0 } else { 1 });
    }
    let threads = ncpu();
    let exh_len = args.pick(5usize, 6usize);
    let exh_wm_len = args.pick(4usize, 6usize);
    let n_direct = args.pick(60_000usize, 2_000_000usize);
    let n_engine = args.pick(4_000usize, 100_000usize);
    let parts = parallel(threads, args.seed ^ 0xC12, move |ti, mut rng| {
        let mut out = Partial::default();
        let rt = rt();
        // ---- exhaustive small streams, direct lane
        let mut counter = 0usize;
        for kind in [Kind::Tumbling, Kind::Count, Kind::Session] {
            for size in 1..=5i64 {
                let alpha = alphabet(size);
                for len in 1..=exh_len {
                    for code in 0..4usize.pow(len as u32) {
                        counter += 1;
                        if counter % threads != ti {
                            continue;
                        }
                        let mut x = code;
                        let mut adds = vec![];
                        for i in 0..len {
                            adds.push(Op::Add(GEv::new(i as i64 + 1, "T", alpha[x % 4], 0), ((code + i) % 2) as u8));
                            x /= 4;
                        }
                        check_case(&Case { kind, engine: false, size, ops: adds.clone() }, &rt, &mut out);
                        out.add("exhaustive_runs", 1);
                        if len <= exh_wm_len && kind != Kind::Count {
                            let maxts = adds.iter().map(|o| if let Op::Add(g, _) = o { g.ts } else { 0 }).max().unwrap_or(0);
                            let mut wms = alpha.clone();
                            wms.push(maxts + size);
                            for pos in 1..=len {
                                for wm in &wms {
                                    let mut ops = adds.clone();
                                    ops.insert(pos, Op::Wm(*wm));
                                    check_case(&Case { kind, engine: false, size, ops }, &rt, &mut out);
                                    out.add("exhaustive_runs", 1);
                                }
                            }
                        }
                    }
                }
            }
        }
        // ---- random op sequences, direct lane
        for i in 0..n_direct / threads + 1 {
            let kind = *rng.pick(&[Kind::Tumbling, Kind::Count, Kind::Session, Kind::PTumbling, Kind::PSession]);
            let c = gen_case(&mut rng, kind, false, i % 2 == 1);
            check_case(&c, &rt, &mut out);
            out.add("direct_random_runs", 1);
        }
        // ---- random op sequences, engine lane
        for i in 0..n_engine / threads + 1 {
            let kind = *rng.pick(&Kind::ALL);
            let c = gen_case(&mut rng, kind, true, i % 2 == 1);
            check_case(&c, &rt, &mut out);
            out.add("engine_runs", 1);
        }
        out
    });
    for p in parts {
        rep.merge(p);
    }
    std::process::exit(rep.finish());
}
