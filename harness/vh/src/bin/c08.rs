//! C08 — numeric comparisons `< <= > >=` agree with the mathematical order for every int/float mix,
//! in the four real evaluation contexts: `.where(L OP R)`, `.emit(r: L OP R)`, `.having(A OP B)` after
//! `.window(1).aggregate(a: last(x), b: last(y))`, and `.pattern(p: events => first(events).x OP ...)`.
//! Oracle: exact comparison in integer arithmetic (the float is decomposed into sign/mantissa/exponent
//! and compared with the i64 as integer part + "has a fraction" — no `as f64` anywhere); NaN compares
//! false. Operands come from event fields and from literals of the program text.
use serde_json::{json, Value as J};
use std::cmp::Ordering;
use std::collections::BTreeMap;
use vh::eng::*;
use vh::*;
use varpulis_core::Value;
use varpulis_runtime::event::Event;

// ------------------------------------------------------------------------------------------------
// operands
// ------------------------------------------------------------------------------------------------
#[derive(Clone, Copy, Debug, PartialEq)]
enum Num {
    I(i64),
    F(f64),
}

impl Num {
    fn ty(&self) -> &'static str {
        match self {
            Num::I(_) => "int",
            Num::F(_) => "float",
        }
    }
    fn value(&self) -> Value {
        match self {
            Num::I(i) => Value::Int(*i),
            Num::F(f) => Value::Float(*f),
        }
    }
    fn json(&self) -> J {
        match self {
            Num::I(i) => json!({"int": i}),
            Num::F(f) => json!({"float": format!("{:?}", f), "bits": format!("{:#018x}", f.to_bits())}),
        }
    }
    fn key(&self) -> (u8, u64) {
        match self {
            Num::I(i) => (0, *i as u64),
            Num::F(f) => (1, f.to_bits()),
        }
    }
    fn big_int(&self) -> bool {
        match self {
            Num::I(i) => i.unsigned_abs() > (1u64 << 53),
            _ => false,
        }
    }
    /// Program text of the operand as a literal, if it can be written as one.
    /// `nonneg_only`: the pattern lambda is not constant-folded, so a leading `-` stays a unary
    /// operator there (not a comparison concern) — only non-negative literals are used in it.
    fn literal(&self, nonneg_only: bool) -> Option<String> {
        match self {
            Num::I(i) => {
                if *i >= 0 {
                    Some(format!("{}", i))
                } else if nonneg_only {
                    None
                } else if *i == i64::MIN {
                    Some("(-9223372036854775807 - 1)".to_string())
                } else {
                    Some(format!("-{}", i.unsigned_abs()))
                }
            }
            Num::F(f) => {
                if !f.is_finite() {
                    return None;
                }
                let neg = f.is_sign_negative();
                if neg && nonneg_only {
                    return None;
                }
                let mut s = format!("{:?}", f.abs());
                // grammar: digits "." digits (("e"|"E") sign? digits)?
                if let Some(p) = s.find('e') {
                    if !s[..p].contains('.') {
                        s.insert_str(p, ".0");
                    }
                } else if !s.contains('.') {
                    s.push_str(".0");
                }
                // the literal must denote exactly this float
                if s.parse::<f64>().ok().map(|g| g.to_bits()) != Some(f.abs().to_bits()) {
                    return None;
                }
                Some(if neg { format!("-{}", s) } else { s })
            }
        }
    }
}

// ------------------------------------------------------------------------------------------------
// the oracle: exact order of two numeric operands
// ------------------------------------------------------------------------------------------------
/// Exact comparison of an i64 with an f64. None iff the float is NaN.
fn cmp_int_float(i: i64, f: f64) -> Option<Ordering> {
    if f.is_nan() {
        return None;
    }
    let bits = f.to_bits();
    let neg = (bits >> 63) == 1;
    let e = ((bits >> 52) & 0x7ff) as i32;
    let frac = bits & ((1u64 << 52) - 1);
    if e == 0x7ff {
        // infinity (NaN handled above)
        return Some(if neg { Ordering::Greater } else { Ordering::Less });
    }
    // |f| = m * 2^exp exactly
    let (m, exp) = if e == 0 { (frac, -1074) } else { (frac | (1u64 << 52), e - 1075) };
    // integer part of |f| and whether a non-zero fraction remains
    let (ip, has_frac): (u128, bool) = if m == 0 {
        (0, false)
    } else if exp >= 0 {
        if exp > 70 {
            (u128::MAX, false) // far beyond any i64
        } else {
            ((m as u128) << exp, false)
        }
    } else {
        let s = (-exp) as u32;
        if s >= 64 {
            (0, true)
        } else {
            ((m >> s) as u128, (m & ((1u64 << s) - 1)) != 0)
        }
    };
    let ii = i as i128; // integer widening only
    if !neg {
        // f = ip + fraction, fraction in [0,1)
        if ii < 0 {
            return Some(Ordering::Less);
        }
        let iu = ii as u128;
        Some(if iu < ip {
            Ordering::Less
        } else if iu > ip {
            Ordering::Greater
        } else if has_frac {
            Ordering::Less
        } else {
            Ordering::Equal
        })
    } else {
        // f = -(ip + fraction) <= 0
        if ii > 0 {
            return Some(Ordering::Greater);
        }
        let iu = (-ii) as u128; // |i|
        Some(if iu < ip {
            Ordering::Greater
        } else if iu > ip {
            Ordering::Less
        } else if has_frac {
            Ordering::Greater
        } else {
            Ordering::Equal
        })
    }
}

fn cmp_exact(a: Num, b: Num) -> Option<Ordering> {
    match (a, b) {
        (Num::I(x), Num::I(y)) => Some(x.cmp(&y)),
        (Num::F(x), Num::F(y)) => x.partial_cmp(&y), // IEEE order of two floats: -0.0 == 0.0, NaN unordered
        (Num::I(x), Num::F(y)) => cmp_int_float(x, y),
        (Num::F(x), Num::I(y)) => cmp_int_float(y, x).map(|o| o.reverse()),
    }
}

const OPS: [(&str, &str); 4] = [("lt", "<"), ("le", "<="), ("gt", ">"), ("ge", ">=")];

fn expected(op: usize, ord: Option<Ordering>) -> bool {
    match (op, ord) {
        (_, None) => false,
        (0, Some(o)) => o == Ordering::Less,
        (1, Some(o)) => o != Ordering::Greater,
        (2, Some(o)) => o == Ordering::Greater,
        (3, Some(o)) => o != Ordering::Less,
        _ => unreachable!(),
    }
}

/// Non-trivial (DESIGN §6): mixed-type pair with unequal values within 1.0 of each other.
fn nontrivial_pair(a: Num, b: Num) -> bool {
    let (i, f) = match (a, b) {
        (Num::I(i), Num::F(f)) | (Num::F(f), Num::I(i)) => (i, f),
        _ => return false,
    };
    match cmp_int_float(i, f) {
        None | Some(Ordering::Equal) => false,
        Some(Ordering::Less) => {
            // i < f: within 1.0 iff f <= i+1
            i == i64::MAX && f == 9223372036854775808.0 || (i < i64::MAX && cmp_int_float(i + 1, f) != Some(Ordering::Less))
        }
        Some(Ordering::Greater) => i > i64::MIN && cmp_int_float(i - 1, f) != Some(Ordering::Greater),
    }
}

// ------------------------------------------------------------------------------------------------
// boundary table
// ------------------------------------------------------------------------------------------------
fn table(rng: &mut Rng, extra_random: usize) -> Vec<Num> {
    let p53: i64 = 1 << 53;
    let mut v: Vec<Num> = vec![];
    for i in [
        0i64, 1, -1, 2, 3, -3, 30, 31, 32,
        p53 - 1, p53, p53 + 1, p53 + 2, -(p53 + 1), -p53,
        (1 << 62) + 1,
        i64::MAX, i64::MAX - 1, i64::MAX - 512, i64::MIN, i64::MIN + 1,
    ] {
        v.push(Num::I(i));
    }
    for f in [
        0.0f64, -0.0, 0.5, -0.5, 1.0, -1.0, 1.5, 2.5, -2.5, 30.0, 31.5,
        0.9999999999999999, 1.0000000000000002,
        4503599627370496.5, // 2^52 + 0.5
        9007199254740991.0, 9007199254740992.0, 9007199254740994.0, -9007199254740992.0, -9007199254740994.0,
        4611686018427387904.0, // 2^62
        9223372036854774784.0, // largest float below 2^63
        9223372036854775808.0, // 2^63
        9223372036854777856.0, // next float above 2^63
        -9223372036854775808.0, -9223372036854777856.0,
        1e300, -1e300, 5e-324, -5e-324,
        f64::INFINITY, f64::NEG_INFINITY, f64::NAN,
    ] {
        v.push(Num::F(f));
    }
    for _ in 0..extra_random {
        // random integer of a random magnitude, and floats next to it
        let bitsz = 1 + rng.below(63) as u32;
        let mut i = (rng.next_u64() >> (64 - bitsz)) as i64;
        if rng.chance(1, 2) {
            i = i.wrapping_neg();
        }
        match rng.below(4) {
            0 => v.push(Num::I(i)),
            1 => {
                // nearest float by decimal round trip (no cast): parse the integer text as f64
                let f: f64 = format!("{}", i).parse().unwrap();
                v.push(Num::I(i));
                v.push(Num::F(f));
            }
            2 => {
                let f: f64 = format!("{}", i).parse().unwrap();
                let g = f64::from_bits(f.to_bits().wrapping_add(1));
                if g.is_finite() {
                    v.push(Num::F(g));
                }
                v.push(Num::I(i));
            }
            _ => {
                let small = rng.range(-40, 40);
                let f: f64 = format!("{}.{}", small, *rng.pick(&[0, 25, 5, 75, 999])).parse().unwrap();
                v.push(Num::I(small));
                v.push(Num::F(f));
            }
        }
    }
    // dedupe by bit pattern
    let mut seen = std::collections::BTreeSet::new();
    v.retain(|n| seen.insert(n.key()));
    v
}

// ------------------------------------------------------------------------------------------------
// programs
// ------------------------------------------------------------------------------------------------
#[derive(Clone, Copy, Debug, PartialEq, Eq, Hash, PartialOrd, Ord)]
enum Ctx {
    Where,
    Emit,
    Having,
    Pattern,
}
impl Ctx {
    fn name(&self) -> &'static str {
        match self {
            Ctx::Where => "where",
            Ctx::Emit => "emit",
            Ctx::Having => "having",
            Ctx::Pattern => "pattern",
        }
    }
}

/// Operand source: event field or literal.
#[derive(Clone, Debug)]
enum Src {
    Field,
    Lit(Num),
}

/// Program text for one (lhs source, rhs source). Fields are `x` (lhs) and `y` (rhs).
/// Returns the program and the set of contexts it contains (pattern is dropped if a literal
/// cannot be written there).
fn program(l: &Src, r: &Src) -> Option<(String, Vec<Ctx>)> {
    let txt = |s: &Src, field: &str, nonneg: bool| -> Option<String> {
        match s {
            Src::Field => Some(field.to_string()),
            Src::Lit(n) => n.literal(nonneg),
        }
    };
    let lx = txt(l, "x", false)?;
    let rx = txt(r, "y", false)?;
    let mut p = String::new();
    let mut ctxs = vec![Ctx::Where, Ctx::Emit, Ctx::Having];
    for (name, op) in OPS {
        p.push_str(&format!("stream W_{} = E.where({} {} {}).emit(u: uid)\n", name, lx, op, rx));
    }
    p.push_str(&format!(
        "stream M = E.emit(u: uid, lt: {l} < {r}, le: {l} <= {r}, gt: {l} > {r}, ge: {l} >= {r})\n",
        l = lx,
        r = rx
    ));
    let la = txt(l, "a", false)?;
    let rb = txt(r, "b", false)?;
    for (name, op) in OPS {
        p.push_str(&format!(
            "stream H_{} = E.window(1).aggregate(u: last(uid), a: last(x), b: last(y)).having({} {} {}).emit(u: u)\n",
            name, la, op, rb
        ));
    }
    if let (Some(lp), Some(rp)) = (txt(l, "first(events).x", true), txt(r, "first(events).y", true)) {
        ctxs.push(Ctx::Pattern);
        for (name, op) in OPS {
            p.push_str(&format!("stream P_{} = E.pattern(p: events => {} {} {}).emit(u: uid)\n", name, lp, op, rp));
        }
    }
    Some((p, ctxs))
}

struct Case {
    l: Src,
    r: Src,
    /// (x, y) field values per event; for literal operands the corresponding field still exists
    /// (value 0) but is not referenced.
    pairs: Vec<(Num, Num)>,
}

fn src_name(s: &Src) -> &'static str {
    match s {
        Src::Field => "field",
        Src::Lit(_) => "literal",
    }
}

fn run_case(case: &Case, rt: &tokio::runtime::Runtime, out: &mut Partial) {
    let Some((prog, ctxs)) = program(&case.l, &case.r) else {
        return;
    };
    let events: Vec<Event> = case
        .pairs
        .iter()
        .enumerate()
        .map(|(i, (x, y))| ev("E", ts_ms(i as i64), &[("uid", Value::Int(i as i64 + 1)), ("x", x.value()), ("y", y.value())]))
        .collect();
    let r = catch(std::panic::AssertUnwindSafe(|| run_flat(rt, &prog, &events)));
    let outs = match r {
        Ok(Ok(o)) => o,
        Ok(Err(e)) => {
            out.inconclusive(&format!("program rejected: {} :: {}", e, prog.lines().next().unwrap_or("")));
            return;
        }
        Err(pn) => {
            let site = panic_site(&last_panic_location());
            let site = site.rsplit_once(':').map(|(f, _)| f.to_string()).unwrap_or(site);
            out.violation(&format!("panic/{}", site), "engine panicked while evaluating a numeric comparison", json!({"program": prog, "events": events_json(&events), "panic": pn}));
            return;
        }
    };
    // observed: (stream name, uid) -> event
    let mut seen: BTreeMap<(String, i64), Vec<&Event>> = BTreeMap::new();
    for o in &outs {
        let u = match o.data.get("u") {
            Some(Value::Int(u)) => *u,
            _ => {
                out.inconclusive(&format!("output without uid in stream {}", o.event_type));
                return;
            }
        };
        seen.entry((o.event_type.to_string(), u)).or_default().push(o);
    }
    for (i, (x, y)) in case.pairs.iter().enumerate() {
        let uid = i as i64 + 1;
        let a = match &case.l {
            Src::Field => *x,
            Src::Lit(n) => *n,
        };
        let b = match &case.r {
            Src::Field => *y,
            Src::Lit(n) => *n,
        };
        let ord = cmp_exact(a, b);
        let nt = nontrivial_pair(a, b);
        let mixed = a.ty() != b.ty();
        let big = mixed && (a.big_int() || b.big_int());
        let mut obs_all: BTreeMap<(Ctx, usize), Option<bool>> = BTreeMap::new();
        for &ctx in &ctxs {
            for (oi, (oname, osym)) in OPS.iter().enumerate() {
                out.eval();
                let want = expected(oi, ord);
                // observed value: Some(bool) or None (= no value, only distinguishable in emit)
                let got: Option<bool> = match ctx {
                    Ctx::Where => Some(seen.contains_key(&(format!("W_{}", oname), uid))),
                    Ctx::Having => Some(seen.contains_key(&(format!("H_{}", oname), uid))),
                    Ctx::Pattern => Some(seen.contains_key(&(format!("P_{}", oname), uid))),
                    Ctx::Emit => match seen.get(&("M".to_string(), uid)).and_then(|v| v.first()) {
                        None => {
                            out.inconclusive("emit stream produced no output for an event");
                            continue;
                        }
                        Some(e) => match e.data.get(*oname) {
                            Some(Value::Bool(b)) => Some(*b),
                            None => None,
                            Some(other) => {
                                out.violation(
                                    &format!("emit/{}/{}-{}/non-bool", oname, a.ty(), b.ty()),
                                    "comparison emitted a non-boolean value",
                                    json!({"program": prog, "lhs": a.json(), "rhs": b.json(), "emitted": val_json(other)}),
                                );
                                continue;
                            }
                        },
                    },
                };
                obs_all.insert((ctx, oi), got);
                if nt {
                    out.nontrivial(&(ctx, oi, a.key(), b.key(), src_name(&case.l), src_name(&case.r)));
                }
                if got == Some(want) {
                    continue;
                }
                let sig = format!("{}/{}/{}-{}{}", ctx.name(), oname, a.ty(), b.ty(), if big { "/big" } else { "" });
                let what = match (ctx, got) {
                    (Ctx::Emit, None) => format!("`{} {} {}` has no value in .emit (field absent) but the comparison is mathematically {}", a.ty(), osym, b.ty(), want),
                    (Ctx::Pattern, _) => format!("`.pattern` lambda `{} {} {}` let the event {} although the comparison is mathematically {}", a.ty(), osym, b.ty(), if got == Some(true) { "pass" } else { "drop" }, want),
                    _ => format!("`{} {} {}` evaluated to {:?} in .{} but is mathematically {}", a.ty(), osym, b.ty(), got, ctx.name(), want),
                };
                let stream_line = prog
                    .lines()
                    .find(|l| match ctx {
                        Ctx::Where => l.starts_with(&format!("stream W_{} ", oname)),
                        Ctx::Having => l.starts_with(&format!("stream H_{} ", oname)),
                        Ctx::Pattern => l.starts_with(&format!("stream P_{} ", oname)),
                        Ctx::Emit => l.starts_with("stream M "),
                    })
                    .unwrap_or("")
                    .to_string();
                out.violation(
                    &sig,
                    &what,
                    json!({
                        "program": stream_line,
                        "event": event_json(&events[i]),
                        "lhs": {"source": src_name(&case.l), "value": a.json()},
                        "rhs": {"source": src_name(&case.r), "value": b.json()},
                        "op": osym,
                        "context": ctx.name(),
                        "mathematical_order": format!("{:?}", ord),
                        "expected": want,
                        "observed": match got { Some(b) => json!(b), None => json!("no value (field absent)") },
                    }),
                );
            }
        }
        // consequence: a >= b  <=>  a > b  or numerically equal (on the observed results)
        for &ctx in &ctxs {
            if let (Some(Some(ge)), Some(Some(gt))) = (obs_all.get(&(ctx, 3)), obs_all.get(&(ctx, 2))) {
                out.add("consequence_checked", 1);
                let numeq = ord == Some(Ordering::Equal);
                if *ge != (*gt || numeq) {
                    out.add("consequence_failed", 1);
                }
            }
        }
        if out.samples.len() < 2 && nt {
            out.sample(json!({"lhs": {"source": src_name(&case.l), "value": a.json()}, "rhs": {"source": src_name(&case.r), "value": b.json()}, "order": format!("{:?}", ord), "program_head": prog.lines().next()}));
        }
    }
    out.add("programs", 1);
    out.add("events", case.pairs.len() as u64);
}

fn replay(path: &std::path::Path) -> i32 {
    let doc: J = serde_json::from_str(&std::fs::read_to_string(path).expect("replay file")).expect("json");
    let w = &doc["witness"];
    let prog = w["program"].as_str().unwrap_or("").to_string();
    let num = |j: &J| -> Value {
        if let Some(i) = j["value"]["int"].as_i64() {
            Value::Int(i)
        } else {
            let bits = u64::from_str_radix(j["value"]["bits"].as_str().unwrap_or("0x0").trim_start_matches("0x"), 16).unwrap_or(0);
            Value::Float(f64::from_bits(bits))
        }
    };
    let e = ev("E", ts_ms(0), &[("uid", Value::Int(1)), ("x", num(&w["lhs"])), ("y", num(&w["rhs"]))]);
    let rt = rt();
    let outs = run_flat(&rt, &prog, &[e.clone()]);
    println!("program: {}\nevent: {}\nexpected: {}\nobserved(recorded): {}\noutputs(now): {:?}", prog, event_json(&e), w["expected"], w["observed"], outs.map(|o| o.iter().map(event_json).collect::<Vec<_>>()));
    0
}

fn main() {
    let args = Args::parse();
    install_quiet_panic_hook();
    watchdog("C08", args.pick(600, 7200));
    if let Some(p) = args.replay.clone() {
        std::process::exit(replay(&p));
    }
    let mut rep = Report::new("C08", "exploration", &args);
    rep.rule = "operand pairs from a boundary table (0, +-0.0, +-1, +-0.5, 2^53+-1, i64 extremes, floats around 2^63, fractional neighbours, NaN, +-inf) plus random integers with their nearest/next floats, in all four type mixes; every pair is evaluated with < <= > >= in .where, .emit, .having (after .window(1).aggregate(last)) and a .pattern lambda; operands come from event fields (all pairs) and from program literals (field-vs-literal, literal-vs-field for every table value that can be written as a literal; a sample of literal-vs-literal). Non-trivial: mixed int/float pair with unequal values within 1.0 of each other; distinct by (context, op, lhs bits, rhs bits, operand sources).".into();
    rep.assume("float-vs-float order is the IEEE order of Rust's f64::partial_cmp (NaN unordered, -0.0 == 0.0); int-vs-float order is computed exactly from the float's bit decomposition");
    rep.assume("a comparison with a NaN operand is expected to be false / never to select the event");
    rep.assume("negative literals are not used inside the .pattern lambda (the lambda is not constant-folded, so `-1` is a unary-minus expression there, which the pattern evaluator does not evaluate — not a comparison concern)");
    // sanity of the oracle itself against a few hand-computed facts (harness self-check)
    {
        let p53 = 1i64 << 53;
        let checks = [
            (cmp_int_float(p53 + 1, 9007199254740992.0), Some(Ordering::Greater)),
            (cmp_int_float(i64::MAX, 9223372036854775808.0), Some(Ordering::Less)),
            (cmp_int_float(i64::MIN, -9223372036854775808.0), Some(Ordering::Equal)),
            (cmp_int_float(0, -0.0), Some(Ordering::Equal)),
            (cmp_int_float(31, 31.5), Some(Ordering::Less)),
            (cmp_int_float(-3, -2.5), Some(Ordering::Less)),
            (cmp_int_float(-2, -2.5), Some(Ordering::Greater)),
            (cmp_int_float(0, 5e-324), Some(Ordering::Less)),
            (cmp_int_float(0, -5e-324), Some(Ordering::Greater)),
            (cmp_int_float(1, f64::NAN), None),
            (cmp_int_float(i64::MAX, f64::INFINITY), Some(Ordering::Less)),
            (cmp_int_float(i64::MIN, f64::NEG_INFINITY), Some(Ordering::Greater)),
            (cmp_int_float(i64::MIN, -1e300), Some(Ordering::Greater)),
        ];
        for (i, (got, want)) in checks.iter().enumerate() {
            if got != want {
                rep.inconclusive(&format!("oracle self-check {} failed: {:?} != {:?}", i, got, want));
            }
        }
    }
    let threads = ncpu();
    let extra_random = args.pick(40usize, 400usize);
    let litlit = args.pick(160usize, 4000usize);
    let seed = args.seed ^ 0xC08;
    let parts = parallel(threads, seed, move |ti, _rng| {
        let mut out = Partial::default();
        let rt = rt();
        // the table is the same in every thread (derived from the seed, not the thread)
        let mut trng = Rng::new(seed).fork(0x7AB1E);
        let tab = table(&mut trng, extra_random);
        let zero = Num::I(0);
        // build the task list deterministically, take every `threads`-th task
        let mut tasks: Vec<Case> = vec![];
        // (1) field OP field: all pairs, chunked per lhs value
        for a in &tab {
            tasks.push(Case { l: Src::Field, r: Src::Field, pairs: tab.iter().map(|b| (*a, *b)).collect() });
        }
        // (2) field OP literal and literal OP field
        for c in &tab {
            if c.literal(false).is_none() {
                continue;
            }
            tasks.push(Case { l: Src::Field, r: Src::Lit(*c), pairs: tab.iter().map(|a| (*a, zero)).collect() });
            tasks.push(Case { l: Src::Lit(*c), r: Src::Field, pairs: tab.iter().map(|b| (zero, *b)).collect() });
        }
        // (3) literal OP literal: sample
        let lits: Vec<Num> = tab.iter().filter(|c| c.literal(false).is_some()).cloned().collect();
        let mut lrng = Rng::new(seed).fork(0x1171);
        for _ in 0..litlit {
            let a = *lrng.pick(&lits);
            let b = *lrng.pick(&lits);
            tasks.push(Case { l: Src::Lit(a), r: Src::Lit(b), pairs: vec![(zero, zero)] });
        }
        for (k, t) in tasks.iter().enumerate() {
            if k % threads == ti {
                run_case(t, &rt, &mut out);
            }
        }
        if ti == 0 {
            out.add("table_values", tab.len() as u64);
            out.add("table_literals", lits.len() as u64);
        }
        out
    });
    for p in parts {
        rep.merge(p);
    }
    if rep.extra.get("consequence_failed").and_then(|v| v.as_u64()).unwrap_or(0) > 0 {
        rep.set("consequence_note", json!("`a >= b <=> a > b or a == b` failed on observed results; every such case is also reported under its per-operator signature"));
    }
    std::process::exit(rep.finish());
}
