//! C21 — checkpoint storage recovers the newest complete checkpoint after any crash.
//!
//! Monitor: the real `CheckpointManager` over the real `FileStore` in a scratch directory,
//! with hook H5 (thread-local fail-stop / torn-write injection before every FileStore
//! write / rename / remove, plus an operation log).
//!
//! A *history* is (max_checkpoints m in 1..=3, n <= 8 `checkpoint()` calls, a set of clean
//! restarts between calls). Each history is first run without a fault to count its
//! file-system operations T; then it is re-run once per crash point k in 0..T (fail-stop:
//! operation k and every later one fail), once more per write with a torn write (half the
//! payload reaches the temp file, then stop), and once per corruption kind applied to the
//! newest checkpoint file(s) after the clean history. After the "crash" a fresh
//! `FileStore` + `CheckpointManager` on the same directory recovers (`recover()`), then two
//! more checkpoints are taken (fault sequences: a second crash at every operation of that
//! continuation, then recovery again).
//!
//! Oracle (own bookkeeping from the H5 op log, own directory listing; nothing of the store's
//! read path is trusted):
//!  * recovered checkpoint = the one of the last `rename` that was performed, with exactly the
//!    payload that was handed to that `checkpoint()` call (never a partial / other payload);
//!  * newest file(s) unreadable and an older readable one present => recovery returns the
//!    newest readable one;
//!  * after every `checkpoint()` that returned Ok: at most m checkpoint files (numeric names)
//!    in the directory (the transient m+1 between save and prune inside a call is not looked at);
//!  * every id of a completed checkpoint exceeds the ids of all checkpoints completed before,
//!    across restarts and recoveries.
//!
//! Signature = (fault site: no-fault | write | rename | remove | torn | corrupt-newest, clause).
use serde_json::{json, Value as J};
use std::collections::{BTreeSet, HashMap};
use std::path::PathBuf;
use std::sync::Arc;
use varpulis_runtime::persistence::{Checkpoint, CheckpointConfig, CheckpointManager, FileStore, StateStore};
use varpulis_runtime::verif::{fs_crash_after, fs_log_start, fs_take_log};
use vh::*;

fn payload(marker: u64) -> Checkpoint {
    let mut metadata = HashMap::new();
    metadata.insert("marker".to_string(), format!("m{}-{}", marker, "x".repeat(48)));
    metadata.insert("tail".to_string(), format!("end-of-{}", marker));
    Checkpoint {
        id: 0,
        timestamp_ms: 0,
        events_processed: marker,
        window_states: HashMap::new(),
        pattern_states: HashMap::new(),
        metadata,
        context_states: HashMap::new(),
    }
}

fn payload_intact(c: &Checkpoint, marker: u64) -> bool {
    let p = payload(marker);
    c.events_processed == marker
        && c.metadata == p.metadata
        && c.window_states.is_empty()
        && c.pattern_states.is_empty()
        && c.context_states.is_empty()
}

fn ckpt_json(c: &Checkpoint) -> J {
    json!({"id": c.id, "events_processed": c.events_processed, "metadata": c.metadata})
}

/// Scratch directory on tmpfs when there is one (the crash model is the H5 hook, not the
/// medium), else the default temp dir.
fn scratch_dir() -> tempfile::TempDir {
    let b = {
        let mut b = tempfile::Builder::new();
        b.prefix("vh-c21-");
        b
    };
    if std::path::Path::new("/dev/shm").is_dir() {
        if let Ok(d) = b.tempdir_in("/dev/shm") {
            return d;
        }
    }
    b.tempdir().expect("tempdir")
}

#[derive(Clone, Copy, Debug, Hash, PartialEq, Eq)]
struct Fault {
    k: u64,
    torn: bool,
}

#[derive(Clone, Debug, Hash)]
struct Phase {
    saves: usize,
    /// bit i-1 set: clean restart (fresh FileStore + CheckpointManager) before save i
    restarts: u32,
    fault: Option<Fault>,
}

struct PhaseOut {
    crashed: bool,
    site: &'static str,
    ops: Vec<&'static str>,
    /// directory names after every Ok save (quiescent states), index = save
    snaps: Vec<BTreeSet<String>>,
    /// the manager that is still alive when the phase ended without a crash
    mgr: Option<CheckpointManager>,
    aborted: bool,
}

struct Session {
    dir: tempfile::TempDir,
    m: usize,
    next_marker: u64,
    /// (id, marker) in the order the renames were performed, over the whole session
    completed: Vec<(u64, u64)>,
    /// model of the checkpoint files that exist
    present: BTreeSet<u64>,
    oplog: Vec<String>,
    phases: Vec<J>,
    /// site of the most recent fault (signature component)
    site: &'static str,
}

impl Session {
    fn new(m: usize) -> Session {
        Session {
            dir: scratch_dir(),
            m,
            next_marker: 1000,
            completed: vec![],
            present: BTreeSet::new(),
            oplog: vec![],
            phases: vec![],
            site: "no-fault",
        }
    }
    fn ckpt_dir(&self) -> PathBuf {
        self.dir.path().join("checkpoint")
    }
    fn open_mgr(&self) -> Result<CheckpointManager, String> {
        let store = FileStore::open(self.dir.path()).map_err(|e| format!("FileStore::open: {}", e))?;
        let store: Arc<dyn StateStore> = Arc::new(store);
        CheckpointManager::new(
            store,
            CheckpointConfig {
                interval: std::time::Duration::from_secs(3600),
                max_checkpoints: self.m,
                checkpoint_on_shutdown: false,
                key_prefix: "varpulis".into(),
            },
        )
        .map_err(|e| format!("CheckpointManager::new: {}", e))
    }
    /// own listing: (all names, numeric ids)
    fn listing(&self) -> (BTreeSet<String>, BTreeSet<u64>, Vec<String>) {
        let mut names = BTreeSet::new();
        let mut ids = BTreeSet::new();
        let mut detail = vec![];
        if let Ok(rd) = std::fs::read_dir(self.ckpt_dir()) {
            for e in rd.flatten() {
                let n = e.file_name().to_string_lossy().to_string();
                let len = e.metadata().map(|m| m.len()).unwrap_or(0);
                detail.push(format!("{} ({} bytes)", n, len));
                if let Ok(id) = n.parse::<u64>() {
                    ids.insert(id);
                }
                names.insert(n);
            }
        }
        detail.sort();
        (names, ids, detail)
    }
    fn witness(&self, extra: J) -> J {
        json!({
            "max_checkpoints": self.m,
            "phases": self.phases,
            "fs_op_log": self.oplog,
            "completed_renames_id_marker": self.completed,
            "directory_now": self.listing().2,
            "detail": extra,
            "replay": "FileStore::open(dir) + CheckpointManager::new(max_checkpoints) ; per phase: arm varpulis_runtime::verif::fs_crash_after(k, torn) (or fs_log_start), call checkpoint() `saves` times with fresh managers at the restart positions; then a fresh FileStore + CheckpointManager::new + recover()",
        })
    }

    /// Run one phase with `mgr` (None: open a fresh one first, hook not yet armed).
    fn run_phase(&mut self, mgr: Option<CheckpointManager>, ph: &Phase, out: &mut Partial) -> PhaseOut {
        let mut po = PhaseOut { crashed: false, site: "no-fault", ops: vec![], snaps: vec![], mgr: None, aborted: false };
        let mut mgr: Option<CheckpointManager> = match mgr {
            Some(m) => Some(m),
            None => match self.open_mgr() {
                Ok(m) => Some(m),
                Err(e) => {
                    out.inconclusive(&format!("cannot open a manager on a quiescent directory: {}", e));
                    po.aborted = true;
                    return po;
                }
            },
        };
        self.phases.push(json!({"saves": ph.saves, "restart_before_save_mask": ph.restarts,
            "fault": ph.fault.map(|f| json!({"crash_at_fs_op": f.k, "torn_write": f.torn}))}));
        match ph.fault {
            Some(f) => fs_crash_after(f.k, f.torn),
            None => fs_log_start(),
        }
        let mut markers: Vec<u64> = vec![];
        let mut restart_err: Option<String> = None;
        for i in 0..ph.saves {
            if i > 0 && (ph.restarts >> (i - 1)) & 1 == 1 {
                mgr = None; // the old process is gone
                match self.open_mgr() {
                    Ok(m2) => mgr = Some(m2),
                    Err(e) => {
                        restart_err = Some(e);
                        break;
                    }
                }
            }
            let marker = self.next_marker;
            self.next_marker += 1;
            markers.push(marker);
            let r = mgr.as_mut().expect("manager").checkpoint(payload(marker));
            match r {
                Ok(()) => {
                    let (names, ids, detail) = self.listing();
                    out.add("completed_checkpoint_calls", 1);
                    if ids.len() > self.m {
                        // model update has not happened yet for this phase: give the raw listing
                        let w = json!({"max_checkpoints": self.m, "phases": self.phases, "after_save_number_in_phase": i + 1,
                            "checkpoint_files": detail});
                        out.violation(&format!("{}/count-exceeds-max", self.site),
                            "more than max_checkpoints checkpoint files after a completed checkpoint()", w);
                    }
                    po.snaps.push(names);
                }
                Err(_) => {
                    po.crashed = true;
                    break;
                }
            }
        }
        let log = fs_take_log();
        // ---- model update from the op log ----
        let mut call: isize = -1;
        for (op, path, done) in &log {
            if *op == "write" {
                call += 1;
            }
            po.ops.push(op);
            let fname = path.file_name().map(|s| s.to_string_lossy().to_string()).unwrap_or_default();
            self.oplog.push(format!("{} {} {}", op, fname, if *done { "ok" } else { "NOT-PERFORMED(crash)" }));
            if !*done && po.site == "no-fault" {
                po.site = match (*op, ph.fault.map(|f| f.torn).unwrap_or(false)) {
                    ("write", true) => "torn",
                    ("write", false) => "write",
                    ("rename", _) => "rename",
                    ("remove", _) => "remove",
                    _ => "other-op",
                };
            }
            if !*done {
                continue;
            }
            let id = fname.parse::<u64>().ok();
            match (*op, id) {
                ("rename", Some(id)) => {
                    if call < 0 || call as usize >= markers.len() {
                        out.inconclusive("op log cannot be segmented into checkpoint() calls");
                        po.aborted = true;
                        continue;
                    }
                    let max_before = self.completed.iter().map(|c| c.0).max();
                    if let Some(mx) = max_before {
                        if id <= mx {
                            let w = self.witness(json!({"new_id": id, "largest_earlier_completed_id": mx}));
                            out.violation(&format!("{}/id-not-increasing", self.site),
                                "a checkpoint completed with an id that does not exceed all earlier completed ids", w);
                        }
                    }
                    self.completed.push((id, markers[call as usize]));
                    self.present.insert(id);
                }
                ("remove", Some(id)) => {
                    self.present.remove(&id);
                }
                _ => {}
            }
        }
        if (call + 1) as usize != markers.len() {
            out.inconclusive("number of logged writes differs from the number of checkpoint() calls");
            po.aborted = true;
        }
        if po.site != "no-fault" {
            self.site = po.site;
        }
        if let Some(e) = restart_err {
            // a clean restart inside the phase failed although no crash had happened
            let w = self.witness(json!({"error": e}));
            out.violation(&format!("{}/recovery-fails", self.site), "restart on a quiescent directory fails", w);
            po.aborted = true;
            return po;
        }
        if !po.crashed {
            po.mgr = mgr;
        }
        po
    }

    /// Fresh store + manager + recover(); judged against the model. Returns the new manager.
    fn recover_and_check(&mut self, out: &mut Partial) -> Option<CheckpointManager> {
        out.add("recoveries_checked", 1);
        let expected = self.completed.last().copied();
        let mgr = match self.open_mgr() {
            Ok(m) => m,
            Err(e) => {
                if expected.is_some() {
                    let w = self.witness(json!({"expected_id_marker": expected, "observed": e}));
                    out.violation(&format!("{}/recovery-fails", self.site), "a fresh CheckpointManager cannot be created after the crash", w);
                } else {
                    out.add("recovery_error_with_nothing_completed", 1);
                }
                return None;
            }
        };
        match mgr.recover() {
            Err(e) => {
                if expected.is_some() {
                    let w = self.witness(json!({"expected_id_marker": expected, "observed": format!("recover(): {}", e)}));
                    out.violation(&format!("{}/recovery-fails", self.site), "recover() fails after the crash", w);
                } else {
                    out.add("recovery_error_with_nothing_completed", 1);
                }
                return None;
            }
            Ok(None) => {
                if let Some(exp) = expected {
                    let w = self.witness(json!({"expected_id_marker": exp, "observed": "None"}));
                    out.violation(&format!("{}/recovered-nothing", self.site), "recover() returns None although a checkpoint was completely written", w);
                }
            }
            Ok(Some(c)) => match expected {
                None => {
                    let w = self.witness(json!({"expected": "None", "observed": ckpt_json(&c)}));
                    out.violation(&format!("{}/returned-uncommitted", self.site), "recover() returns a checkpoint although no rename ever completed", w);
                }
                Some((id, marker)) => {
                    if c.id != id {
                        let w = self.witness(json!({"expected_id_marker": (id, marker), "observed": ckpt_json(&c)}));
                        out.violation(&format!("{}/wrong-checkpoint", self.site), "recover() returns a checkpoint other than the newest completely written one", w);
                    } else if !payload_intact(&c, marker) {
                        let w = self.witness(json!({"expected_id_marker": (id, marker), "observed": ckpt_json(&c)}));
                        out.violation(&format!("{}/partial-payload", self.site), "the recovered checkpoint does not carry the payload that was handed over", w);
                    }
                }
            },
        }
        // the model's file set must agree with the directory, else the bookkeeping is off
        let (_, ids, _) = self.listing();
        if ids != self.present {
            out.inconclusive("model of the checkpoint directory disagrees with the directory listing");
        }
        Some(mgr)
    }
}

#[derive(Clone, Copy, Debug, Hash, PartialEq, Eq)]
enum Corrupt {
    TruncZero,
    TruncHalf,
    TruncLast,
    Garbage,
    FlipFirst,
}

fn corrupt_file(p: &PathBuf, kind: Corrupt) {
    let data = std::fs::read(p).unwrap_or_default();
    let new = match kind {
        Corrupt::TruncZero => vec![],
        Corrupt::TruncHalf => data[..data.len() / 2].to_vec(),
        Corrupt::TruncLast => data[..data.len().saturating_sub(1)].to_vec(),
        Corrupt::Garbage => vec![0xFFu8; data.len().max(8)],
        Corrupt::FlipFirst => {
            let mut d = data.clone();
            if !d.is_empty() {
                d[0] ^= 0xFF;
            }
            d
        }
    };
    let _ = std::fs::write(p, new);
}

/// All work for one history; returns nothing, accumulates into `out`.
fn run_history(m: usize, n: usize, restarts: u32, second_faults: bool, out: &mut Partial) {
    let base = Phase { saves: n, restarts, fault: None };
    // ---------- clean run: count ops, quiescent snapshots ----------
    let mut s = Session::new(m);
    let po = s.run_phase(None, &base, out);
    out.eval();
    if po.aborted || po.crashed {
        if po.crashed {
            out.inconclusive("checkpoint() failed in a run without a fault");
        }
        return;
    }
    let ops = po.ops.clone();
    let mut quiescent: Vec<BTreeSet<String>> = vec![BTreeSet::new()];
    quiescent.extend(po.snaps.iter().cloned());
    drop(po);
    if let Some(mgr) = s.recover_and_check(out) {
        // continuation after a clean restart
        let po2 = s.run_phase(Some(mgr), &Phase { saves: 1, restarts: 0, fault: None }, out);
        if !po2.aborted && !po2.crashed {
            drop(po2);
            s.recover_and_check(out);
        }
    }
    if out.samples.is_empty() && n >= 3 {
        out.sample(json!({"lane": "clean", "max_checkpoints": m, "saves": n, "restart_mask": restarts, "fs_op_log": s.oplog}));
    }

    // ---------- every crash point, fail-stop and torn ----------
    for k in 0..ops.len() {
        for torn in [false, true] {
            if torn && ops[k] != "write" {
                continue;
            }
            let fault = Fault { k: k as u64, torn };
            // first pass without a second fault; learn the op count of the continuation
            let mut second: Option<Fault> = None;
            let mut cont_total: Option<usize> = None;
            let mut j = 0usize;
            loop {
                let mut s = Session::new(m);
                let po = s.run_phase(None, &Phase { saves: n, restarts, fault: Some(fault) }, out);
                out.eval();
                if po.aborted {
                    break;
                }
                if !po.crashed {
                    out.inconclusive("armed crash point was not reached");
                    break;
                }
                if second.is_none() {
                    // non-trivial: directory differs from the quiescent state before and after the
                    // interrupted save
                    let (names, _, _) = s.listing();
                    let done_saves = po.snaps.len();
                    let prev = &quiescent[done_saves];
                    let next = &quiescent[(done_saves + 1).min(quiescent.len() - 1)];
                    if &names != prev && &names != next {
                        out.nontrivial(&("crash", m, n, restarts, k, torn));
                    }
                    out.add(&format!("crash_site_{}", po.site), 1);
                }
                drop(po);
                let mgr = match s.recover_and_check(out) {
                    Some(mg) => mg,
                    None => break,
                };
                let cont = Phase { saves: 2, restarts: if (k + j) % 2 == 0 { 0 } else { 1 }, fault: second };
                let po2 = s.run_phase(Some(mgr), &cont, out);
                if po2.aborted {
                    break;
                }
                if second.is_none() {
                    if po2.crashed {
                        out.inconclusive("checkpoint() failed after recovery without a fault");
                        break;
                    }
                    cont_total = Some(po2.ops.len());
                    drop(po2);
                    s.recover_and_check(out);
                    if out.samples.len() < 2 && k == ops.len() / 2 {
                        out.sample(json!({"lane": "crash", "max_checkpoints": m, "saves": n, "restart_mask": restarts,
                            "crash_at_fs_op": k, "torn": torn, "fs_op_log": s.oplog, "completed_id_marker": s.completed}));
                    }
                } else {
                    let site2 = po2.site;
                    let crashed2 = po2.crashed;
                    drop(po2);
                    if crashed2 {
                        out.add(&format!("second_crash_site_{}", site2), 1);
                        out.nontrivial(&("crash2", m, n, restarts, k, torn, j));
                    }
                    if let Some(mgr3) = s.recover_and_check(out) {
                        let po3 = s.run_phase(Some(mgr3), &Phase { saves: 1, restarts: 0, fault: None }, out);
                        if !po3.aborted && !po3.crashed {
                            drop(po3);
                            s.recover_and_check(out);
                        }
                    }
                }
                // next second fault
                if !second_faults {
                    break;
                }
                let total = cont_total.unwrap_or(0);
                // enumerate (j, torn2): fail-stop at every op of the continuation; torn at j handled
                // by alternating on parity to keep the product bounded
                if second.is_some() {
                    j += 1;
                }
                if j >= total {
                    break;
                }
                second = Some(Fault { k: j as u64, torn: (j + k) % 2 == 1 });
            }
        }
    }

    // ---------- corruption / truncation of the newest file(s) after a clean history ----------
    for kind in [Corrupt::TruncZero, Corrupt::TruncHalf, Corrupt::TruncLast, Corrupt::Garbage, Corrupt::FlipFirst] {
        for depth in 1..=2usize {
            let mut s = Session::new(m);
            let po = s.run_phase(None, &base, out);
            out.eval();
            if po.aborted || po.crashed {
                continue;
            }
            drop(po);
            let ids: Vec<u64> = s.present.iter().rev().copied().collect();
            if ids.len() < depth || (depth == 2 && ids.len() < 3) {
                continue;
            }
            s.site = "corrupt-newest";
            let bad: Vec<u64> = ids[..depth].to_vec();
            for id in &bad {
                corrupt_file(&s.ckpt_dir().join(id.to_string()), kind);
            }
            s.phases.push(json!({"corruption": format!("{:?}", kind), "of_checkpoint_files": bad}));
            // classify with the store's own reader for a single id
            let store = match FileStore::open(s.dir.path()) {
                Ok(st) => st,
                Err(_) => continue,
            };
            let unreadable = bad.iter().all(|id| store.load_checkpoint(*id).is_err());
            if !unreadable {
                out.add("corruption_left_file_readable", 1);
                continue;
            }
            let older: Vec<u64> = ids[depth..]
                .iter()
                .copied()
                .filter(|id| matches!(store.load_checkpoint(*id), Ok(Some(_))))
                .collect();
            if older.is_empty() {
                out.add("corrupt_newest_without_older", 1);
                continue;
            }
            out.nontrivial(&("corrupt", m, n, restarts, kind, depth));
            out.add("corrupt_newest_cases", 1);
            let exp_id = older[0];
            let exp_marker = s.completed.iter().find(|c| c.0 == exp_id).map(|c| c.1).unwrap_or(0);
            let mgr = match s.open_mgr() {
                Ok(mg) => mg,
                Err(e) => {
                    let w = s.witness(json!({"unreadable_ids": bad, "older_readable_ids": older, "expected_id": exp_id,
                        "observed": e, "note": "CheckpointManager::new calls load_latest_checkpoint, so not even the manager can be created"}));
                    out.violation("corrupt-newest/no-fallback", "newest checkpoint unreadable, older readable one exists, recovery fails instead of returning the older one", w);
                    continue;
                }
            };
            match mgr.recover() {
                Err(e) => {
                    let w = s.witness(json!({"unreadable_ids": bad, "older_readable_ids": older, "expected_id": exp_id, "observed": format!("recover(): {}", e)}));
                    out.violation("corrupt-newest/no-fallback", "newest checkpoint unreadable, older readable one exists, recover() fails", w);
                    continue;
                }
                Ok(None) => {
                    let w = s.witness(json!({"unreadable_ids": bad, "older_readable_ids": older, "expected_id": exp_id, "observed": "None"}));
                    out.violation("corrupt-newest/recovered-nothing", "newest checkpoint unreadable, older readable one exists, recover() returns None", w);
                }
                Ok(Some(c)) => {
                    if c.id != exp_id {
                        let w = s.witness(json!({"unreadable_ids": bad, "older_readable_ids": older, "expected_id": exp_id, "observed": ckpt_json(&c)}));
                        out.violation("corrupt-newest/wrong-checkpoint", "recovery does not return the newest readable checkpoint", w);
                    } else if !payload_intact(&c, exp_marker) {
                        let w = s.witness(json!({"expected_id_marker": (exp_id, exp_marker), "observed": ckpt_json(&c)}));
                        out.violation("corrupt-newest/partial-payload", "the recovered older checkpoint does not carry its payload", w);
                    }
                }
            }
            // ids keep increasing: the next checkpoint must not reuse the id of the unreadable file
            let po2 = s.run_phase(Some(mgr), &Phase { saves: 1, restarts: 0, fault: None }, out);
            drop(po2);
        }
    }
}

fn main() {
    let args = Args::parse();
    install_quiet_panic_hook();
    watchdog("C21", args.pick(600, 3600));
    let mut rep = Report::new("C21", "fault_enumeration", &args);
    rep.rule = "histories = max_checkpoints 1..3 x 1..8 checkpoint() calls x clean-restart masks (quick: <=2 restarts, thorough: every subset); per history EVERY FileStore fs-op index is a fail-stop crash point, every write additionally a torn write, and the newest 1-2 checkpoint files are corrupted in 5 ways after the clean history; after recovery two more checkpoints, with (quick: saves<=6, thorough: all) a second crash at every op of that continuation. Non-trivial = crash point after which the directory listing differs from the quiescent state before and after the interrupted save (or a second crash that fired, or a corruption with an older readable checkpoint present); distinct by (m, saves, restarts, op index, torn).".into();
    rep.assume("H5 fail-stop model: an operation either happens completely or not at all, except the torn temp-file write; directory entries and renames are durable once performed (no fsync modelling)");
    rep.assume("the i-th logged `write` belongs to the i-th checkpoint() call (one put per save); 'unreadable' is decided by FileStore::load_checkpoint(id) returning Err for that file");
    rep.exhaustive = Some(true);

    let thorough = args.thorough();
    let mut work: Vec<(usize, usize, u32)> = vec![];
    for m in 1..=3usize {
        for n in 1..=8usize {
            let nmask = 1u32 << (n - 1);
            for mask in 0..nmask {
                if thorough || mask.count_ones() <= 2 {
                    work.push((m, n, mask));
                }
            }
        }
    }
    rep.set("histories", json!(work.len()));
    // the smallest histories first, on this thread, so that the stored witnesses are minimal
    let (small, mut work): (Vec<_>, Vec<_>) = work.into_iter().partition(|w| w.1 <= 2);
    {
        let mut out = Partial::default();
        for (m, n, mask) in small {
            let r = catch(std::panic::AssertUnwindSafe(|| run_history(m, n, mask, true, &mut out)));
            if let Err(p) = r {
                let _ = fs_take_log();
                out.violation("panic", "panic while running a checkpoint history",
                    json!({"max_checkpoints": m, "saves": n, "restart_mask": mask, "panic": p, "site": panic_site(&last_panic_location())}));
            }
        }
        rep.merge(out);
    }
    // biggest first for load balance, then round-robin
    work.sort_by_key(|w| std::cmp::Reverse(w.1));
    let threads = ncpu();
    let work = Arc::new(work);
    let parts = parallel(threads, args.seed, move |ti, _rng| {
        let mut out = Partial::default();
        let mut i = ti;
        while i < work.len() {
            let (m, n, mask) = work[i];
            let second = thorough || n <= 6;
            let r = catch(std::panic::AssertUnwindSafe(|| run_history(m, n, mask, second, &mut out)));
            if let Err(p) = r {
                let _ = fs_take_log();
                out.violation("panic", "panic while running a checkpoint history",
                    json!({"max_checkpoints": m, "saves": n, "restart_mask": mask, "panic": p, "site": panic_site(&last_panic_location())}));
            }
            i += threads;
        }
        out
    });
    for p in parts {
        rep.merge(p);
    }
    std::process::exit(rep.finish());
}
