//! C02 — sequence patterns report exactly the earliest completion of every start event.
//! Monitor: reference implementation of the earliest-continuation semantics (shares no code
//! with the engine; filters are evaluated by an independent evaluator on well-typed fields)
//! compared, as multisets of uid tuples, with what the real parse->load->process path emits.
use serde_json::json;
use std::collections::BTreeMap;
use vh::eng::*;
use vh::seqgen::*;
use vh::*;

fn multiset(v: &[Vec<i64>]) -> BTreeMap<Vec<i64>, i64> {
    let mut m = BTreeMap::new();
    for t in v {
        *m.entry(t.clone()).or_insert(0) += 1;
    }
    m
}

fn check_one(p: &SeqProg, evs: &[GEvent], rt: &tokio::runtime::Runtime, out: &mut Partial) {
    let src = p.vpl();
    let events: Vec<_> = evs.iter().map(|g| g.to_event(p.key_as_string)).collect();
    out.eval();
    let r = catch(std::panic::AssertUnwindSafe(|| run_flat(rt, &src, &events)));
    let emitted = match r {
        Ok(Ok(o)) => o,
        Ok(Err(e)) => {
            out.add("programs_rejected", 1);
            if out.counters.get("programs_rejected").copied().unwrap_or(0) <= 3 {
                out.sample(json!({"rejected_program": src, "error": e}));
            }
            return;
        }
        Err(pn) => {
            out.violation("panic", "engine panicked on a sequence program", json!({"program": src, "events": evs.iter().map(|g| g.json()).collect::<Vec<_>>(), "panic": pn, "site": panic_site(&last_panic_location())}));
            return;
        }
    };
    let n = p.steps.len();
    let mut got = vec![];
    for e in &emitted {
        match tuple_of(e, n) {
            Some(t) => got.push(t),
            None => {
                out.violation("emit/unreadable-tuple", "emitted match does not carry the projected uids", json!({"program": src, "event": event_json(e)}));
                return;
            }
        }
    }
    let want = reference_matches(p, evs, false);
    // non-trivial: reference has >=1 match and >=1 start event without completion
    let starts = evs.iter().filter(|e| e.ty == TYPES[p.steps[0].ty] && p.steps[0].filter.as_ref().map(|f| f.eval(e, &vec![None; n])).unwrap_or(true)).count();
    if !want.is_empty() && starts > want.len() {
        out.nontrivial(&(src.clone(), evs.iter().map(|g| (g.uid, g.ty.clone(), g.x, g.f2, g.s, g.key)).collect::<Vec<_>>()));
    }
    out.add("reference_matches", want.len() as u64);
    out.add("emitted_matches", got.len() as u64);
    if multiset(&got) == multiset(&want) {
        if out.samples.len() < 2 && !want.is_empty() && p.not.is_some() {
            out.sample(json!({"program": src, "events": evs.iter().map(|g| g.json()).collect::<Vec<_>>(), "matches": want}));
        }
        return;
    }
    // classify
    let gm = multiset(&got);
    let wm = multiset(&want);
    let missing: Vec<_> = wm.iter().filter(|(t, c)| gm.get(*t).copied().unwrap_or(0) < **c).map(|(t, _)| t.clone()).collect();
    let extra: Vec<_> = gm.iter().filter(|(t, c)| wm.get(*t).copied().unwrap_or(0) < **c).map(|(t, _)| t.clone()).collect();
    let sig = if p.not.is_some() && p.partitioned && multiset(&reference_matches(p, evs, true)) == gm {
        "negation/crosses-partition".to_string()
    } else if n == 1 && multiset(&reference_one_step_deferred(p, evs)) == gm {
        "1-step/completion-deferred-to-next-routed-event".to_string()
    } else {
        let kind = match (missing.is_empty(), extra.is_empty()) {
            (false, true) => "missing-match",
            (true, false) => "extra-match",
            _ => "different-match",
        };
        format!(
            "{}/{}{}{}{}",
            kind,
            if p.sequence_fn { "sequence-fn" } else { "arrow" },
            if n == 1 { "/1-step" } else { "" },
            if p.partitioned { "/partitioned" } else { "" },
            if p.not.is_some() { "/not" } else { "" }
        )
    };
    out.violation(
        &sig,
        "engine's matches differ from the earliest-continuation reference",
        json!({"program": src, "events": evs.iter().map(|g| g.json()).collect::<Vec<_>>(), "expected": want, "emitted": got, "missing": missing, "extra": extra}),
    );
}

fn main() {
    let args = Args::parse();
    install_quiet_panic_hook();
    watchdog("C02", args.pick(1200, 14400));
    let mut rep = Report::new("C02", "exploration", &args);
    rep.rule = "random 1-4 step sequence programs without `all` (arrow form and sequence() form; constant and cross-alias filters on int/float/string fields; optional partition_by over int or string keys incl. events missing the key; optional .not(N [where ..])) x random streams of 6-40 events over small value domains, plus (thorough) every stream of length <=5 over a reduced alphabet for 2-step programs. Non-trivial: the reference has >=1 match and >=1 start event without completion; distinct by (program text, stream).".into();
    rep.assume(".not is read per partition for partitioned programs (the only reading compatible with C04); a disagreement explained exactly by the global reading gets the signature negation/crosses-partition");
    rep.assume("matches completing at the same event are compared as a multiset (the statement does not order them)");
    if let Some(path) = args.replay.clone() {
        // replay: re-run the engine on the recorded program/events and print both sides
        let doc: serde_json::Value = serde_json::from_str(&std::fs::read_to_string(&path).expect("replay file")).expect("json");
        let w = &doc["witness"];
        let src = w["program"].as_str().unwrap_or("").to_string();
        let rt = rt();
        let events: Vec<_> = w["events"].as_array().cloned().unwrap_or_default().iter().map(|g| {
            let mut f: Vec<(&str, varpulis_core::Value)> = vec![
                ("uid", varpulis_core::Value::Int(g["uid"].as_i64().unwrap())),
                ("x", varpulis_core::Value::Int(g["x"].as_i64().unwrap())),
                ("f", varpulis_core::Value::Float(g["f"].as_f64().unwrap())),
                ("s", varpulis_core::Value::Str(g["s"].as_str().unwrap().to_string().into())),
            ];
            if let Some(k) = g["k"].as_i64() {
                if src.contains("key") { f.push(("k", varpulis_core::Value::Str(format!("key{}", k).into()))); } else { f.push(("k", varpulis_core::Value::Int(k))); }
            }
            ev(g["type"].as_str().unwrap(), ts_ms(g["ts_ms"].as_i64().unwrap_or(0)), &f)
        }).collect();
        let outs = run_flat(&rt, &src, &events);
        println!("program:\n{}\nexpected(recorded): {}\nemitted(now): {:?}", src, w["expected"], outs.map(|o| o.iter().map(event_json).collect::<Vec<_>>()));
        std::process::exit(0);
    }
    let threads = ncpu();
    let progs = args.pick(800usize, 8_000usize);
    let streams_per = args.pick(5usize, 10usize);
    let per_thread = progs / threads + 1;
    let thorough = args.thorough();
    let parts = parallel(threads, args.seed ^ 0xC02, move |ti, mut rng| {
        let mut out = Partial::default();
        let rt = rt();
        let opts = GenOpts { allow_all: false, min_steps: 1, max_steps: 4 };
        for pi in 0..per_thread {
            let mut p = gen_prog(&mut rng, &opts, "S");
            if p.steps.len() == 1 && !p.sequence_fn {
                p.sequence_fn = true; // a 1-step arrow form is a plain stream, not a sequence
            }
            for _ in 0..streams_per {
                let len = 6 + rng.below(35);
                let nkeys = 1 + rng.below(3);
                let miss = p.partitioned && rng.chance(1, 2);
                let evs = gen_stream(&mut rng, len, nkeys, p.not.is_some(), miss);
                check_one(&p, &evs, &rt, &mut out);
            }
            // exhaustive short streams for 2-step programs (thorough): alphabet = 2 types x x in {0,1} (+N)
            if thorough && p.steps.len() == 2 && pi % 20 == ti % 20 {
                let mut alphabet: Vec<(String, i64, Option<i64>)> = vec![];
                let tys = [TYPES[p.steps[0].ty].to_string(), TYPES[p.steps[1].ty].to_string()];
                for t in tys.iter() {
                    for x in 0..2 {
                        for k in 1..=(if p.partitioned { 2 } else { 1 }) {
                            if !alphabet.contains(&(t.clone(), x, Some(k))) {
                                alphabet.push((t.clone(), x, Some(k)));
                            }
                        }
                    }
                }
                if p.not.is_some() {
                    alphabet.push((NOT_TYPE.to_string(), 0, Some(1)));
                }
                let a = alphabet.len();
                for len in 1..=4usize {
                    let total = a.pow(len as u32);
                    for mut code in 0..total {
                        let mut evs = vec![];
                        for i in 0..len {
                            let (t, x, k) = alphabet[code % a].clone();
                            code /= a;
                            evs.push(GEvent { uid: i as i64 + 1, ty: t, x, f2: x, s: b'p', key: k, ts_ms: i as i64 });
                        }
                        check_one(&p, &evs, &rt, &mut out);
                        out.add("exhaustive_short_streams", 1);
                    }
                }
            }
        }
        out
    });
    for p in parts {
        rep.merge(p);
    }
    std::process::exit(rep.finish());
}
