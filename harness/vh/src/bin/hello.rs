fn main() { println!("ok"); }
