//! C13 — sliding windows contain exactly the events in range at each emission.
//!
//! Monitor: an independent reference model (own bookkeeping over the full arrival history, no
//! draining) is compared, event by event, with
//!   * the real `SlidingWindow`, `PartitionedSlidingWindow`, `SlidingCountWindow` driven through
//!     their public `add` / `add_shared` API (direct lane), and
//!   * the real parse -> load -> process path for `.window(size, sliding: slide)` programs, plain
//!     and under `.partition_by(k)`, observed through uid-fingerprint aggregates
//!     (count / bit-mask sum / uid sum / first / last), which determine the emitted set exactly
//!     (engine lane; the partitioned count-sliding window only exists there).
//!
//! Model (DESIGN §2 C13): time-sliding — emission on the first event of a (partition's) stream and
//! whenever ts >= last_emit + slide; contents = the events with ts >= ts_trigger - size, in arrival
//! order. Count-sliding — at the n-th event emit iff n >= N and at least `slide` events arrived
//! since the last emission (or since start); contents = the last N events. For slide > size the
//! sentence "starting once the window is first full" has a second reading (first emission at
//! n = N, then every `slide` events); in that region either reading is accepted for the timing and
//! the evidence counts which one was observed — it is reported, not alarmed on.
use serde_json::{json, Value as J};
use std::collections::BTreeMap;
use std::sync::Arc;
use varpulis_runtime::window::{PartitionedSlidingWindow, SlidingCountWindow, SlidingWindow};
use vh::eng::*;
use vh::*;

#[path = "../winjoin.rs"]
mod winjoin;
use winjoin::*;

#[derive(Clone, Copy, Debug, PartialEq, Eq, Hash)]
enum Kind {
    Sliding,
    PSliding,
    SlidingCount,
    PSlidingCount,
}

impl Kind {
    fn name(self) -> &'static str {
        match self {
            Kind::Sliding => "sliding",
            Kind::PSliding => "p-sliding",
            Kind::SlidingCount => "sliding-count",
            Kind::PSlidingCount => "p-sliding-count",
        }
    }
    fn from_name(s: &str) -> Option<Kind> {
        [Kind::Sliding, Kind::PSliding, Kind::SlidingCount, Kind::PSlidingCount].into_iter().find(|k| k.name() == s)
    }
    fn is_time(self) -> bool {
        matches!(self, Kind::Sliding | Kind::PSliding)
    }
    fn partitioned(self) -> bool {
        matches!(self, Kind::PSliding | Kind::PSlidingCount)
    }
}

#[derive(Clone, Debug, Hash)]
struct Case {
    kind: Kind,
    engine: bool,
    size: i64,
    slide: i64,
    /// direct lane: 0 = add_shared, 1 = add (owned)
    api: u8,
    evs: Vec<GEv>,
}

impl Case {
    fn lane(&self) -> &'static str {
        if self.engine { "engine" } else { "direct" }
    }
    fn program(&self) -> String {
        let mut s = String::from("stream S = T\n");
        if self.kind.partitioned() {
            s.push_str("    .partition_by(k)\n");
        }
        if self.kind.is_time() {
            s.push_str(&format!("    .window({}ms, sliding: {}ms)\n", self.size, self.slide));
        } else {
            s.push_str(&format!("    .window({}, sliding: {})\n", self.size, self.slide));
        }
        s.push_str(FP_TAIL);
        s
    }
    fn json(&self) -> J {
        json!({
            "kind": self.kind.name(), "lane": self.lane(), "size": self.size, "slide": self.slide,
            "unit": if self.kind.is_time() { "ms" } else { "events" },
            "api": if self.engine { "Engine::process" } else if self.api == 0 { "add_shared" } else { "add" },
            "program": if self.engine { J::String(self.program()) } else { J::Null },
            "events": self.evs.iter().map(|g| g.json()).collect::<Vec<_>>(),
        })
    }
    fn from_json(j: &J) -> Option<Case> {
        Some(Case {
            kind: Kind::from_name(j["kind"].as_str()?)?,
            engine: j["lane"].as_str()? == "engine",
            size: j["size"].as_i64()?,
            slide: j["slide"].as_i64()?,
            api: if j["api"].as_str()? == "add" { 1 } else { 0 },
            evs: j["events"].as_array()?.iter().map(GEv::from_json).collect::<Option<Vec<_>>>()?,
        })
    }
}

/// What the real code did on one arrival.
#[derive(Clone, Debug)]
enum Obs {
    None,
    /// uids in emitted order (direct lane)
    List(Vec<i64>),
    /// exact set (ascending uid = arrival order) plus first/last (engine lane)
    Set(Fp),
    Broken(String, &'static str),
}

fn run_direct(c: &Case) -> Vec<Obs> {
    enum W {
        S(SlidingWindow),
        P(PartitionedSlidingWindow),
        C(SlidingCountWindow),
    }
    let d = |n: i64| chrono::Duration::milliseconds(n);
    let mut w = match c.kind {
        Kind::Sliding => W::S(SlidingWindow::new(d(c.size), d(c.slide))),
        Kind::PSliding => W::P(PartitionedSlidingWindow::new("k".to_string(), d(c.size), d(c.slide))),
        Kind::SlidingCount => W::C(SlidingCountWindow::new(c.size as usize, c.slide as usize)),
        Kind::PSlidingCount => unreachable!("partitioned count-sliding has no public direct API"),
    };
    let mut out = Vec::with_capacity(c.evs.len());
    for g in &c.evs {
        let e = g.event();
        let r: Option<Vec<Option<i64>>> = if c.api == 0 {
            let r = match &mut w {
                W::S(w) => w.add_shared(Arc::new(e)),
                W::P(w) => w.add_shared(Arc::new(e)),
                W::C(w) => w.add_shared(Arc::new(e)),
            };
            r.map(|v| v.iter().map(|e| uid_of(e)).collect())
        } else {
            let r = match &mut w {
                W::S(w) => w.add(e),
                W::P(w) => w.add(e),
                W::C(w) => w.add(e),
            };
            r.map(|v| v.iter().map(uid_of).collect())
        };
        out.push(match r {
            None => Obs::None,
            Some(v) => match v.into_iter().collect::<Option<Vec<i64>>>() {
                Some(u) => Obs::List(u),
                None => Obs::Broken("emitted event without uid".into(), "contents/undecodable"),
            },
        });
    }
    out
}

fn run_engine(c: &Case, rt: &tokio::runtime::Runtime) -> Result<Vec<Obs>, String> {
    let events: Vec<_> = c.evs.iter().map(|g| g.event()).collect();
    let outs = run_per_event(rt, &c.program(), &events)?;
    Ok(outs
        .into_iter()
        .map(|o| match o.len() {
            0 => Obs::None,
            1 => match decode_fp(&o[0]) {
                Ok(fp) => Obs::Set(fp),
                Err(FpErr::Inconsistent(e)) => Obs::Broken(e, "contents/duplicate-event"),
                Err(FpErr::Malformed(e)) => Obs::Broken(e, "harness"),
            },
            n => Obs::Broken(format!("{} outputs for one arrival", n), "timing/multiple-emissions"),
        })
        .collect())
}

/// Reference model. Returns per arrival the expected emission (uids in arrival order) under the
/// DESIGN reading, and for count kinds the per-arrival emission flags under the alternative
/// reading of "starting once the window is first full" plus the contents that an emission at
/// that arrival must have (last N) whichever reading applies.
struct Expect {
    model: Vec<Option<Vec<i64>>>,
    alt_emit: Vec<bool>,
    contents_if_emitted: Vec<Vec<i64>>,
    cutoff: Vec<i64>,
}

fn reference(c: &Case) -> Expect {
    #[derive(Default)]
    struct Part {
        arrivals: Vec<(i64, i64)>,
        last_emit: Option<i64>,
        since: i64,
    }
    let mut parts: BTreeMap<i64, Part> = BTreeMap::new();
    let mut ex = Expect { model: vec![], alt_emit: vec![], contents_if_emitted: vec![], cutoff: vec![] };
    for g in &c.evs {
        let p = parts.entry(if c.kind.partitioned() { g.key } else { 0 }).or_default();
        p.arrivals.push((g.uid, g.ts));
        if c.kind.is_time() {
            let lo = g.ts - c.size;
            let contents: Vec<i64> = p.arrivals.iter().filter(|(_, t)| *t >= lo).map(|(u, _)| *u).collect();
            let emit = match p.last_emit {
                None => true,
                Some(l) => g.ts >= l + c.slide,
            };
            if emit {
                p.last_emit = Some(g.ts);
            }
            ex.cutoff.push(lo);
            ex.alt_emit.push(emit);
            ex.model.push(if emit { Some(contents.clone()) } else { None });
            ex.contents_if_emitted.push(contents);
        } else {
            let n = p.arrivals.len() as i64;
            p.since += 1;
            let from = (n - c.size).max(0) as usize;
            let contents: Vec<i64> = p.arrivals[from..].iter().map(|(u, _)| *u).collect();
            let emit = n >= c.size && p.since >= c.slide;
            if emit {
                p.since = 0;
            }
            ex.cutoff.push(0);
            ex.alt_emit.push(n >= c.size && (n - c.size) % c.slide == 0);
            ex.model.push(if emit { Some(contents.clone()) } else { None });
            ex.contents_if_emitted.push(contents);
        }
    }
    ex
}

fn obs_json(o: &[Obs]) -> J {
    J::Array(
        o.iter()
            .map(|o| match o {
                Obs::None => J::Null,
                Obs::List(v) => json!(v),
                Obs::Set(fp) => json!({"set": fp.set, "first": fp.first, "last": fp.last}),
                Obs::Broken(e, _) => json!({"broken": e}),
            })
            .collect(),
    )
}

fn check_case(c: &Case, rt: &tokio::runtime::Runtime, out: &mut Partial) {
    out.eval();
    let run = catch(std::panic::AssertUnwindSafe(|| if c.engine { run_engine(c, rt) } else { Ok(run_direct(c)) }));
    let obs = match run {
        Ok(Ok(o)) => o,
        Ok(Err(e)) => {
            out.inconclusive(&format!("engine rejected a generated sliding-window program: {} :: {}", e, c.program().replace('\n', " ")));
            return;
        }
        Err(p) => {
            out.violation(
                &format!("{}/{}/panic", c.kind.name(), c.lane()),
                "sliding window panicked",
                json!({"case": c.json(), "panic": p, "site": panic_site(&last_panic_location())}),
            );
            return;
        }
    };
    let ex = reference(c);
    out.add("arrivals_checked", c.evs.len() as u64);
    let distinct_contents: std::collections::BTreeSet<&Vec<i64>> = ex.model.iter().flatten().collect();
    if distinct_contents.len() >= 2 {
        out.nontrivial(c);
    }
    let sig = |clause: &str| format!("{}/{}/{}", c.kind.name(), c.lane(), clause);
    let witness = |i: usize, what: &str| {
        json!({"case": c.json(), "at_event_index": i, "at_uid": c.evs[i].uid, "detail": what,
               "expected_emissions_by_arrival": ex.model, "observed_emissions_by_arrival": obs_json(&obs)})
    };
    // ---- timing
    let region = !c.kind.is_time() && c.slide > c.size;
    let emitted: Vec<bool> = obs.iter().map(|o| !matches!(o, Obs::None)).collect();
    for (i, o) in obs.iter().enumerate() {
        if let Obs::Broken(e, clause) = o {
            if *clause == "harness" {
                out.inconclusive(&format!("unreadable engine emission: {}", e));
                return;
            }
            out.violation(&sig(clause), "emission cannot be read as a set of distinct generated events", witness(i, e));
            return;
        }
    }
    if region {
        out.add("slide_gt_size/count/runs", 1);
        let m: Vec<bool> = ex.model.iter().map(|e| e.is_some()).collect();
        if m == ex.alt_emit {
            out.add("slide_gt_size/count/readings_indistinguishable_on_stream", 1);
        }
        if emitted == m {
            out.add("slide_gt_size/count/observed_reading_count_since_start", 1);
        } else if emitted == ex.alt_emit {
            out.add("slide_gt_size/count/observed_reading_first_full_then_every_slide", 1);
        } else {
            let i = (0..emitted.len()).find(|&i| emitted[i] != m[i]).unwrap_or(0);
            out.violation(&sig("timing/slide-gt-size/neither-reading"), "count-sliding emissions (slide > size) follow neither reading of the statement", witness(i, "emission pattern matches neither reading"));
            return;
        }
    } else {
        if c.kind.is_time() && c.slide > c.size {
            out.add("slide_gt_size/time/runs", 1);
        }
        for i in 0..emitted.len() {
            let want = ex.model[i].is_some();
            if emitted[i] != want {
                let clause = if want { "timing/missing-emission" } else { "timing/extra-emission" };
                out.violation(&sig(clause), "emission does not occur exactly when the slide has elapsed since the previous emission", witness(i, clause));
                return;
            }
        }
    }
    // ---- contents of every real emission
    for (i, o) in obs.iter().enumerate() {
        let want = &ex.contents_if_emitted[i];
        let (got_sorted, order_ok): (Vec<i64>, bool) = match o {
            Obs::None | Obs::Broken(..) => continue,
            Obs::List(v) => {
                let mut s = v.clone();
                s.sort();
                let dup = s.windows(2).any(|w| w[0] == w[1]);
                if dup {
                    out.violation(&sig("contents/duplicate-event"), "an emission contains an event twice", witness(i, "duplicate"));
                    return;
                }
                // uids are assigned in arrival order: arrival order == ascending uid
                (s.clone(), *v == s)
            }
            Obs::Set(fp) => {
                let ok = if fp.set.is_empty() { true } else { fp.first == fp.set.first().copied() && fp.last == fp.set.last().copied() };
                (fp.set.clone(), ok)
            }
        };
        out.add("emissions_checked", 1);
        if &got_sorted != want {
            let missing: Vec<i64> = want.iter().filter(|u| !got_sorted.contains(u)).copied().collect();
            let extra: Vec<i64> = got_sorted.iter().filter(|u| !want.contains(u)).copied().collect();
            let mut clause = match (missing.is_empty(), extra.is_empty()) {
                (false, true) => "contents/missing-event".to_string(),
                (true, false) => "contents/extra-event".to_string(),
                _ => "contents/missing-and-extra".to_string(),
            };
            if c.kind.is_time() && !missing.is_empty() {
                let ts_of = |u: i64| c.evs.iter().find(|g| g.uid == u).map(|g| g.ts).unwrap_or(i64::MIN);
                clause.push_str(if missing.iter().all(|u| ts_of(*u) == ex.cutoff[i]) { "/at-cutoff" } else { "/inside-range" });
            }
            out.violation(&sig(&clause), "emission does not contain exactly the events in range of the triggering event", json!({"case": c.json(), "at_event_index": i, "at_uid": c.evs[i].uid, "expected": want, "observed": got_sorted, "missing": missing, "extra": extra}));
            return;
        }
        if !order_ok {
            out.violation(&sig("contents/order"), "emission is not in arrival order", witness(i, "order"));
            return;
        }
    }
    if out.samples.len() < 3 && distinct_contents.len() >= 3 && c.evs.len() <= 12 {
        out.sample(json!({"case": c.json(), "emissions_by_arrival": ex.model}));
    }
}

fn gen_stream(rng: &mut Rng, len: usize, size: i64, slide: i64, nkeys: i64) -> Vec<GEv> {
    let mut t = rng.range(0, 3);
    let mut v = vec![];
    let incs = [0, 0, 0, 1, 1, 1, 2, 3, size, slide, size + 1, slide - 1, (size - slide).abs(), size + slide];
    for i in 0..len {
        if i > 0 {
            t += (*rng.pick(&incs)).max(0);
        }
        v.push(GEv::new(i as i64 + 1, "T", t, rng.range(0, nkeys - 1)));
    }
    v
}

fn main() {
    let args = Args::parse();
    install_quiet_panic_hook();
    watchdog("C13", args.pick(600, 7200));
    let mut rep = Report::new("C13", "exploration", &args);
    rep.rule = "every (size, slide) in 1..5 x 1..5 (ms for time windows, events for count windows) x in-order streams with timestamp ties: direct lane = real SlidingWindow / PartitionedSlidingWindow / SlidingCountWindow through add and add_shared, exhaustively over all streams of length <= L with timestamp increments in {0,1,2,3} (L = 6 quick, 8 thorough; random keys from 2 values for the partitioned form) plus random streams of 5-30 events with increments drawn around size/slide; engine lane = `.window(size, sliding: slide)` programs, plain and under .partition_by(k) (incl. the engine-only partitioned count-sliding window), random streams of 5-40 events, emissions decoded from count/sum(bit)/sum(uid)/first(uid)/last(uid). Non-trivial: the model has >= 2 emissions with different contents; distinct by (kind, lane, size, slide, api, stream).".into();
    rep.assume("time-sliding: a timestamp equal to ts_trigger - size is within the window (DESIGN reading; the boundary event is kept)");
    rep.assume("count-sliding with slide > size: either 'count since start' or 'first full, then every slide' is accepted for the emission timing; which one is observed is counted in slide_gt_size/*");
    rep.assume("uids are assigned in arrival order, so ascending uid is arrival order; sum(bit) over <= 50 events is exact in f64");
    let rt0 = rt();
    if let Some(path) = args.replay.clone() {
        let w = read_replay(&path);
        let c = Case::from_json(&w["case"]).expect("replay witness has no parsable case");
        let mut p = Partial::default();
        check_case(&c, &rt0, &mut p);
        println!("replayed case: {}", c.json());
        for (s, what, wit) in &p.violations {
            println!("VIOLATION-ON-REPLAY signature={} :: {}\n{}", s, what, serde_json::to_string_pretty(wit).unwrap());
        }
        if p.violations.is_empty() {
            println!("no violation on replay");
        }
        std::process::exit(if p.violations.is_empty() { 0 } else { 1 });
    }
    let threads = ncpu();
    let exh_len = args.pick(6usize, 8usize);
    let rand_direct = args.pick(20_000usize, 400_000usize);
    let rand_engine = args.pick(3_000usize, 60_000usize);
    let parts = parallel(threads, args.seed ^ 0xC13, move |ti, mut rng| {
        let mut out = Partial::default();
        let rt = rt();
        // ---- exhaustive small streams, direct lane
        let mut counter = 0usize;
        for size in 1..=5i64 {
            for slide in 1..=5i64 {
                for len in 1..=exh_len {
                    let total = 4usize.pow(len as u32 - 1);
                    for code in 0..total {
                        counter += 1;
                        if counter % threads != ti {
                            continue;
                        }
                        let mut t = 0i64;
                        let mut x = code;
                        let mut evs = vec![];
                        for i in 0..len {
                            if i > 0 {
                                t += (x % 4) as i64;
                                x /= 4;
                            }
                            evs.push(GEv::new(i as i64 + 1, "T", t, 0));
                        }
                        let api = (code % 2) as u8;
                        check_case(&Case { kind: Kind::Sliding, engine: false, size, slide, api, evs: evs.clone() }, &rt, &mut out);
                        let mut pevs = evs;
                        for g in pevs.iter_mut() {
                            g.key = rng.range(0, 1);
                        }
                        check_case(&Case { kind: Kind::PSliding, engine: false, size, slide, api, evs: pevs }, &rt, &mut out);
                        out.add("exhaustive_streams", 2);
                    }
                }
                // count windows do not look at timestamps: one stream per length covers the space
                for len in 1..=30usize {
                    counter += 1;
                    if counter % threads != ti {
                        continue;
                    }
                    let evs = gen_stream(&mut rng, len, size, slide, 1);
                    check_case(&Case { kind: Kind::SlidingCount, engine: false, size, slide, api: (len % 2) as u8, evs }, &rt, &mut out);
                    out.add("exhaustive_streams", 1);
                }
            }
        }
        // ---- random streams, direct lane
        for _ in 0..rand_direct / threads + 1 {
            let kind = *rng.pick(&[Kind::Sliding, Kind::PSliding, Kind::SlidingCount]);
            let (size, slide) = (rng.range(1, 5), rng.range(1, 5));
            let len = 5 + rng.below(26);
            let nkeys = if kind.partitioned() { rng.range(1, 3) } else { 1 };
            let evs = gen_stream(&mut rng, len, size, slide, nkeys);
            check_case(&Case { kind, engine: false, size, slide, api: rng.below(2) as u8, evs }, &rt, &mut out);
        }
        // ---- random streams, engine lane (all four kinds)
        for _ in 0..rand_engine / threads + 1 {
            let kind = *rng.pick(&[Kind::Sliding, Kind::PSliding, Kind::SlidingCount, Kind::PSlidingCount, Kind::PSlidingCount]);
            let (size, slide) = (rng.range(1, 5), rng.range(1, 5));
            let len = 5 + rng.below(36);
            let nkeys = if kind.partitioned() { rng.range(1, 3) } else { 1 };
            let evs = gen_stream(&mut rng, len, size, slide, nkeys);
            check_case(&Case { kind, engine: true, size, slide, api: 0, evs }, &rt, &mut out);
            out.add("engine_runs", 1);
        }
        out
    });
    for p in parts {
        rep.merge(p);
    }
    std::process::exit(rep.finish());
}
