//! C22 — tenant and pipeline metadata survive restarts exactly as acknowledged.
//!
//! Monitor: a real `TenantManager` behind the real warp routes (`api_routes`, which
//! contains `tenant_admin_routes`) over a harness `CrashStore: StateStore` that wraps
//! `MemoryStore` (or `FileStore`) and fails every write from a chosen write index on
//! (fail-stop). For each generated history (<= 8 operations: create/delete tenant,
//! deploy/delete/reload pipeline, over 2 tenant slots x 3 pipeline slots, including
//! operations that are answered with an error) the history is first run without a crash to
//! count the store writes W, then re-run once per crash point k in 0..W. The run stops
//! after the operation during which the crash happened (the in-flight operation); then the
//! server "restarts": `shared_tenant_manager_with_store` (the CLI start-up path, which
//! calls `TenantManager::recover`) on the surviving store.
//! Oracle: own model of the acknowledged state built from the HTTP responses; the
//! recovered tenants (id, name, API key, key lookup) and pipelines (id, name, source,
//! status) must equal the model before or after the single in-flight operation.
#[path = "../apih.rs"]
mod apih;
use serde_json::{json, Value as J};
use std::collections::BTreeMap;
use std::path::PathBuf;
use std::sync::atomic::{AtomicBool, AtomicUsize, Ordering};
use std::sync::{Arc, Mutex};
use varpulis_runtime::persistence::{Checkpoint, FileStore, MemoryStore, StateStore, StoreError};
use varpulis_runtime::tenant::{shared_tenant_manager_with_store, TenantManager};
use vh::*;

// ---------------------------------------------------------------------------
// Crash-injecting store
// ---------------------------------------------------------------------------
struct CrashStore {
    inner: Arc<dyn StateStore>,
    writes: AtomicUsize,
    crash_at: usize,
    crashed: AtomicBool,
    log: Mutex<Vec<String>>,
}

impl CrashStore {
    fn new(inner: Arc<dyn StateStore>, crash_at: usize) -> Self {
        CrashStore { inner, writes: AtomicUsize::new(0), crash_at, crashed: AtomicBool::new(false), log: Mutex::new(vec![]) }
    }
    /// Ok(()) if write number `idx` may proceed.
    fn gate(&self, what: &str) -> Result<(), StoreError> {
        let idx = self.writes.fetch_add(1, Ordering::SeqCst);
        let short: String = what.chars().take(24).collect();
        if idx >= self.crash_at {
            self.crashed.store(true, Ordering::SeqCst);
            self.log.lock().unwrap().push(format!("#{} {} LOST(crash)", idx, short));
            return Err(StoreError::IoError("injected crash".into()));
        }
        self.log.lock().unwrap().push(format!("#{} {}", idx, short));
        Ok(())
    }
}

impl StateStore for CrashStore {
    fn save_checkpoint(&self, c: &Checkpoint) -> Result<(), StoreError> {
        self.gate("save_checkpoint")?;
        self.inner.save_checkpoint(c)
    }
    fn load_latest_checkpoint(&self) -> Result<Option<Checkpoint>, StoreError> {
        self.inner.load_latest_checkpoint()
    }
    fn load_checkpoint(&self, id: u64) -> Result<Option<Checkpoint>, StoreError> {
        self.inner.load_checkpoint(id)
    }
    fn list_checkpoints(&self) -> Result<Vec<u64>, StoreError> {
        self.inner.list_checkpoints()
    }
    fn prune_checkpoints(&self, keep: usize) -> Result<usize, StoreError> {
        self.gate("prune_checkpoints")?;
        self.inner.prune_checkpoints(keep)
    }
    fn put(&self, key: &str, value: &[u8]) -> Result<(), StoreError> {
        self.gate(&format!("put {}", key))?;
        self.inner.put(key, value)
    }
    fn get(&self, key: &str) -> Result<Option<Vec<u8>>, StoreError> {
        self.inner.get(key)
    }
    fn delete(&self, key: &str) -> Result<(), StoreError> {
        self.gate(&format!("delete {}", key))?;
        self.inner.delete(key)
    }
    fn flush(&self) -> Result<(), StoreError> {
        if self.crashed.load(Ordering::SeqCst) {
            return Err(StoreError::IoError("injected crash".into()));
        }
        self.inner.flush()
    }
}

// ---------------------------------------------------------------------------
// Histories
// ---------------------------------------------------------------------------
#[derive(Clone, Debug, PartialEq, Eq, Hash)]
enum Op {
    CreateTenant { t: usize, tier: usize },
    DeleteTenant { t: usize },
    Deploy { t: usize, p: usize, variant: usize, valid: bool },
    DeletePipeline { t: usize, p: usize },
    Reload { t: usize, p: usize, variant: usize, valid: bool },
}

impl Op {
    fn kind(&self) -> &'static str {
        match self {
            Op::CreateTenant { .. } => "create-tenant",
            Op::DeleteTenant { .. } => "delete-tenant",
            Op::Deploy { .. } => "deploy-pipeline",
            Op::DeletePipeline { .. } => "delete-pipeline",
            Op::Reload { .. } => "reload-pipeline",
        }
    }
    fn tenant(&self) -> usize {
        match self {
            Op::CreateTenant { t, .. } | Op::DeleteTenant { t } | Op::Deploy { t, .. } | Op::DeletePipeline { t, .. } | Op::Reload { t, .. } => *t,
        }
    }
    fn pipeline(&self) -> Option<usize> {
        match self {
            Op::Deploy { p, .. } | Op::DeletePipeline { p, .. } | Op::Reload { p, .. } => Some(*p),
            _ => None,
        }
    }
}

const TIERS: &[Option<&str>] = &[None, Some("free"), Some("pro"), Some("enterprise")];

fn source(variant: usize, serial: usize) -> String {
    match variant % 4 {
        0 => format!("stream S{serial} = Ev\n    .where(x > {serial})\n    .emit(uid: uid, s: \"v{serial}\")"),
        1 => format!("stream W{serial} = Ev\n    .window(3)\n    .aggregate(total: sum(x), n: count())\n    .emit(total: total, n: n)"),
        2 => format!("stream Q{serial} = A as a\n    -> B as b\n    .emit(ua: a.uid, ub: b.uid)"),
        _ => format!("# comment {serial} with unicode \u{e9}\u{1F600} and \"quotes\"\nstream U{serial} = Ev .where(name == \"caf\u{e9} \\\"x\\\"\") .emit(uid: uid)\nstream U{serial}b = Ev .where(x < 0) .emit(uid: uid)"),
    }
}

/// Random history; an abstract occupancy model keeps most operations applicable, ~15% are not.
fn gen_history(rng: &mut Rng) -> Vec<Op> {
    let len = 2 + rng.below(7); // 2..=8
    let mut ten = [false; 2];
    let mut pip = [[false; 3]; 2];
    let mut h = vec![];
    // start with a tenant so that histories are not dominated by 401s
    for i in 0..len {
        let t = rng.below(2);
        let p = rng.below(3);
        let wild = rng.chance(3, 20);
        let op = if i == 0 || (!ten[t] && !wild) {
            if ten[t] { Op::Deploy { t, p, variant: rng.below(4), valid: true } } else { Op::CreateTenant { t, tier: rng.below(TIERS.len()) } }
        } else if wild {
            match rng.below(5) {
                0 => Op::DeleteTenant { t },
                1 => Op::Deploy { t, p, variant: rng.below(4), valid: false },
                2 => Op::DeletePipeline { t, p },
                3 => Op::Reload { t, p, variant: rng.below(4), valid: rng.chance(1, 2) },
                _ => Op::CreateTenant { t, tier: rng.below(TIERS.len()) },
            }
        } else {
            let occ: Vec<usize> = (0..3).filter(|q| pip[t][*q]).collect();
            match rng.below(10) {
                0 => Op::DeleteTenant { t },
                1 | 2 | 3 => Op::Deploy { t, p, variant: rng.below(4), valid: true },
                4 | 5 | 6 => {
                    if !occ.is_empty() { Op::DeletePipeline { t, p: *rng.pick(&occ) } } else { Op::Deploy { t, p, variant: rng.below(4), valid: true } }
                }
                _ => {
                    if !occ.is_empty() { Op::Reload { t, p: *rng.pick(&occ), variant: rng.below(4), valid: true } } else { Op::Deploy { t, p, variant: rng.below(4), valid: true } }
                }
            }
        };
        match &op {
            Op::CreateTenant { t, .. } => ten[*t] = true, // (a second create on an occupied slot replaces the slot's tenant in the harness map)
            Op::DeleteTenant { t } => {
                ten[*t] = false;
                pip[*t] = [false; 3];
            }
            Op::Deploy { t, p, valid, .. } => {
                if ten[*t] && *valid {
                    pip[*t][*p] = true;
                }
            }
            Op::DeletePipeline { t, p } => pip[*t][*p] = false,
            Op::Reload { .. } => {}
        }
        h.push(op);
    }
    h
}

// ---------------------------------------------------------------------------
// Model of acknowledged state
// ---------------------------------------------------------------------------
#[derive(Clone, Debug, PartialEq)]
struct MPipe {
    slot: usize,
    name: String,
    source: String,
    status: String,
}

#[derive(Clone, Debug, PartialEq)]
struct MTenant {
    slot: usize,
    name: String,
    key: String,
    pipelines: BTreeMap<String, MPipe>,
}

type Model = BTreeMap<String, MTenant>;

fn model_json(m: &Model) -> J {
    J::Object(
        m.iter()
            .map(|(id, t)| {
                (
                    id.clone(),
                    json!({"slot": t.slot, "name": t.name, "api_key": t.key,
                        "pipelines": J::Object(t.pipelines.iter().map(|(pid, p)| (pid.clone(), json!({"slot": p.slot, "name": p.name, "source": p.source, "status": p.status}))).collect())}),
                )
            })
            .collect(),
    )
}

/// What a restarted server holds, read through the public TenantManager API.
#[derive(Clone, Debug, PartialEq)]
struct RTenant {
    name: String,
    key: String,
    key_lookup_ok: bool,
    pipelines: BTreeMap<String, (String, String, String)>,
}

fn recovered_json(r: &BTreeMap<String, RTenant>) -> J {
    J::Object(
        r.iter()
            .map(|(id, t)| {
                (
                    id.clone(),
                    json!({"name": t.name, "api_key": t.key, "key_lookup_ok": t.key_lookup_ok,
                        "pipelines": J::Object(t.pipelines.iter().map(|(pid, p)| (pid.clone(), json!({"name": p.0, "source": p.1, "status": p.2}))).collect())}),
                )
            })
            .collect(),
    )
}

/// Differences between expectation and recovered state: (component, tenant slot, pipeline slot).
fn diffs(exp: &Model, rec: &BTreeMap<String, RTenant>, slot_of_tenant: &BTreeMap<String, usize>, slot_of_pipe: &BTreeMap<String, usize>) -> Vec<(&'static str, Option<usize>, Option<usize>)> {
    let mut d = vec![];
    for (tid, et) in exp {
        match rec.get(tid) {
            None => d.push(("tenant-missing", Some(et.slot), None)),
            Some(rt) => {
                if rt.name != et.name {
                    d.push(("tenant-name", Some(et.slot), None));
                }
                if rt.key != et.key {
                    d.push(("api-key", Some(et.slot), None));
                }
                if !rt.key_lookup_ok {
                    d.push(("api-key-lookup", Some(et.slot), None));
                }
                for (pid, ep) in &et.pipelines {
                    match rt.pipelines.get(pid) {
                        None => d.push(("pipeline-missing", Some(et.slot), Some(ep.slot))),
                        Some((n, s, st)) => {
                            if *n != ep.name {
                                d.push(("pipeline-name", Some(et.slot), Some(ep.slot)));
                            }
                            if *s != ep.source {
                                d.push(("pipeline-source", Some(et.slot), Some(ep.slot)));
                            }
                            if *st != ep.status {
                                d.push(("pipeline-status", Some(et.slot), Some(ep.slot)));
                            }
                        }
                    }
                }
                for pid in rt.pipelines.keys() {
                    if !et.pipelines.contains_key(pid) {
                        d.push(("pipeline-extra", Some(et.slot), slot_of_pipe.get(pid).copied()));
                    }
                }
            }
        }
    }
    for tid in rec.keys() {
        if !exp.contains_key(tid) {
            d.push(("tenant-extra", slot_of_tenant.get(tid).copied(), None));
        }
    }
    d
}

// ---------------------------------------------------------------------------
// One run of a history with a crash point
// ---------------------------------------------------------------------------
struct RunOut {
    writes: usize,
    /// index of the in-flight operation, if the crash happened
    inflight: Option<usize>,
    /// number of successful writes the in-flight operation had performed before the crash
    inflight_writes_done: usize,
    before: Model,
    after: Model,
    recovered: BTreeMap<String, RTenant>,
    recover_error: Option<String>,
    slot_of_tenant: BTreeMap<String, usize>,
    slot_of_pipe: BTreeMap<String, usize>,
    log: Vec<J>,
    store_log: Vec<String>,
    error: Option<String>,
}

const ADMIN: &str = "ADMIN-KEY-C22";

async fn run(history: &[Op], crash_at: usize, inner: Arc<dyn StateStore>) -> RunOut {
    let store = Arc::new(CrashStore::new(inner.clone(), crash_at));
    let mgr = Arc::new(tokio::sync::RwLock::new(TenantManager::with_store(store.clone() as Arc<dyn StateStore>)));
    let routes = apih::routes(mgr.clone(), Some(ADMIN.to_string()));
    let mut model: Model = BTreeMap::new();
    let mut out = RunOut {
        writes: 0,
        inflight: None,
        inflight_writes_done: 0,
        before: BTreeMap::new(),
        after: BTreeMap::new(),
        recovered: BTreeMap::new(),
        recover_error: None,
        slot_of_tenant: BTreeMap::new(),
        slot_of_pipe: BTreeMap::new(),
        log: vec![],
        store_log: vec![],
        error: None,
    };
    // slot -> live ids (as acknowledged by the server)
    let mut tslot: [Option<(String, String)>; 2] = [None, None];
    let mut pslot: [[Option<String>; 3]; 2] = Default::default();
    for (i, op) in history.iter().enumerate() {
        let before = model.clone();
        let w0 = store.writes.load(Ordering::SeqCst);
        let serial = i + 1;
        let t = op.tenant();
        let key = tslot[t].as_ref().map(|x| x.1.clone()).unwrap_or_else(|| "no-such-key".to_string());
        let tid = tslot[t].as_ref().map(|x| x.0.clone()).unwrap_or_else(|| "00000000-0000-4000-8000-000000000000".to_string());
        let pid = op.pipeline().and_then(|p| pslot[t][p].clone()).unwrap_or_else(|| "00000000-0000-4000-8000-00000000dead".to_string());
        let (method, path, hdr, body): (&str, String, (&str, String), Option<String>) = match op {
            Op::CreateTenant { t, tier } => {
                let mut b = json!({"name": format!("tenant-{}-op{} \u{e9}", t, serial)});
                if let Some(tier) = TIERS[*tier] {
                    b["quota_tier"] = json!(tier);
                }
                ("POST", "/api/v1/tenants".into(), ("x-admin-key", ADMIN.to_string()), Some(b.to_string()))
            }
            Op::DeleteTenant { .. } => ("DELETE", format!("/api/v1/tenants/{}", tid), ("x-admin-key", ADMIN.to_string()), None),
            Op::Deploy { t, p, variant, valid } => {
                let src = if *valid { source(*variant, serial) } else { "this is not {{{ valid".to_string() };
                ("POST", "/api/v1/pipelines".into(), ("x-api-key", key.clone()), Some(json!({"name": format!("pipe-{}-{}-op{}", t, p, serial), "source": src}).to_string()))
            }
            Op::DeletePipeline { .. } => ("DELETE", format!("/api/v1/pipelines/{}", pid), ("x-api-key", key.clone()), None),
            Op::Reload { variant, valid, .. } => {
                let src = if *valid { source(*variant, serial) } else { "stream Broken = = =".to_string() };
                ("POST", format!("/api/v1/pipelines/{}/reload", pid), ("x-api-key", key.clone()), Some(json!({"source": src}).to_string()))
            }
        };
        let r = apih::call(&routes, method, &path, &[(hdr.0, hdr.1.as_str())], body.as_deref().map(|b| b.as_bytes())).await;
        let ok = r.is_2xx();
        let rj = r.json().unwrap_or(J::Null);
        let sent: J = body.as_deref().and_then(|b| serde_json::from_str(b).ok()).unwrap_or(J::Null);
        // acknowledged effect on the model
        if ok {
            match op {
                Op::CreateTenant { t, .. } => {
                    let id = rj["id"].as_str().unwrap_or("").to_string();
                    let k = rj["api_key"].as_str().unwrap_or("").to_string();
                    if id.is_empty() || k.is_empty() {
                        out.error = Some(format!("create tenant answered 2xx without id/api_key: {}", r.text()));
                        break;
                    }
                    model.insert(id.clone(), MTenant { slot: *t, name: sent["name"].as_str().unwrap_or("").to_string(), key: k.clone(), pipelines: BTreeMap::new() });
                    out.slot_of_tenant.insert(id.clone(), *t);
                    // the slot now designates the newest tenant; an older tenant of the slot stays in the model
                    tslot[*t] = Some((id, k));
                    pslot[*t] = Default::default();
                }
                Op::DeleteTenant { t } => {
                    model.remove(&tid);
                    tslot[*t] = None;
                    pslot[*t] = Default::default();
                }
                Op::Deploy { t, p, .. } => {
                    let id = rj["id"].as_str().unwrap_or("").to_string();
                    if id.is_empty() {
                        out.error = Some(format!("deploy answered 2xx without id: {}", r.text()));
                        break;
                    }
                    if let Some(mt) = model.get_mut(&tid) {
                        mt.pipelines.insert(id.clone(), MPipe { slot: *p, name: sent["name"].as_str().unwrap_or("").to_string(), source: sent["source"].as_str().unwrap_or("").to_string(), status: "running".into() });
                    }
                    out.slot_of_pipe.insert(id.clone(), *p);
                    // an earlier pipeline of the slot stays deployed (and in the model); the slot names the newest
                    pslot[*t][*p] = Some(id);
                }
                Op::DeletePipeline { t, p } => {
                    if let Some(mt) = model.get_mut(&tid) {
                        mt.pipelines.remove(&pid);
                    }
                    pslot[*t][*p] = None;
                }
                Op::Reload { .. } => {
                    if let Some(mt) = model.get_mut(&tid) {
                        if let Some(mp) = mt.pipelines.get_mut(&pid) {
                            mp.source = sent["source"].as_str().unwrap_or("").to_string();
                        }
                    }
                }
            }
        }
        out.log.push(json!({"op": i, "kind": op.kind(), "tenant_slot": t, "pipeline_slot": op.pipeline(), "method": method, "path": path, "body": sent, "status": r.status, "response": rj,
                            "store_writes_before_op": w0, "store_writes_after_op": store.writes.load(Ordering::SeqCst)}));
        if store.crashed.load(Ordering::SeqCst) {
            out.inflight = Some(i);
            out.inflight_writes_done = crash_at.saturating_sub(w0);
            out.before = before;
            out.after = model.clone();
            break;
        }
    }
    out.writes = store.writes.load(Ordering::SeqCst);
    if out.inflight.is_none() {
        out.before = model.clone();
        out.after = model.clone();
    }
    out.store_log = store.log.lock().unwrap().clone();
    drop(routes);
    drop(mgr);
    // ---- restart on the surviving store (the CLI start-up path) ----
    let check = TenantManager::with_store(inner.clone()).recover();
    if let Err(e) = check {
        out.recover_error = Some(e.to_string());
    }
    let mgr2 = shared_tenant_manager_with_store(inner.clone());
    let m = mgr2.read().await;
    for t in m.list_tenants() {
        let mut pl = BTreeMap::new();
        for (map_key, p) in &t.pipelines {
            // the map key is what the API addresses; id must agree with it
            let id = if *map_key == p.id { p.id.clone() } else { format!("{}!={}", map_key, p.id) };
            pl.insert(id, (p.name.clone(), p.source.clone(), p.status.to_string()));
        }
        out.recovered.insert(
            t.id.as_str().to_string(),
            RTenant { name: t.name.clone(), key: t.api_key.clone(), key_lookup_ok: m.get_tenant_by_api_key(&t.api_key).map(|x| *x == t.id).unwrap_or(false), pipelines: pl },
        );
    }
    out
}

fn history_json(h: &[Op]) -> J {
    J::Array(h.iter().map(|o| json!(format!("{:?}", o))).collect())
}

fn main() {
    let args = Args::parse();
    install_quiet_panic_hook();
    watchdog("C22", args.pick(600, 5400));
    let mut rep = Report::new("C22", "fault_enumeration", &args);
    rep.rule = "random histories of 2-8 management operations through the REST routes (create tenant with each quota tier, delete tenant, deploy / delete / reload pipeline with 4 source shapes incl. unicode and multi-stream sources; ~15% operations that are answered with an error: unknown ids, invalid VPL, missing tenant) over 2 tenant slots x 3 pipeline slots; for each history EVERY store write index is a crash point (fail-stop: that write and all later ones are lost), plus the clean shutdown after the last write; inner store MemoryStore, for a fraction FileStore. Non-trivial: a crash point inside a multi-write persist (the in-flight operation had already performed >=1 store write); distinct by (history, crash index).".into();
    rep.assume("fail-stop at store-write granularity: a StateStore::put/delete is atomic (FileStore::put is temp-file + rename; crashes inside it belong to C21/H5)");
    rep.assume("an operation is acknowledged when its HTTP response was produced before the crash; the operation during which the crashing write was attempted is the single in-flight one");
    rep.assume("restart = varpulis_runtime::shared_tenant_manager_with_store on the surviving store, as in varpulis-cli main.rs");
    let flip = args.has_flag("--selftest-forget-delete");
    if flip {
        rep.args.replay = Some(PathBuf::from("--selftest"));
        rep.property = "C22-selftest".into();
    }
    let target = std::env::var("CARGO_TARGET_DIR").map(PathBuf::from).unwrap_or_else(|_| args.verif_dir.join("target"));
    let scratch = target.join("tmp-c22").join(format!("{}-{}-{}", args.tier, args.seed, std::process::id()));
    let threads = ncpu();
    let histories_per_thread = args.pick(24usize, 500usize);
    let file_every = args.pick(8usize, 4usize);
    let scratch2 = scratch.clone();
    let parts = parallel(threads, args.seed, move |ti, mut rng| {
        let mut out = Partial::default();
        let rt = apih::rt();
        let mut dir_serial = 0usize;
        for hi in 0..histories_per_thread {
            let history = gen_history(&mut rng);
            let use_file = hi % file_every == file_every - 1;
            let store_kind = if use_file { "file-store" } else { "memory-store" };
            let mut mk_inner = |out: &mut Partial| -> Option<(Arc<dyn StateStore>, Option<PathBuf>)> {
                if use_file {
                    dir_serial += 1;
                    let d = scratch2.join(format!("t{}", ti)).join(format!("s{}", dir_serial));
                    let _ = std::fs::remove_dir_all(&d);
                    match FileStore::open(&d) {
                        Ok(s) => Some((Arc::new(s) as Arc<dyn StateStore>, Some(d))),
                        Err(e) => {
                            out.inconclusive(&format!("cannot open FileStore: {}", e));
                            None
                        }
                    }
                } else {
                    Some((Arc::new(MemoryStore::new()) as Arc<dyn StateStore>, None))
                }
            };
            // clean run: counts the writes and is itself the crash point "after the last write"
            let mut crash_points: Vec<usize> = vec![usize::MAX];
            let mut ci = 0usize;
            let mut sampled = false;
            while ci < crash_points.len() {
                let k = crash_points[ci];
                ci += 1;
                let Some((inner, dir)) = mk_inner(&mut out) else { break };
                let r = rt.block_on(run(&history, k, inner));
                if let Some(d) = dir {
                    let _ = std::fs::remove_dir_all(&d);
                }
                if let Some(e) = &r.error {
                    out.inconclusive(e);
                    break;
                }
                if k == usize::MAX {
                    for w in 0..r.writes {
                        crash_points.push(w);
                    }
                    out.add("histories", 1);
                    for e in &r.log {
                        let ok = e["status"].as_u64().map(|s| (200..300).contains(&s)).unwrap_or(false);
                        out.add(&format!("ops_{}_{}", e["kind"].as_str().unwrap_or("?"), if ok { "acknowledged" } else { "answered_with_error" }), 1);
                        if e["kind"] == "deploy-pipeline" && !ok && e["body"]["source"].as_str().map(|s| s.starts_with("stream") || s.starts_with('#')).unwrap_or(false) && e["status"] == 400 {
                            out.inconclusive(&format!("a source the harness considers valid was rejected: {}", e["response"]));
                        }
                    }
                    out.add("store_writes_in_clean_runs", r.writes as u64);
                } else if r.inflight.is_none() {
                    out.inconclusive("crash point not reached on replay of the same history (non-deterministic write count)");
                    continue;
                }
                out.eval();
                out.add("crash_points_enumerated", 1);
                if r.inflight_writes_done >= 1 {
                    out.nontrivial(&(history.clone(), k));
                    out.add("crashes_inside_multi_write_persist", 1);
                }
                if ti == 0 && !sampled && r.inflight.is_some() && r.inflight_writes_done >= 1 {
                    sampled = true;
                    out.sample(json!({"store": store_kind, "history": r.log, "crash_at_write": k, "store_log": r.store_log, "recovered": recovered_json(&r.recovered)}));
                }
                // ---- oracle ----
                let mut before = r.before.clone();
                let mut after = r.after.clone();
                if flip {
                    // oracle self-test only: pretend acknowledged pipeline deletions must not survive... i.e. expect them still present
                    for m in [&mut before, &mut after] {
                        for t in m.values_mut() {
                            if t.pipelines.is_empty() {
                                t.pipelines.insert("selftest-phantom".into(), MPipe { slot: 0, name: "x".into(), source: "x".into(), status: "running".into() });
                            }
                        }
                    }
                }
                let d_before = diffs(&before, &r.recovered, &r.slot_of_tenant, &r.slot_of_pipe);
                let d_after = diffs(&after, &r.recovered, &r.slot_of_tenant, &r.slot_of_pipe);
                out.add("recoveries_compared", 1);
                if let Some(e) = &r.recover_error {
                    out.violation(
                        &format!("{}/recover-error", store_kind),
                        "TenantManager::recover returned an error on the surviving store",
                        json!({"store": store_kind, "history": history_json(&history), "executed": r.log, "crash_at_write": if k == usize::MAX { J::Null } else { json!(k) }, "store_log": r.store_log, "error": e}),
                    );
                    continue;
                }
                if d_before.is_empty() || d_after.is_empty() {
                    if r.inflight.is_some() {
                        out.add(if d_after.is_empty() && (r.before != r.after) { "inflight_applied" } else { "inflight_not_applied_or_noop" }, 1);
                    }
                    continue;
                }
                // judge against the closer of the two admissible states
                let (d, which) = if d_after.len() <= d_before.len() { (&d_after, "after-inflight") } else { (&d_before, "before-inflight") };
                let executed: Vec<&Op> = history.iter().take(r.inflight.map(|i| i + 1).unwrap_or(history.len())).collect();
                let (component, ts, ps) = d[0];
                // culprit: the last executed operation that addressed the differing entity
                let culprit = executed
                    .iter()
                    .enumerate()
                    .rev()
                    .find(|(_, o)| Some(o.tenant()) == ts && (ps.is_none() || o.pipeline() == ps || matches!(o, Op::DeleteTenant { .. } | Op::CreateTenant { .. })))
                    .map(|(i, o)| format!("{}{}", o.kind(), if Some(i) == r.inflight { "-inflight" } else { "" }))
                    .unwrap_or_else(|| "none".to_string());
                let crash_pos = match (r.inflight, r.inflight_writes_done) {
                    (None, _) => "clean-shutdown",
                    (Some(_), 0) => "crash-before-first-write-of-op",
                    (Some(_), _) => "crash-between-writes-of-op",
                };
                out.violation(
                    &format!("{}/{}/{}/{}", store_kind, component, culprit, crash_pos),
                    "after a crash and restart the recovered tenants/pipelines equal neither the acknowledged state before nor after the single in-flight operation",
                    json!({
                        "store": store_kind,
                        "history": history_json(&history),
                        "executed": r.log,
                        "crash_at_write": if k == usize::MAX { J::Null } else { json!(k) },
                        "inflight_op": r.inflight,
                        "store_log": r.store_log,
                        "expected_before_inflight": model_json(&r.before),
                        "expected_after_inflight": model_json(&r.after),
                        "recovered": recovered_json(&r.recovered),
                        "differences_vs": which,
                        "differences": d.iter().map(|(c, t, p)| json!({"component": c, "tenant_slot": t, "pipeline_slot": p})).collect::<Vec<_>>(),
                    }),
                );
            }
        }
        out
    });
    for p in parts {
        rep.merge(p);
    }
    let _ = std::fs::remove_dir_all(&scratch);
    let _ = std::fs::remove_dir(target.join("tmp-c22"));
    std::process::exit(rep.finish());
}
